#!/usr/bin/env python3
"""tagsfmt2lean: regenerate lean/I18n/Generated/TagsFmt.lean from the CURRENT source of lib/tags.py:

  _escape(s)   safe_format(template, *args, **kwargs)   Tag.get_priority(self)   Tag.format(self, target, *extra, color=False)

(the output path of property C02: how every diagnostic line is put together).  `Props/C02Tie.lean` proves each regenerated function
equal, for ALL inputs, to the hand-written model the theorems of C02 are about (`Tags.escape`, `Tags.safeFormat`, `Tags.priority`,
`Tags.format`).  Statement layer: tools/translate/pytr.  What is specific here — the trusted base of this tie:

  values         a tag argument is the sum `Tags.Extra` (an instance of safestr | bytes | str | int): `if isinstance(s, safestr): A` is
                 `match s with | .safe s => A | _ => …` (likewise `bytes`), `str(s)` is `Tags.Py.pyStr`; a `str` is `Tags.Str` (code points),
                 `safestr(x)` is `x` (a subclass without behaviour: checked here); `'…'` literals are `Tags.lit "…"`.
  CPython        `repr(s)` on str / bytes is the model's `Tags.reprStr db` / `Tags.reprBytes` (the primitives the model's own theorems are about;
                 they are tied to CPython by the tags-escape stream: shared by both sides of the equality), `x[1:]` is `.drop 1`,
                 `template.format(*args, **kwargs)` is `Tags.pyFormat`, `str.join(sep, xs)` is `Tags.joinStr`, f-strings are concatenations.
  _is_safe       `re.compile(<pinned pattern>).match` is `Tags.isSafe` (another pattern is untranslatable; `is_safe_pin` pins the same text).
  enums          `severities` / `certainties` are `OrderedEnum(<name>, [<members in the model's order>])` (checked), `a >= b` on members
                 compares their ranks (`functools.total_ordering` over `__lt__`/`__eq__` on `.value`: checked that `OrderedEnum` is that class),
                 `{S.m1: v1, …}[s]` evaluates every value and selects by the member (KeyError for a missing member), `'IW'[b]` with a bool index.
  self           a `Tag` is the record `Tags.Tag` (name, severity, certainty); `self.get_colors()` is the parameter `colors` (terminal state).

Anything else raises Untranslatable: exit 3, marker file that does not compile, dependent obligations broken.
"""
import ast, os, sys
sys.path.insert(0, os.path.dirname(os.path.abspath(__file__)))
from pytr import (Untranslatable, bad, lname, atom, render, bind, joinc, tuple_pat, Style, Stmts, _mangled, contains, terminates)

def mk(*a): return tuple(a)
INT, BOOL, STR, BYTES, EXTRA, NONE, TAG, SEV, CERT, SEVCLS, CERTCLS = (mk('int'), mk('bool'), mk('str'), mk('bytes'), mk('extra'), mk('none'),
    mk('tag'), mk('sev'), mk('cert'), mk('sevcls'), mk('certcls'))
def OPT(t): return t if t[0] == 'opt' else ('opt', t)
def LIST(t): return ('list', t)
def DICT(k, v): return ('dict', k, v)
def PAIR(a, b): return ('pair', a, b)

SIMPLE = {'int': 'Int', 'bool': 'Bool', 'str': 'Tags.Str', 'bytes': 'List UInt8', 'extra': 'Tags.Extra', 'none': 'Unit', 'tag': 'Tags.Tag',
          'sev': 'Tags.Severity', 'cert': 'Tags.Certainty', 'sevcls': 'Unit', 'certcls': 'Unit'}
def lean_type(t):
    k = t[0]
    if k in SIMPLE: return SIMPLE[k]
    if k == 'opt': return f'Option {atom(lean_type(t[1]))}'
    if k == 'list': return f'List {atom(lean_type(t[1]))}'
    if k == 'dict': return f'List ({lean_type(t[1])} × {lean_type(t[2])})'
    if k == 'pair': return f'({lean_type(t[1])} × {lean_type(t[2])})'
    raise Untranslatable(f'no Lean type for {t}')

def join(a, b, node=None):
    if a == b: return a
    if a == NONE: return OPT(b)
    if b == NONE: return OPT(a)
    if a[0] == 'opt' and a[1] == b: return a
    if b[0] == 'opt' and b[1] == a: return b
    bad(node, f'incompatible types {a} and {b}')

def coerce(text, frm, to, node=None):
    if frm == to: return text
    if to[0] == 'opt':
        if frm == NONE: return 'none'
        if frm == to[1]: return f'(some {text})'
    bad(node, f'cannot use a value of type {frm} where {to} is expected')

def tuple_type(types):
    if not types: return 'Unit'
    if len(types) == 1: return atom(lean_type(types[0]))
    return '(' + ' × '.join(lean_type(t) for t in types) + ')'

class Types:
    NONE, INT = NONE, INT
    join = staticmethod(join); coerce = staticmethod(coerce); tuple_type = staticmethod(tuple_type)

STYLE = Style('Tags.FmtErr', 'PyKit.tryExcept', 'PyKit.forRange')
IS_SAFE_PATTERN = r'\A[A-Za-z0-9_.!<>=-]+\Z'
SEVERITIES = ['pedantic', 'wishlist', 'minor', 'normal', 'important', 'serious']
CERTAINTIES = ['wild-guess', 'possible', 'certain']
MEMBER = {'wild-guess': 'wildGuess', 'wild_guess': 'wildGuess'}

def lit(s):
    if not s.isascii() or '"' in s or '\\' in s: raise Untranslatable(f'str literal {s!r}')
    return f'(Tags.lit "{s}")'

class NoWrites(dict):
    def get(self, k, d=None): return False

class Fn(Stmts):
    T = Types
    EXC_ASSERT = '.error .valueError'      # (no assert in the translated functions; any would be rejected below)
    CAUGHT = {}
    STATE = '#no-state'

    def __init__(self, unit, name):
        self.u, self.name, self.writes = unit, name, False
        self.writes_map = NoWrites()
        self.ret_types, self.ret_type = None, None
        self.ntmp = 0

    def note(self, msg): self.u.dropped.add(msg)

    def ok(self, value_text, ty, env, node=None):
        if self.ret_types is not None:
            self.ret_types.append(ty)
            return ('raw', '.ok default')
        return ('raw', f'.ok {atom(coerce(value_text, ty, self.ret_type, node))}')

    def value(self, e, env, B):
        t, ty = self.expr(e, env, B)
        return 'pure', t, ty, False

    def raise_(self, s, env, B):
        bad(s, 'raise')

    # ---------------- expressions
    def expr(self, e, env, B):
        if isinstance(e, ast.Constant):
            v = e.value
            if v is None: return '()', NONE
            if v is True: return 'true', BOOL
            if v is False: return 'false', BOOL
            if isinstance(v, str): return lit(v), STR
            if isinstance(v, int) and v >= 0: return f'({v} : Int)', INT
            bad(e, f'literal {v!r}')
        if isinstance(e, ast.Name):
            if e.id in env: return lname(e.id), env[e.id]
            if e.id == 'severities' and self.u.enum_ok: return '()', SEVCLS
            if e.id == 'certainties' and self.u.enum_ok: return '()', CERTCLS
            bad(e, f'unknown name {e.id}')
        if isinstance(e, ast.Attribute):
            vt, vty = self.expr(e.value, env, B)
            if vty == TAG and e.attr in ('name', 'severity', 'certainty'):
                return f'{vt}.{e.attr}', {'name': STR, 'severity': SEV, 'certainty': CERT}[e.attr]
            if vty in (SEVCLS, CERTCLS):
                names = SEVERITIES if vty == SEVCLS else CERTAINTIES
                m = [n for n in names if n.replace('-', '_') == e.attr]
                if not m: bad(e, f'no member {e.attr}')
                cls = 'Tags.Severity' if vty == SEVCLS else 'Tags.Certainty'
                return f'{cls}.{MEMBER.get(m[0], m[0])}', (SEV if vty == SEVCLS else CERT)
            bad(e, f'attribute .{e.attr} of a value of type {vty}')
        if isinstance(e, ast.JoinedStr):
            parts = []
            for p in e.values:
                if isinstance(p, ast.Constant) and isinstance(p.value, str): parts.append(lit(p.value))
                elif isinstance(p, ast.FormattedValue) and p.conversion == -1 and p.format_spec is None:
                    t, ty = self.expr(p.value, env, B)
                    if ty != STR: bad(e, f'formatted value of type {ty}')
                    parts.append(t)
                else: bad(e, 'f-string')
            return '(' + ' ++ '.join(parts) + ')', STR
        if isinstance(e, ast.BinOp) and isinstance(e.op, ast.Add):
            lt, lty = self.expr(e.left, env, B)
            rt, rty = self.expr(e.right, env, B)
            if lty == STR and rty == STR: return f'({lt} ++ {rt})', STR
            bad(e, f'+ on {lty}, {rty}')
        if isinstance(e, ast.Compare) and len(e.ops) == 1:
            op = type(e.ops[0]).__name__
            lt, lty = self.expr(e.left, env, B)
            rt, rty = self.expr(e.comparators[0], env, B)
            if op in ('Eq', 'NotEq') and lty == rty == STR:
                return f'(decide ({lt} {"=" if op == "Eq" else "≠"} {rt}))', BOOL
            if lty == rty and lty in (SEV, CERT) and op in ('GtE', 'Gt', 'LtE', 'Lt'):
                return f'(decide ({atom(lt)}.rank {dict(GtE="≥", Gt=">", LtE="≤", Lt="<")[op]} {atom(rt)}.rank))', BOOL
            bad(e, f'comparison {op} between {lty} and {rty}')
        if isinstance(e, ast.UnaryOp) and isinstance(e.op, ast.Not):
            return f'(!{self.cond(e.operand, env, B)})', BOOL
        if isinstance(e, ast.Subscript):
            return self.subscript(e, env, B)
        if isinstance(e, ast.Call):
            return self.call(e, env, B)
        if isinstance(e, ast.ListComp):
            return self.comprehension(e, env, B)
        if isinstance(e, ast.DictComp):
            return self.dictcomp(e, env, B)
        bad(e, f'expression {type(e).__name__}')

    def cond(self, e, env, B):
        t, ty = self.expr(e, env, B)
        if ty == BOOL: return t
        if ty[0] == 'list' or ty == STR: return f'(!{atom(t)}.isEmpty)'
        bad(e, f'truth value of {ty}')

    def subscript(self, e, env, B):
        s = e.slice
        # x[1:]
        if isinstance(s, ast.Slice):
            vt, vty = self.expr(e.value, env, B)
            if vty == STR and s.upper is None and s.step is None and isinstance(s.lower, ast.Constant) and isinstance(s.lower.value, int) and s.lower.value >= 0:
                return f'({atom(vt)}.drop {s.lower.value})', STR
            bad(e, 'slice')
        # 'IW'[<bool>]
        if isinstance(e.value, ast.Constant) and isinstance(e.value.value, str) and len(e.value.value) == 2 and e.value.value.isascii():
            it, ity = self.expr(s, env, B)
            if ity == BOOL:
                a, b = e.value.value
                return f'(if {it} then [{ord(b)}] else [{ord(a)}] : Tags.Str)', STR       # False is 0, True is 1
            bad(e, 'index of a str literal')
        # {S.m: v, …}[s]
        if isinstance(e.value, ast.Dict):
            it, ity = self.expr(s, env, B)
            if ity not in (SEV, CERT): bad(e, 'dict display indexed by something other than an enum member')
            names = SEVERITIES if ity == SEV else CERTAINTIES
            cls = 'Tags.Severity' if ity == SEV else 'Tags.Certainty'
            arms, seen = [], set()
            vals = []
            vty = None
            for k, v in zip(e.value.keys, e.value.values):          # every value is evaluated (display order), then the lookup
                kt, kty = self.expr(k, env, B)
                if kty != ity or not kt.startswith(cls + '.'): bad(e, 'dict key')
                t, ty = self.expr(v, env, B)
                if vty is None: vty = ty
                if ty != vty: bad(e, 'dict values of different types')
                tmp = self.tmp()
                B.append(lambda rest, tmp=tmp, t=t: ('let', tmp, t, rest))
                m = kt[len(cls) + 1:]
                if m in seen: bad(e, 'duplicate key')
                seen.add(m)
                arms.append((m, tmp))
            res = self.tmp()
            all_members = [MEMBER.get(n, n) for n in names]
            marms = [(f'.{m}', ('raw', f'.ok {t}')) for m, t in arms] + [(f'.{m}', ('raw', '.error .keyError')) for m in all_members if m not in seen]
            B.append(lambda rest, res=res, it=it, marms=marms: joinc(res, ('match', it, marms), atom(lean_type(vty)), rest))
            return res, vty
        bad(e, 'subscript')

    def comprehension(self, e, env, B):
        g = e.generators
        if len(g) != 1 or g[0].ifs or not isinstance(g[0].target, ast.Name): bad(e, 'comprehension')
        xs, xty = self.expr(g[0].iter, env, B)
        if xty[0] != 'list': bad(e, 'comprehension over a non-list')
        x = g[0].target.id
        env2 = dict(env); env2[x] = xty[1]
        B2 = []
        t, ty = self.expr(e.elt, env2, B2)
        inner = self.wrap(B2, ('raw', f'.ok {t}'))
        body = inner[1] if inner[0] == 'raw' else ' '.join(l.strip() for l in render(inner, 0, STYLE))
        return self.hoist(B, f'PyKit.mapM (fun {lname(x)} => {body}) {atom(xs)}'), LIST(ty)

    def dictcomp(self, e, env, B):
        # {k: f(v) for k, v in d.items()}
        g = e.generators
        ok = len(g) == 1 and not g[0].ifs and isinstance(g[0].target, ast.Tuple) and len(g[0].target.elts) == 2 and \
             all(isinstance(x, ast.Name) for x in g[0].target.elts) and isinstance(g[0].iter, ast.Call) and isinstance(g[0].iter.func, ast.Attribute) and \
             g[0].iter.func.attr == 'items' and not g[0].iter.args and not g[0].iter.keywords
        if not ok: bad(e, 'dict comprehension other than {k: f(v) for k, v in d.items()}')
        k, v = [x.id for x in g[0].target.elts]
        if not (isinstance(e.key, ast.Name) and e.key.id == k): bad(e, 'dict comprehension key')
        d, dty = self.expr(g[0].iter.func.value, env, B)
        if dty[0] != 'dict': bad(e, '.items() of a non-dict')
        env2 = dict(env); env2[k] = dty[1]; env2[v] = dty[2]
        B2 = []
        t, ty = self.expr(e.value, env2, B2)
        inner = self.wrap(B2, ('raw', f'.ok ({lname(k)}, {t})'))
        body = ' '.join(l.strip() for l in render(inner, 0, STYLE))
        return self.hoist(B, f'PyKit.mapM (fun ({lname(k)}, {lname(v)}) => {body}) {atom(d)}'), DICT(dty[1], ty)

    def call(self, e, env, B):
        f = e.func
        if isinstance(f, ast.Name) and f.id not in env:
            if f.id == 'repr' and len(e.args) == 1 and not e.keywords:
                t, ty = self.expr(e.args[0], env, B)
                if ty == STR: return f'(Tags.reprStr db {atom(t)})', STR
                if ty == BYTES: return f'(Tags.reprBytes {atom(t)})', STR
                bad(e, f'repr of {ty}')
            if f.id == 'str' and len(e.args) == 1 and not e.keywords:
                t, ty = self.expr(e.args[0], env, B)
                if ty == EXTRA: return f'(Tags.Py.pyStr {atom(t)})', STR
                if ty == STR: return t, STR
                bad(e, f'str of {ty}')
            if f.id == 'safestr' and self.u.safestr_ok and len(e.args) == 1 and not e.keywords:
                t, ty = self.expr(e.args[0], env, B)
                if ty != STR: bad(e, f'safestr of {ty}')
                return t, STR
            if f.id == '_is_safe' and self.u.is_safe_ok and len(e.args) == 1 and not e.keywords:
                t, ty = self.expr(e.args[0], env, B)
                if ty != STR: bad(e, f'_is_safe of {ty}')
                return f'(Tags.isSafe {atom(t)})', BOOL
            if f.id == 'map' and len(e.args) == 2 and not e.keywords and isinstance(e.args[0], ast.Name) and e.args[0].id in self.u.functions:
                xs, xty = self.expr(e.args[1], env, B)
                if xty[0] != 'list': bad(e, 'map over a non-list')
                comp, rt = self.u.call_function(e.args[0].id, [('x', xty[1])], e)
                return self.hoist(B, f'PyKit.mapM (fun x => {comp}) {atom(xs)}'), LIST(rt)
            if f.id in self.u.functions:
                if e.keywords or any(isinstance(a, ast.Starred) for a in e.args): bad(e, 'call arguments')
                args = [self.expr(a, env, B) for a in e.args]
                comp, rt = self.u.call_function(f.id, args, e)
                return self.hoist(B, comp), rt
            bad(e, f'call of {f.id}')
        if isinstance(f, ast.Attribute):
            # str.join(sep, xs)
            if isinstance(f.value, ast.Name) and f.value.id == 'str' and 'str' not in env and f.attr == 'join' and len(e.args) == 2 and not e.keywords:
                sep, sty = self.expr(e.args[0], env, B)
                xs, xty = self.expr(e.args[1], env, B)
                if sty != STR or xty != LIST(STR): bad(e, 'str.join arguments')
                return f'(Tags.joinStr {atom(sep)} {atom(xs)})', STR
            vt, vty = self.expr(f.value, env, B)
            # template.format(*args, **kwargs)
            if vty == STR and f.attr == 'format' and len(e.args) == 1 and isinstance(e.args[0], ast.Starred) and len(e.keywords) == 1 and e.keywords[0].arg is None:
                a, aty = self.expr(e.args[0].value, env, B)
                k, kty = self.expr(e.keywords[0].value, env, B)
                if aty != LIST(STR) or kty != DICT(STR, STR): bad(e, 'str.format arguments')
                return self.hoist(B, f'Tags.pyFormat {atom(vt)} {atom(a)} {atom(k)}'), STR
            if vty == TAG and f.attr == 'get_colors' and not e.args and not e.keywords:
                return 'colors', PAIR(STR, STR)            # terminal state: a parameter
            if vty == TAG and f.attr in self.u.methods and not e.args and not e.keywords:
                comp, rt = self.u.call_method(f.attr, vt, e)
                return self.hoist(B, comp), rt
        bad(e, f'call {ast.unparse(e)[:60]}')

    # ---------------- statements
    def assign(self, target, value, s, env, go):
        B = []
        text, ty = self.expr(value, env, B)
        if isinstance(target, ast.Name):
            env2 = dict(env); env2[target.id] = ty
            if B and getattr(B[-1], '__defaults__', None) and text == B[-1].__defaults__[0] and len(B[-1].__defaults__) == 2:
                comp = B[-1].__defaults__[1]; B.pop()
                return self.wrap(B, bind(lname(target.id), comp, go(env2)))
            return self.wrap(B, ('let', lname(target.id), text, go(env2)))
        if isinstance(target, ast.Tuple) and len(target.elts) == 2 and all(isinstance(x, ast.Name) for x in target.elts) and ty[0] == 'pair':
            env2 = dict(env); a, b = [x.id for x in target.elts]
            env2[a], env2[b] = ty[1], ty[2]
            return self.wrap(B, ('match', text, [(f'({lname(a)}, {lname(b)})', go(env2))]))
        bad(s, f'assignment target {ast.unparse(target)}')

    def call_stmt(self, c, s, env, go):
        bad(s, 'call statement')

    def if_(self, s, env, go, live):
        # isinstance(x, safestr | bytes) on a tag argument: a match on the sum
        t = s.test
        if isinstance(t, ast.Call) and isinstance(t.func, ast.Name) and t.func.id == 'isinstance' and 'isinstance' not in env and len(t.args) == 2 and \
           isinstance(t.args[0], ast.Name) and isinstance(t.args[1], ast.Name) and not t.keywords and env.get(t.args[0].id) == EXTRA:
            x, cls = t.args[0].id, t.args[1].id
            if cls == 'safestr' and self.u.safestr_ok: ctor, pty = '.safe', STR
            elif cls == 'bytes' and 'bytes' not in env: ctor, pty = '.bytes', BYTES
            else: bad(s, f'isinstance(…, {cls})')
            e_then = dict(env); e_then[x] = pty
            t_then, t_else = terminates(s.body), terminates(s.orelse)
            if not t_then: bad(s, 'isinstance branch that falls through')          # (the narrowed variable would have to be re-widened)
            then_tree = self._seq(s.body, e_then, None, live)
            else_tree = self._seq(s.orelse, dict(env), None if t_else else go, live)
            return ('match', lname(x), [(f'{ctor} {lname(x)}', then_tree), ('_', else_tree)])
        return super().if_(s, env, go, live)

# ----------------------------------------------------------------------------- the module

class Unit:
    def __init__(self, repo):
        self.tree = ast.parse(open(os.path.join(repo, 'lib', 'tags.py'), encoding='utf-8').read())
        self.functions, self.methods, self.classes, self.assigns = {}, {}, {}, {}
        for n in self.tree.body:
            if isinstance(n, ast.FunctionDef): self.functions[n.name] = n
            elif isinstance(n, ast.ClassDef): self.classes[n.name] = n
            elif isinstance(n, ast.Assign) and len(n.targets) == 1 and isinstance(n.targets[0], ast.Name): self.assigns.setdefault(n.targets[0].id, []).append(n)
        if 'Tag' not in self.classes: raise Untranslatable('class Tag not found')
        for n in self.classes['Tag'].body:
            if isinstance(n, ast.FunctionDef): self.methods[n.name] = n
        # every module-level name bound exactly once (no rebinding of the functions either)
        for name in ('_escape', 'safe_format', '_is_safe', 'safestr', 'severities', 'certainties', 'OrderedEnum'):
            bound = sum(1 for n in ast.walk(self.tree) if (isinstance(n, (ast.FunctionDef, ast.ClassDef)) and n.name == name and n in self.tree.body)) + len(self.assigns.get(name, []))
            if bound != 1: raise Untranslatable(f'{name} is bound {bound} times at module level')
        for n in ast.walk(self.tree):
            if isinstance(n, (ast.Global, ast.Nonlocal)): bad(n, 'global / nonlocal')
        # safestr: class safestr(str): pass
        c = self.classes.get('safestr')
        self.safestr_ok = c is not None and len(c.bases) == 1 and isinstance(c.bases[0], ast.Name) and c.bases[0].id == 'str' and \
                          all(isinstance(s, ast.Pass) or (isinstance(s, ast.Expr) and isinstance(s.value, ast.Constant)) for s in c.body) and not c.decorator_list
        # _is_safe = re.compile(PATTERN).match
        a = self.assigns.get('_is_safe', [None])[0]
        v = a.value if a is not None else None
        self.is_safe_ok = (isinstance(v, ast.Attribute) and v.attr == 'match' and isinstance(v.value, ast.Call) and isinstance(v.value.func, ast.Attribute) and
                           isinstance(v.value.func.value, ast.Name) and v.value.func.value.id == 're' and v.value.func.attr == 'compile' and
                           len(v.value.args) == 1 and not v.value.keywords and isinstance(v.value.args[0], ast.Constant) and v.value.args[0].value == IS_SAFE_PATTERN)
        # the enums
        def enum_members(name, cname):
            a = self.assigns.get(name, [None])[0]
            v = a.value if a is not None else None
            if not (isinstance(v, ast.Call) and isinstance(v.func, ast.Name) and v.func.id == 'OrderedEnum' and len(v.args) == 2 and not v.keywords and
                    isinstance(v.args[0], ast.Constant) and isinstance(v.args[1], ast.List)): return None
            return [x.value for x in v.args[1].elts if isinstance(x, ast.Constant)]
        oe = self.classes.get('OrderedEnum')
        oe_ok = False
        if oe is not None:
            meths = {n.name: ast.unparse(n) for n in oe.body if isinstance(n, ast.FunctionDef)}
            decos = [ast.unparse(d) for d in oe.decorator_list]
            oe_ok = decos == ['functools.total_ordering'] and [ast.unparse(b) for b in oe.bases] == ['enum.Enum'] and set(meths) == {'__lt__', '__eq__', '__hash__'} and \
                    'return self.value < other.value' in meths['__lt__'] and 'return self.value == other.value' in meths['__eq__'] and \
                    'if type(self) is not type(other):\n        return NotImplemented' in meths['__lt__']
        self.enum_ok = oe_ok and enum_members('severities', 'Severity') == SEVERITIES and enum_members('certainties', 'Certainty') == CERTAINTIES
        self.dropped = set()
        self.defs, self.order, self.stack = {}, [], []

    def translate(self, key, fnode, params, lean_name, head, doc):
        """params: [(python name, type)]"""
        if key in self.defs: return self.defs[key][0]
        if key in self.stack: bad(fnode, f'recursive {key}')
        if fnode.decorator_list: bad(fnode, f'decorated {key}')
        self.stack.append(key)
        try:
            env = dict(params)
            def run(probe, rt=None):
                fn = Fn(self, key)
                if probe: fn.ret_types = []
                else: fn.ret_type = rt
                tree = fn.block(list(fnode.body), dict(env), fn.fall_off, set())
                return fn, tree
            fn, _ = run(True)
            rt = None
            for t in fn.ret_types: rt = t if rt is None else join(rt, t, fnode)
            rt = rt or NONE
            fn, tree = run(False, rt)
        finally:
            self.stack.pop()
        sig = ''.join(f' ({lname(p)} : {lean_type(t)})' for p, t in params)
        text = f'/-- {doc} -/\ndef {lean_name} (db : Tags.UnicodeDB){head}{sig} : Except Tags.FmtErr {atom(lean_type(rt))} :=\n' + '\n'.join(render(tree, 1, STYLE)) + '\n'
        self.defs[key] = (rt, text)
        self.order.append(key)
        return rt

    def signature(self, fnode, skip_self):
        a = fnode.args
        if a.posonlyargs or a.defaults: bad(fnode, 'signature')
        names = [x.arg for x in a.args][(1 if skip_self else 0):]
        return names, (a.vararg.arg if a.vararg else None), (a.kwarg.arg if a.kwarg else None), [(x.arg, d) for x, d in zip(a.kwonlyargs, a.kw_defaults)]

    def call_function(self, name, args, node):
        f = self.functions[name]
        if name == '_escape':
            names, va, kw, ko = self.signature(f, False)
            if len(names) != 1 or va or kw or ko: bad(f, 'signature of _escape')
            if len(args) != 1 or args[0][1] != EXTRA: bad(node, f'_escape of {[t for _, t in args]}')
            rt = self.translate('_escape', f, [(names[0], EXTRA)], '_escape', '', '`lib.tags._escape(s)`')
            return f'_escape db {atom(args[0][0])}', rt
        bad(node, f'call of {name}')

    def call_method(self, name, self_text, node):
        if name == 'get_priority':
            f = self.methods[name]
            names, va, kw, ko = self.signature(f, True)
            if names or va or kw or ko: bad(f, 'signature of get_priority')
            rt = self.translate('Tag.get_priority', f, [(f.args.args[0].arg, TAG)], 'Tag.get_priority', '', '`lib.tags.Tag.get_priority(self)`: the letter as a one-character str')
            return f'Tag.get_priority db {atom(self_text)}', rt
        bad(node, f'method {name}')

HEADER = '''/-
GENERATED by tools/translate/tagsfmt2lean.py from lib/tags.py (`_escape`, `safe_format`, `Tag.get_priority`, `Tag.format`) — do not edit.
Regenerated from the repository's working tree on every check; `I18n/Props/C02Tie.lean` proves each definition equal to the model the
theorems of C02 are about (`Tags.escape`, `Tags.safeFormat`, `Tags.priority`, `Tags.format`).
-/
import I18n.PyKit
import I18n.Model.TagsPy
set_option linter.unusedVariables false
namespace I18n.Generated.TagsFmt
open I18n

'''

def generate(repo):
    _mangled.clear()
    u = Unit(repo)
    for n in ('_escape', 'safe_format'):
        if n not in u.functions: raise Untranslatable(f'{n} not found')
    for n in ('get_priority', 'format'):
        if n not in u.methods: raise Untranslatable(f'Tag.{n} not found')
    # _escape, Tag.get_priority (also reached from the others)
    u.call_function('_escape', [('s', EXTRA)], u.functions['_escape'])
    u.call_method('get_priority', 'self', u.methods['get_priority'])
    # safe_format(template, *args, **kwargs)
    f = u.functions['safe_format']
    names, va, kw, ko = u.signature(f, False)
    if len(names) != 1 or va is None or kw is None or ko: bad(f, 'signature of safe_format')
    rt = u.translate('safe_format', f, [(names[0], STR), (va, LIST(EXTRA)), (kw, DICT(STR, EXTRA))], 'safe_format', '',
                     '`lib.tags.safe_format(template, *args, **kwargs)`; the result is a safestr')
    if rt != STR: raise Untranslatable(f'safe_format returns {rt}')
    # Tag.format(self, target, *extra, color=False)
    f = u.methods['format']
    names, va, kw, ko = u.signature(f, True)
    if len(names) != 1 or va is None or kw or len(ko) != 1 or not (isinstance(ko[0][1], ast.Constant) and ko[0][1].value is False):
        bad(f, 'signature of Tag.format')
    selfname = f.args.args[0].arg
    rt = u.translate('Tag.format', f, [(selfname, TAG), (names[0], STR), (va, LIST(EXTRA)), (ko[0][0], BOOL)], 'Tag.format', ' (colors : Tags.Str × Tags.Str)',
                     '`lib.tags.Tag.format(self, target, *extra, color=color)`; `colors` is what `self.get_colors()` answers')
    if rt != STR: raise Untranslatable(f'Tag.format returns {rt}')
    if u.defs['_escape'][0] != STR or u.defs['Tag.get_priority'][0] != STR: raise Untranslatable('return types')
    out = [HEADER]
    for k in u.order: out.append(u.defs[k][1])
    out.append('/- Statements discharged statically by the translator:\n' + ''.join(f'  {d}\n' for d in sorted(u.dropped)) + '-/\n')
    out.append('end I18n.Generated.TagsFmt\n')
    return '\n'.join(out)

def main():
    repo = sys.argv[1] if len(sys.argv) > 1 else '/repo'
    dest = sys.argv[2] if len(sys.argv) > 2 else os.path.join(os.path.dirname(os.path.abspath(__file__)), '..', '..', 'lean', 'I18n', 'Generated', 'TagsFmt.lean')
    try:
        try:
            text = generate(repo)
        except (SyntaxError, KeyError, AttributeError, TypeError, IndexError, ValueError, AssertionError, RecursionError, OSError) as exc:
            raise Untranslatable(f'{type(exc).__name__} while translating: {exc}')
    except Untranslatable as exc:
        msg = str(exc).replace('"', "'").replace('\\', '/')
        text = HEADER + (f'-- UNTRANSLATABLE: {msg}\n'
                         '/-- deliberately does not compile: the current lib/tags.py is outside the translator\'s subset (see above) -/\n'
                         'def untranslatable : Unit := the_current_source_of_lib_tags_py_is_untranslatable\n'
                         'end I18n.Generated.TagsFmt\n')
        print(f'untranslatable: {exc}', file=sys.stderr)
        old = open(dest, encoding='utf-8').read() if os.path.exists(dest) else None
        if old != text: open(dest, 'w', encoding='utf-8').write(text)
        sys.exit(3)
    old = open(dest, encoding='utf-8').read() if os.path.exists(dest) else None
    if old != text:
        open(dest, 'w', encoding='utf-8').write(text)
        print('changed')
    else:
        print('unchanged')

if __name__ == '__main__':
    main()
