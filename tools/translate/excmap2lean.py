#!/usr/bin/env python3
"""Exception map of /repo/lib: which exception classes every `try` statement catches, what each handler does, and what the
code raises by itself  ->  lean/I18n/Generated/ExcMap.lean.

An `ast` walk over the scanned files (FILES below) extracts, per function and in source order,
  * every `try`: the classes of each `except` clause (the expression is evaluated in the namespace of the LIVE module, so
    aliases such as `backend.Error`, `polib4us.moparser.SyntaxError`, `xml.SyntaxError` resolve to the class object), the tag
    names the handler emits (`….tag('<literal>', …)`), how the handler ends (return / continue / break / pass-through / bare
    re-raise / raises another class), whether there is a `finally` / `else` clause and the tags of the `finally` clause, and
    the calls made in the `try` body (unparsed callee expressions);
  * every `raise` statement (class resolved the same way; `raise` of a variable is `<dynamic>`), every `assert`,
    every `….warn(<Class>, …)` call of the strformat parsers (the classes that end up in `fmt.warnings` and are re-raised
    by `check_string`);
and from the live modules
  * the class table: every exception class mentioned, every exception class defined in a strformat module, a fixed list of
    builtins that CPython raises implicitly; each with its MRO restricted to exception classes;
  * for each strformat module its `Error` class and ALL exception classes defined in the module.
`except self.backend.Error` (lib/check/msgformat/__init__.py) is expanded once per registered backend.

Source lines are NOT part of the output (a try is identified by file, function and its ordinal in the function), so that
behaviour-preserving edits leave the file unchanged."""
import ast, builtins, importlib, os, shutil, sys, tempfile

FILES = [
    ('lib/cli.py', 'lib.cli'),
    ('lib/check/__init__.py', 'lib.check'),
    ('lib/check/msgformat/__init__.py', 'lib.check.msgformat'),
    ('lib/check/msgformat/c.py', 'lib.check.msgformat.c'),
    ('lib/check/msgformat/python.py', 'lib.check.msgformat.python'),
    ('lib/check/msgformat/pybrace.py', 'lib.check.msgformat.pybrace'),
    ('lib/check/msgformat/perlbrace.py', 'lib.check.msgformat.perlbrace'),
    ('lib/gettext.py', 'lib.gettext'),
    ('lib/intexpr.py', 'lib.intexpr'),
    ('lib/xml.py', 'lib.xml'),
    ('lib/iconv.py', 'lib.iconv'),
    ('lib/tags.py', 'lib.tags'),
    ('lib/misc.py', 'lib.misc'),
    ('lib/domains.py', 'lib.domains'),
    ('lib/polib4us.py', 'lib.polib4us'),
    ('lib/moparser.py', 'lib.moparser'),
    ('lib/encodings.py', 'lib.encodings'),
    ('lib/ling.py', 'lib.ling'),
    ('lib/strformat/c.py', 'lib.strformat.c'),
    ('lib/strformat/python.py', 'lib.strformat.python'),
    ('lib/strformat/pybrace.py', 'lib.strformat.pybrace'),
    ('lib/strformat/perlbrace.py', 'lib.strformat.perlbrace'),
]
BACKENDS = [('c', 'lib.strformat.c'), ('perl-brace', 'lib.strformat.perlbrace'), ('python', 'lib.strformat.python'), ('python-brace', 'lib.strformat.pybrace')]
IMPLICIT = ['ZeroDivisionError', 'OverflowError', 'ArithmeticError', 'RecursionError', 'RuntimeError', 'ValueError', 'TypeError', 'KeyError', 'IndexError',
            'LookupError', 'AttributeError', 'AssertionError', 'UnicodeDecodeError', 'UnicodeEncodeError', 'UnicodeError', 'OSError', 'FileNotFoundError',
            'PermissionError', 'IsADirectoryError', 'NotADirectoryError', 'MemoryError', 'StopIteration', 'NotImplementedError', 'UnboundLocalError', 'NameError',
            'Exception', 'BaseException', 'KeyboardInterrupt', 'SystemExit', 'BrokenPipeError']

def lean_str(s):
    out = ['"']
    for ch in s:
        if ch in '\\"':
            out.append('\\' + ch)
        elif ch == '\n':
            out.append('\\n')
        elif ch == '\t':
            out.append('\\t')
        elif ord(ch) < 32 or ord(ch) == 127:
            out.append('\\x%02x' % ord(ch))
        else:
            out.append(ch)
    out.append('"')
    return ''.join(out)

def cname(cls):
    return f'{cls.__module__}.{cls.__qualname__}'

class Untranslatable(Exception):
    pass

class Extract:
    def __init__(self, repo):
        self.repo = repo
        self.classes = {}       # canonical name -> class
        self.tries = []
        self.raises = []
        self.asserts = []
        self.warns = []
        self.encodes = []

    def note(self, cls):
        for c in cls.__mro__:
            if isinstance(c, type) and issubclass(c, BaseException):
                self.classes.setdefault(cname(c), c)
        return cname(cls)

    def resolve(self, expr, ns, backend=None):
        """class expression -> list of canonical names (a tuple gives several)"""
        if isinstance(expr, ast.Tuple):
            res = []
            for e in expr.elts:
                res += self.resolve(e, ns, backend)
            return res
        text = ast.unparse(expr)
        if text.startswith('self.backend.'):
            if backend is None:
                raise Untranslatable(f'{text}: no backend in scope')
            obj = importlib.import_module(backend)
            for part in text.split('.')[2:]:
                obj = getattr(obj, part)
        else:
            try:
                obj = eval(compile(ast.Expression(expr), '<excmap>', 'eval'), dict(ns))   # names/attributes only (checked below)
            except Exception as exc:
                raise Untranslatable(f'cannot resolve exception class {text!r}: {exc!r}')
        if not (isinstance(obj, type) and issubclass(obj, BaseException)):
            raise Untranslatable(f'{text!r} is not an exception class')
        return [self.note(obj)]

    @staticmethod
    def only_names(expr):
        return all(isinstance(n, (ast.Name, ast.Attribute, ast.Load, ast.Tuple)) for n in ast.walk(expr))

    def tags_in(self, stmts):
        """literal tag names of `….tag('<name>', …)` calls, in source order, nested defs excluded"""
        res = []
        class V(ast.NodeVisitor):
            def visit_FunctionDef(s, n): pass
            def visit_AsyncFunctionDef(s, n): pass
            def visit_Lambda(s, n): pass
            def visit_Call(s, n):
                if isinstance(n.func, ast.Attribute) and n.func.attr == 'tag' and n.args and isinstance(n.args[0], ast.Constant) and isinstance(n.args[0].value, str):
                    res.append(n.args[0].value)
                elif isinstance(n.func, ast.Attribute) and n.func.attr == 'tag':
                    res.append('<computed>')
                s.generic_visit(n)
        for st in stmts:
            V().visit(st)
        return res

    def calls_in(self, stmts):
        res = []
        class V(ast.NodeVisitor):
            def visit_FunctionDef(s, n): pass
            def visit_Lambda(s, n): pass
            def visit_Try(s, n):            # a nested try is its own site
                pass
            def visit_Call(s, n):
                res.append(ast.unparse(n.func))
                s.generic_visit(n)
        for st in stmts:
            V().visit(st)
        return sorted(set(res))

    def ending(self, body, ns, backend):
        """how a handler body ends, judged on its statements (conservatively: any bare `raise` inside makes it mayReraise)"""
        kinds = set()
        other = []
        class V(ast.NodeVisitor):
            def visit_FunctionDef(s, n): pass
            def visit_Lambda(s, n): pass
            def visit_Try(s, n):
                # a nested try inside a handler: its own handlers may swallow; stay conservative and look at everything
                s.generic_visit(n)
            def visit_Raise(s, n):
                if n.exc is None:
                    kinds.add('reraise')
                else:
                    kinds.add('raise')
                    other.append(n.exc)
        for st in body:
            V().visit(st)
        last = body[-1]
        if 'reraise' in kinds:
            return 'mayReraise', []
        if 'raise' in kinds:
            names = []
            for e in other:
                tgt = e.func if isinstance(e, ast.Call) else e
                if self.only_names(tgt):
                    try:
                        names += self.resolve(tgt, ns, backend)
                        continue
                    except Untranslatable:
                        pass
                names.append('<dynamic>')
            return 'raises', names
        if isinstance(last, ast.Return):
            return 'return', []
        if isinstance(last, ast.Continue):
            return 'continue', []
        if isinstance(last, ast.Break):
            return 'break', []
        if len(body) == 1 and isinstance(last, ast.Pass):
            return 'pass', []
        return 'fallthrough', []

    def scan(self, path, modname, backend=None, label=None):
        src = open(os.path.join(self.repo, path), encoding='utf-8').read()
        tree = ast.parse(src)
        mod = importlib.import_module(modname)
        ns = vars(mod)
        ex = self
        fname = label or path
        class V(ast.NodeVisitor):
            def __init__(s):
                s.stack = []
                s.counter = {}
            def func(s):
                return '.'.join(s.stack) or '<module>'
            def visit_ClassDef(s, n):
                s.stack.append(n.name); s.generic_visit(n); s.stack.pop()
            def visit_FunctionDef(s, n):
                s.stack.append(n.name); s.generic_visit(n); s.stack.pop()
            visit_AsyncFunctionDef = visit_FunctionDef
            def visit_Try(s, n):
                f = s.func()
                k = s.counter.get(f, 0)
                s.counter[f] = k + 1
                handlers = []
                for h in n.handlers:
                    if h.type is None:
                        classes = [ex.note(BaseException)]
                    else:
                        if not ex.only_names(h.type):
                            raise Untranslatable(f'{path}:{f}: except clause {ast.unparse(h.type)!r} is not a name/attribute/tuple')
                        classes = ex.resolve(h.type, ns, backend)
                    end, others = ex.ending(h.body, ns, backend)
                    handlers.append({'classes': classes, 'tags': ex.tags_in(h.body), 'end': end, 'raises': others})
                ex.tries.append({'file': fname, 'func': f, 'ord': k, 'calls': ex.calls_in(n.body), 'handlers': handlers,
                                 'finally_tags': ex.tags_in(n.finalbody), 'has_finally': bool(n.finalbody), 'has_else': bool(n.orelse)})
                s.generic_visit(n)
            def visit_Raise(s, n):
                if n.exc is None:
                    names = ['<reraise>']
                else:
                    tgt = n.exc.func if isinstance(n.exc, ast.Call) else n.exc
                    names = ['<dynamic>']
                    if ex.only_names(tgt):
                        try:
                            names = ex.resolve(tgt, ns, backend)
                        except Untranslatable:
                            names = ['<dynamic>']
                for nm in names:
                    ex.raises.append((fname, s.func(), nm))
                s.generic_visit(n)
            def visit_Assert(s, n):
                ex.note(AssertionError)
                ex.asserts.append((fname, s.func(), ast.unparse(n.test)))
                s.generic_visit(n)
            def visit_Call(s, n):
                if isinstance(n.func, ast.Attribute) and n.func.attr == 'encode':
                    # `<text>.encode([encoding[, errors]])` — and look-alikes (`iconv.encode(...)`): receiver as written
                    recv = ast.unparse(n.func.value)
                    args = list(n.args)
                    if recv == 'str.join' or (recv == 'str' and args):
                        args = args[1:]
                    kw = {k.arg: k.value for k in n.keywords if k.arg}
                    enc = args[0] if args else kw.get('encoding')
                    err = args[1] if len(args) > 1 else kw.get('errors')
                    def const(x, default):
                        if x is None:
                            return default
                        return x.value if isinstance(x, ast.Constant) and isinstance(x.value, str) else '<dynamic>'
                    ex.encodes.append((fname, s.func(), recv[:60], const(enc, 'utf-8'), const(err, 'strict')))
                if isinstance(n.func, ast.Attribute) and n.func.attr == 'warn' and n.args and ex.only_names(n.args[0]):
                    try:
                        for nm in ex.resolve(n.args[0], ns, backend):
                            ex.warns.append((fname, s.func(), nm))
                    except Untranslatable:
                        ex.warns.append((fname, s.func(), '<dynamic>'))
                s.generic_visit(n)
        V().visit(tree)

    def run(self):
        for name in IMPLICIT:
            self.note(getattr(builtins, name))
        import subprocess
        self.note(subprocess.CalledProcessError)
        for path, modname in FILES:
            if path == 'lib/check/msgformat/__init__.py':
                for fmt, backend in BACKENDS:
                    self.scan(path, modname, backend=backend, label=f'{path}[{fmt}]')
            else:
                self.scan(path, modname)
        own = []
        for fmt, backend in BACKENDS:
            mod = importlib.import_module(backend)
            err = getattr(mod, 'Error', None)
            if not (isinstance(err, type) and issubclass(err, BaseException)):
                raise Untranslatable(f'{backend}.Error is not an exception class')
            defined = sorted(cname(c) for c in vars(mod).values()
                             if isinstance(c, type) and issubclass(c, BaseException) and c.__module__ == mod.__name__)
            for c in vars(mod).values():
                if isinstance(c, type) and issubclass(c, BaseException):
                    self.note(c)
            own.append((fmt, backend, self.note(err), defined))
        # the format checkers and their backends, live
        reg = []
        for fmt, backend in BACKENDS:
            sub = {'c': 'c', 'perl-brace': 'perlbrace', 'python': 'python', 'python-brace': 'pybrace'}[fmt]
            chk = importlib.import_module('lib.check.msgformat.' + sub).Checker
            b = chk.backend
            reg.append((fmt, 'lib/check/msgformat/%s.py' % sub, b.__name__))
            if b.__name__ != backend:
                raise Untranslatable(f'checker for {fmt} uses backend {b.__name__}, expected {backend}')
        return own, reg

def render(ex, own, reg):
    names = sorted(ex.classes)
    idx = {n: i for i, n in enumerate(names)}
    def ids(ns):
        return '[' + ', '.join(str(idx[n]) if n in idx else '9999' for n in ns) + ']'
    out = []
    out.append('/-\nGENERATED by tools/translate/excmap2lean.py (ast walk over /repo/lib + the live class objects) — do not edit.\n'
               'Exception classes (index = position in `classNames`), their MROs, every `try` statement of the scanned files with\n'
               'the classes each handler catches, the tags it emits and how it ends, the explicit `raise`/`assert`/`warn` sites, and\n'
               'the exception classes each strformat module defines.\n-/\nnamespace I18n.Generated.ExcMap\n')
    out.append('/-- canonical names of the exception classes; a class id is an index into this list -/')
    out.append('def classNames : List String := [\n  ' + ',\n  '.join(lean_str(n) for n in names) + ']\n')
    out.append('/-- `mro[i]`: ids of the exception classes in the MRO of class i (i itself first) -/')
    rows = []
    for n in names:
        c = ex.classes[n]
        rows.append(ids([cname(b) for b in c.__mro__ if isinstance(b, type) and issubclass(b, BaseException)]))
    out.append('def mro : List (List Nat) := [\n  ' + ',\n  '.join(rows) + ']\n')
    out.append('/-- how a handler body ends -/\ninductive End where\n  | ret | cont | brk | pass | fallthrough | mayReraise | raises (classes : List Nat)\n  deriving DecidableEq, Repr\n')
    out.append('structure Handler where\n  classes : List Nat\n  tags : List String\n  fin : End\n  deriving DecidableEq, Repr\n')
    out.append('structure TrySite where\n  file : String\n  func : String\n  ord : Nat\n  calls : List String\n  handlers : List Handler\n  hasFinally : Bool\n  finallyTags : List String\n  hasElse : Bool\n  deriving DecidableEq, Repr\n')
    endmap = {'return': '.ret', 'continue': '.cont', 'break': '.brk', 'pass': '.pass', 'fallthrough': '.fallthrough', 'mayReraise': '.mayReraise'}
    rows = []
    for t in ex.tries:
        hs = []
        for h in t['handlers']:
            e = endmap.get(h['end']) or ('.raises ' + ids(h['raises']))
            hs.append('⟨%s, [%s], %s⟩' % (ids(h['classes']), ', '.join(lean_str(x) for x in h['tags']), e))
        rows.append('⟨%s, %s, %d, [%s],\n    [%s],\n    %s, [%s], %s⟩' % (
            lean_str(t['file']), lean_str(t['func']), t['ord'], ', '.join(lean_str(c) for c in t['calls']), ',\n     '.join(hs),
            'true' if t['has_finally'] else 'false', ', '.join(lean_str(x) for x in t['finally_tags']), 'true' if t['has_else'] else 'false'))
    out.append('def tries : List TrySite := [\n  ' + ',\n  '.join(rows) + ']\n')
    out.append('/-- explicit `raise` statements: (file, function, class id; 9999 = a variable or a bare re-raise) -/')
    out.append('def raiseSites : List (String × String × Nat) := [\n  ' + ',\n  '.join(
        '(%s, %s, %s)' % (lean_str(f), lean_str(fn), idx.get(n, 9999)) for f, fn, n in ex.raises) + ']\n')
    out.append('/-- `parent.warn(<Class>, …)` calls of the strformat parsers: the classes recorded in `fmt.warnings` -/')
    out.append('def warnSites : List (String × String × Nat) := [\n  ' + ',\n  '.join(
        '(%s, %s, %s)' % (lean_str(f), lean_str(fn), idx.get(n, 9999)) for f, fn, n in ex.warns) + ']\n')
    out.append('/-- `<x>.encode(…)` calls: (file, function, receiver as written, encoding, error handler; `<dynamic>` = not a literal) -/')
    out.append('def encodeSites : List (String × String × String × String × String) := [\n  ' + ',\n  '.join(
        '(%s, %s, %s, %s, %s)' % tuple(lean_str(x) for x in e) for e in ex.encodes) + ']\n')
    out.append('/-- `assert` statements: (file, function, condition as written) -/')
    out.append('def assertSites : List (String × String × String) := [\n  ' + ',\n  '.join(
        '(%s, %s, %s)' % (lean_str(f), lean_str(fn), lean_str(t)) for f, fn, t in ex.asserts) + ']\n')
    out.append('/-- per message-format flag: (flag, backend module, id of its `Error`, ids of ALL exception classes the module defines) -/')
    out.append('def ownErrors : List (String × String × Nat × List Nat) := [\n  ' + ',\n  '.join(
        '(%s, %s, %d, %s)' % (lean_str(fmt), lean_str(b), idx[e], ids(d)) for fmt, b, e, d in own) + ']\n')
    out.append('/-- the registered format checkers: (flag, file of the checker class, its backend module) -/')
    out.append('def checkers : List (String × String × String) := [\n  ' + ',\n  '.join(
        '(%s, %s, %s)' % (lean_str(a), lean_str(b), lean_str(c)) for a, b, c in reg) + ']\n')
    out.append('end I18n.Generated.ExcMap\n')
    return '\n'.join(out)

HEADER = '/-\nGENERATED by tools/translate/excmap2lean.py — do not edit.\n-/\nnamespace I18n.Generated.ExcMap\n'

def write(dest, text):
    old = open(dest, encoding='utf-8').read() if os.path.exists(dest) else None
    if old != text:
        open(dest, 'w', encoding='utf-8').write(text)
        return True
    return False

def main():
    args = [a for a in sys.argv[1:] if not a.startswith('--')]
    repo = args[0] if args else '/repo'
    gen = os.path.join(os.path.dirname(os.path.abspath(__file__)), '..', '..', 'lean', 'I18n', 'Generated')
    dest = os.path.join(gen, 'ExcMap.lean')
    cache = tempfile.mkdtemp(prefix='i18n-verif-tr.')
    os.environ['XDG_CACHE_HOME'] = cache
    sys.dont_write_bytecode = True
    sys.path.insert(0, repo)
    try:
        try:
            ex = Extract(repo)
            own, reg = ex.run()
            text = render(ex, own, reg)
        except Exception as exc:
            bad = f'-- UNTRANSLATABLE: {exc!r}\n#eval (throwError "untranslatable" : Lean.Elab.Command.CommandElabM Unit)\n'
            open(dest, 'w', encoding='utf-8').write(HEADER + bad + 'end I18n.Generated.ExcMap\n')
            print(f'untranslatable: {exc!r}', file=sys.stderr)
            sys.exit(3)
        if '--json' in sys.argv:
            import json
            names = sorted(ex.classes)
            json.dump({'classes': names, 'tries': ex.tries, 'raises': ex.raises, 'warns': ex.warns, 'asserts': ex.asserts, 'encodes': ex.encodes,
                       'own': own, 'checkers': reg}, sys.stdout, indent=1)
            print()
            return
        print('changed' if write(dest, text) else 'unchanged')
    finally:
        shutil.rmtree(cache, ignore_errors=True)

if __name__ == '__main__':
    main()
