"""Static scan of /repo/lib (+ the launcher) for run-context dependence (C03).  Pure `ast`; nothing of the repo is
imported here, so the scan also works on a tree that no longer imports.

Used by tools/translate/state2lean.py (writes lean/I18n/Generated/StateSites.lean) and by tools/checks/C03.py (search
aid of the falsifier, coverage of the inventory by the dynamic runs).

THE RULES BELOW ARE PART OF THE TRUSTED BASE OF C03 (they are listed in DESIGN-notes/determinism.md).

Scopes.  *import scope* of a module = its body and its class bodies (not function bodies).  Every `def`/`lambda`-free
function body is its own scope; a site belongs to the innermost function.

Call graph (name based, over-approximate).  f -> g when the body of f mentions the identifier g (as a name or as an
attribute) and g is a function/method of lib/ or the launcher; f -> every function nested in f; f -> the dunder methods
and __init__ of every lib class f mentions; decorator d -> the function it decorates, and every reader of a
module-level registry that d writes -> that function (`for patch in patches: patch()`).

Path classes of a function:
  perFile   reachable from cli.check_file / cli.check_file_s; or *escaping* (named in the value of a monkey patch, passed
            to codecs.register, defined inside a function that monkey-patches, method of a class instantiated there);
            or referenced by nothing at all (worst case)
  startup   reachable from cli.main (or the launcher), not perFile, and not cli.check_all itself
  import    every reference is in an import scope (decorators, table builders called at module level)
"""
import ast, os

MUTATORS = {'append', 'add', 'update', 'setdefault', 'pop', 'clear', 'extend', 'insert', 'remove', 'discard', 'popitem',
            'sort', 'reverse', 'appendleft', 'popleft', 'extendleft', 'subtract', 'move_to_end', 'rotate',
            '__setitem__', '__delitem__', 'intersection_update', 'difference_update', 'symmetric_difference_update'}
MUTABLE_CTORS = {'list', 'dict', 'set', 'bytearray', 'defaultdict', 'Counter', 'OrderedDict', 'deque', 'SimpleNamespace',
                 'ChainMap', 'Namespace'}
IMMUTABLE_CALLS = {'frozenset', 'tuple', 'str', 'bytes', 'int', 'float', 'bool', 'compile', 'partial', 'namedtuple', 'object',
                   'join', 'format', 'encode', 'decode', 'lower', 'upper', 'normpath', 'dirname', 'chr', 'ord', 'len',
                   'escape', 'property', 'staticmethod', 'classmethod', 'range', 'replace', 'strip', 'abspath', 'realpath'}

class Mod:
    def __init__(self, repo, rel):
        self.rel = rel
        self.src = open(os.path.join(repo, rel), encoding='utf-8').read()
        self.tree = ast.parse(self.src)
        if rel.endswith('.py'):
            name = rel[:-3].replace('/', '.')
            if name.endswith('.__init__'):
                name = name[:-9]
        else:
            name = '__main__'
        self.name = name
        for node in ast.walk(self.tree):
            for ch in ast.iter_child_nodes(node):
                ch._parent = node
        self.tree._parent = None
        self.tree._mod = self
        self.aliases = {}       # local name -> dotted module name            (import a.b as c / from a import b [module])
        self.symbols = {}       # local name -> (dotted module name, symbol)  (from a import f)
    def text(self, node, limit=90):
        s = ' '.join((ast.get_source_segment(self.src, node) or type(node).__name__).split())
        return s if len(s) <= limit else s[:limit - 3] + '...'

class Fn:
    """a function body (or the import scope of a module: node is the ast.Module)"""
    def __init__(self, mod, node, qual, cls, parent):
        self.mod, self.node, self.qual, self.cls, self.parent = mod, node, qual, cls, parent
        self.name = node.name if hasattr(node, 'name') else '<import>'
        self.key = f'{mod.rel}:{qual}'
        self.is_import = isinstance(node, ast.Module)
        self.params = []
        self.globals_decl = set()
        self.locals = set()
        self.mentions = set()
        self.nodes = []          # nodes of this scope (not of nested functions)
        self.path = None
    def __repr__(self):
        return f'<Fn {self.key}>'

FUNC = (ast.FunctionDef, ast.AsyncFunctionDef, ast.Lambda)

def parent(node):
    return getattr(node, '_parent', None)

def enclosing(node, types):
    n = parent(node)
    while n is not None and not isinstance(n, types):
        n = parent(n)
    return n

def chain_root(node):
    """strip attribute / subscript / vars() / getattr() chains: (root expression, list of attribute names passed)"""
    attrs = []
    while True:
        if isinstance(node, ast.Attribute):
            attrs.append(node.attr); node = node.value
        elif isinstance(node, ast.Subscript):
            attrs.append('[]'); node = node.value
        elif isinstance(node, ast.Call) and isinstance(node.func, ast.Name) and node.func.id in ('vars', 'getattr') and node.args:
            attrs.append('()'); node = node.args[0]
        elif isinstance(node, ast.Starred):
            node = node.value
        else:
            return node, list(reversed(attrs))

def stmt_line(n):
    """line of the statement containing node n (what a line tracer reports)"""
    while n is not None and not isinstance(n, ast.stmt):
        n = parent(n)
    return getattr(n, 'lineno', 0)

def call_name(call):
    f = call.func
    if isinstance(f, ast.Name):
        return f.id
    if isinstance(f, ast.Attribute):
        return f.attr
    return None

def dotted(node):
    parts = []
    while isinstance(node, ast.Attribute):
        parts.append(node.attr); node = node.value
    if isinstance(node, ast.Name):
        parts.append(node.id)
        return '.'.join(reversed(parts))
    return None

class Scan:
    def __init__(self, repo):
        self.repo = repo
        self.mods = {}
        rels = []
        for root, dirs, files in os.walk(os.path.join(repo, 'lib')):
            dirs.sort()
            for f in sorted(files):
                if f.endswith('.py'):
                    rels.append(os.path.relpath(os.path.join(root, f), repo))
        if os.path.exists(os.path.join(repo, 'i18nspector')):
            rels.append('i18nspector')
        for rel in sorted(rels):
            self.mods[rel] = Mod(repo, rel)
        self.by_name = {m.name: m for m in self.mods.values()}
        self.fns = []
        self.fn_of_node = {}
        self.classes = {}        # class name -> list of (mod, ClassDef)
        for m in self.mods.values():
            self._imports(m)
            self._collect(m)
        self.by_fname = {}
        for f in self.fns:
            self.by_fname.setdefault(f.name, []).append(f)
        self._module_globals()
        self._callgraph()
        self._paths()

    # ------------------------------------------------------------------ imports
    def _imports(self, m):
        for node in ast.walk(m.tree):
            if isinstance(node, (ast.Import, ast.ImportFrom)) and enclosing(node, FUNC) is not None:
                continue        # function-local imports are locals of that function
            if isinstance(node, ast.Import):
                for a in node.names:
                    if a.asname:
                        m.aliases[a.asname] = a.name
                    else:
                        m.aliases[a.name.split('.')[0]] = a.name.split('.')[0]
            elif isinstance(node, ast.ImportFrom):
                base = node.module or ''
                if node.level:
                    pkg = m.name.split('.')
                    if not m.rel.endswith('__init__.py'):
                        pkg = pkg[:-1]
                    pkg = pkg[:len(pkg) - (node.level - 1)]
                    base = '.'.join(pkg + ([base] if base else []))
                for a in node.names:
                    local = a.asname or a.name
                    full = f'{base}.{a.name}'
                    if full in self._all_module_names() or self._is_external_module(base, a.name):
                        m.aliases[local] = full
                    else:
                        m.symbols[local] = (base, a.name)

    def _all_module_names(self):
        names = set()
        for rel in self.mods:
            if rel.endswith('.py'):
                n = rel[:-3].replace('/', '.')
                names.add(n[:-9] if n.endswith('.__init__') else n)
        return names

    @staticmethod
    def _is_external_module(base, name):
        # `from xml.parsers import expat`-like imports: a lower-case attribute of a package is taken as a module when importable
        if base.startswith('lib'):
            return False
        try:
            import importlib.util
            return importlib.util.find_spec(f'{base}.{name}') is not None
        except Exception:
            return False

    # ------------------------------------------------------------------ functions and scopes
    def _collect(self, m):
        imp = Fn(m, m.tree, '<import>', None, None)
        self.fns.append(imp)
        m.import_fn = imp
        self.fn_of_node[m.tree] = imp
        def handle(ch, node, fn, qual, cls):
            if isinstance(ch, FUNC):
                name = ch.name if hasattr(ch, 'name') else '<lambda>'
                q = (qual + '.' if qual else '') + name
                fn.nodes.append(ch)
                # decorators and defaults are evaluated in the enclosing scope
                for d in getattr(ch, 'decorator_list', []):
                    handle(d, ch, fn, qual, cls)
                for d in ch.args.defaults + [k for k in ch.args.kw_defaults if k is not None]:
                    handle(d, ch, fn, qual, cls)
                in_class = isinstance(node, ast.ClassDef)
                sub = Fn(m, ch, q, cls if in_class else None, None if fn.is_import else fn)
                sub.defined_in = fn
                sub.owner_class = cls if in_class else None
                a = ch.args
                sub.params = [x.arg for x in a.posonlyargs + a.args] + ([a.vararg.arg] if a.vararg else []) + \
                             [x.arg for x in a.kwonlyargs] + ([a.kwarg.arg] if a.kwarg else [])
                self.fns.append(sub)
                self.fn_of_node[ch] = sub
                body = ch.body if isinstance(ch.body, list) else [ch.body]
                for b in body:
                    handle(b, ch, sub, q, None)
            elif isinstance(ch, ast.ClassDef):
                self.classes.setdefault(ch.name, []).append((m, ch))
                fn.nodes.append(ch)
                q = (qual + '.' if qual else '') + ch.name
                for c2 in ast.iter_child_nodes(ch):
                    handle(c2, ch, fn, q, ch.name)
            else:
                fn.nodes.append(ch)
                for c2 in ast.iter_child_nodes(ch):
                    handle(c2, ch, fn, qual, cls)
        for ch in ast.iter_child_nodes(m.tree):
            handle(ch, m.tree, imp, '', None)
        for f in self.fns:
            if f.mod is not m:
                continue
            for n in f.nodes:
                if isinstance(n, (ast.Global, ast.Nonlocal)):
                    f.globals_decl.update(n.names)
            for n in f.nodes:
                if isinstance(n, ast.Name) and isinstance(n.ctx, (ast.Store, ast.Del)):
                    f.locals.add(n.id)
                elif isinstance(n, ast.ExceptHandler) and n.name:
                    f.locals.add(n.name)
                elif isinstance(n, (ast.Import, ast.ImportFrom)):
                    for a in n.names:
                        f.locals.add((a.asname or a.name).split('.')[0])
                elif isinstance(n, FUNC) and hasattr(n, 'name'):
                    f.locals.add(n.name)
                elif isinstance(n, ast.ClassDef):
                    f.locals.add(n.name)
                if isinstance(n, ast.Name):
                    f.mentions.add(n.id)
                elif isinstance(n, ast.Attribute):
                    f.mentions.add(n.attr)
            f.locals |= set(f.params)
            f.locals -= f.globals_decl

    def fn_of(self, node):
        """innermost function (or import scope) owning `node`"""
        n = node
        prev = None
        while n is not None:
            if isinstance(n, FUNC):
                # decorators/defaults belong to the enclosing scope
                if prev is not None and (prev in getattr(n, 'decorator_list', []) or prev in n.args.defaults or prev in n.args.kw_defaults or prev is n.args):
                    pass
                else:
                    return self.fn_of_node[n]
            if isinstance(n, ast.Module):
                return self.fn_of_node[n]
            prev = n
            n = parent(n)
        return None

    # ------------------------------------------------------------------ module-level names
    def _module_globals(self):
        for m in self.mods.values():
            g = {}
            for n in m.import_fn.nodes:
                if isinstance(n, ast.Name) and isinstance(n.ctx, ast.Store):
                    cls = enclosing(n, (ast.ClassDef,))
                    if cls is None:
                        g.setdefault(n.id, [])
            for n in m.import_fn.nodes:
                if isinstance(n, FUNC) and hasattr(n, 'name') and not isinstance(parent(n), ast.ClassDef):
                    g.setdefault(n.name, [])
                if isinstance(n, ast.ClassDef) and not isinstance(parent(n), ast.ClassDef):
                    g.setdefault(n.name, [])
            m.globals = g

    def resolve(self, fn, name):
        """('local'|'param'|'closure'|'global'|'module'|'symbol'|'builtin', info)"""
        f = fn
        first = True
        while f is not None and not f.is_import:
            if name in f.locals:
                if first:
                    return ('param' if name in f.params else 'local', f)
                return ('closure', f)
            if name in f.globals_decl and first:
                break
            first = False
            f = f.parent
        m = fn.mod
        if name in m.aliases:
            return ('module', m.aliases[name])
        if name in m.symbols:
            return ('symbol', m.symbols[name])
        if name in m.globals or (fn.is_import and name in fn.locals):
            return ('global', m)
        return ('builtin', None)

    # ------------------------------------------------------------------ call graph and path classes
    def _callgraph(self):
        self.edges = {f: set() for f in self.fns}
        class_methods = {}
        for f in self.fns:
            if getattr(f, 'owner_class', None):
                class_methods.setdefault(f.owner_class, []).append(f)
        self.class_methods = class_methods
        for f in self.fns:
            for name in f.mentions:
                for g in self.by_fname.get(name, []):
                    if g is not f and not g.is_import:
                        self.edges[f].add(g)
                for cname in self.class_closure(name):
                    for g in class_methods.get(cname, []):
                        if g.name.startswith('__') and g.name.endswith('__'):
                            self.edges[f].add(g)
            for g in self.fns:
                if g.parent is f:
                    self.edges[f].add(g)
        # module-level aliases of functions (`_encode = _encode_dl if … else _encode_cli`): a mention of the alias is a mention of each
        for m in self.mods.values():
            for n in m.import_fn.nodes:
                if isinstance(n, ast.Assign) and len(n.targets) == 1 and isinstance(n.targets[0], ast.Name) and not isinstance(n.value, ast.Call):
                    alias = n.targets[0].id
                    for x in ast.walk(n.value):
                        if isinstance(x, ast.Name) and x.id != alias:
                            for g in self.by_fname.get(x.id, []):
                                if g.mod is m and not g.is_import:
                                    for f in self.fns:
                                        if alias in f.mentions and not f.is_import:
                                            self.edges[f].add(g)
        # decorators: registry link
        self.registry_writers = {}     # (mod rel, global name) -> set of decorator Fns writing it
        for f in self.fns:
            if f.is_import:
                continue
            for n in f.nodes:
                tgt = self._mutation_target(n)
                if tgt is None:
                    continue
                root, _attrs = chain_root(tgt)
                if isinstance(root, ast.Name) and self.resolve(f, root.id)[0] == 'global':
                    self.registry_writers.setdefault((f.mod.rel, root.id), set()).add(f)
        for g in self.fns:
            for d in getattr(g.node, 'decorator_list', []):
                dn = d.func if isinstance(d, ast.Call) else d
                name = dn.id if isinstance(dn, ast.Name) else (dn.attr if isinstance(dn, ast.Attribute) else None)
                for dec in self.by_fname.get(name, []):
                    self.edges[dec].add(g)
                    for (rel, gname), writers in self.registry_writers.items():
                        if dec in writers:
                            for reader in self.fns:
                                if reader.mod.rel == rel and gname in reader.mentions and reader is not dec and not reader.is_import:
                                    self.edges[reader].add(g)

    def class_closure(self, name):
        """the class `name` of lib/ and its (name-resolved) base classes"""
        seen, todo = [], [name]
        while todo:
            c = todo.pop()
            if c in seen or c not in self.classes:
                continue
            seen.append(c)
            for _m, node in self.classes[c]:
                for b in node.bases:
                    bn = b.id if isinstance(b, ast.Name) else (b.attr if isinstance(b, ast.Attribute) else None)
                    if bn:
                        todo.append(bn)
        return seen

    def _mutation_target(self, n):
        """the expression being mutated by node n (or None)"""
        if isinstance(n, ast.Call) and isinstance(n.func, ast.Attribute) and n.func.attr in MUTATORS:
            return n.func.value
        if isinstance(n, (ast.Subscript, ast.Attribute)) and isinstance(n.ctx, (ast.Store, ast.Del)):
            return n.value
        if isinstance(n, ast.AugAssign) and isinstance(n.target, ast.Name):
            return n.target
        if isinstance(n, ast.Call) and isinstance(n.func, ast.Name) and n.func.id in ('setattr', 'delattr') and n.args:
            return n.args[0]
        return None

    def reach(self, roots):
        seen, todo = set(), list(roots)
        while todo:
            f = todo.pop()
            if f in seen:
                continue
            seen.add(f)
            todo += list(self.edges[f])
        return seen

    def find(self, rel, qual):
        for f in self.fns:
            if f.mod.rel == rel and f.qual == qual:
                return f
        return None

    def _paths(self):
        cli = 'lib/cli.py'
        roots = [f for f in (self.find(cli, 'check_file'), self.find(cli, 'check_file_s')) if f]
        self.per_file_roots = list(roots)
        # escaping functions
        self.patch_sites = []      # (fn, node, target text, value node)
        esc = set()
        for f in self.fns:
            for n in f.nodes:
                val = None
                if isinstance(n, ast.Assign):
                    for t in n.targets:
                        if isinstance(t, ast.Attribute):
                            root, attrs = chain_root(t)
                            if isinstance(root, ast.Name) and self.resolve(f, root.id)[0] == 'module':
                                self.patch_sites.append((f, n, f.mod.text(t), n.value))
                                val = n.value
                elif isinstance(n, ast.Call):
                    d = dotted(n.func)
                    if d in ('codecs.register', 'setattr', 'atexit.register', 'signal.signal', 'sys.settrace', 'sys.setprofile', 'warnings.filterwarnings', 'warnings.simplefilter') and n.args:
                        if d == 'setattr':
                            root, _ = chain_root(n.args[0])
                            if not (isinstance(root, ast.Name) and self.resolve(f, root.id)[0] == 'module'):
                                continue
                        self.patch_sites.append((f, n, f.mod.text(n), n.args[-1]))
                        val = n.args[-1]
                    elif isinstance(n.func, ast.Attribute) and n.func.attr in MUTATORS:
                        root, attrs = chain_root(n.func.value)
                        if isinstance(root, ast.Name) and self.resolve(f, root.id)[0] == 'module' and attrs:
                            self.patch_sites.append((f, n, f.mod.text(n), n))
                            val = n
                if val is not None:
                    for x in ast.walk(val):
                        if isinstance(x, ast.Name):
                            for g in self.by_fname.get(x.id, []):
                                esc.add(g)
                            if x.id in self.classes:
                                for g in self.class_methods.get(x.id, []):
                                    esc.add(g)
                    if not f.is_import:
                        for g in self.fns:
                            if g.parent is f:
                                esc.add(g)
        self.escaping = esc
        referenced = set()
        for f in self.fns:
            for g in self.edges[f]:
                referenced.add(g)
        unref = [f for f in self.fns if not f.is_import and f not in referenced and f not in roots]
        main_roots = [f for f in (self.find(cli, 'main'),) if f] + [f for f in self.fns if f.mod.name == '__main__']
        # functions nothing refers to: worst case, except the entry points themselves
        unref = [f for f in unref if f not in main_roots]
        self.unreferenced = unref
        per_file = self.reach(roots + list(esc) + unref)
        check_all = self.find(cli, 'check_all')
        startup = self.reach(main_roots) - per_file
        imp = self.reach([m.import_fn for m in self.mods.values()])
        for f in self.fns:
            if f.is_import:
                f.path = 'import'
            elif f in per_file:
                f.path = 'perFile'
            elif f is check_all:
                f.path = 'driver'
            elif f in startup:
                f.path = 'startup'
            elif f in imp and not getattr(f, 'owner_class', None):
                f.path = 'import'
            else:
                f.path = 'perFile'
        # functions handed to subprocess as preexec_fn run in the forked child only
        for f in self.fns:
            for n in f.nodes:
                if isinstance(n, ast.keyword) and n.arg == 'preexec_fn' and isinstance(n.value, ast.Name):
                    for g in self.fns:
                        if g.parent is f and g.name == n.value.id:
                            g.path = 'child'
        self.per_file = {f for f in self.fns if f.path == 'perFile'}

# ====================================================================================================================
# (a) process-global mutable state
# ====================================================================================================================

def value_mutability(node):
    """'immutable' | 'mutable' | 'opaque' for the value expression of a module/class-level binding"""
    if node is None:
        return 'immutable'
    if isinstance(node, ast.Constant) or isinstance(node, (ast.JoinedStr, ast.Lambda, ast.Compare, ast.BoolOp, ast.UnaryOp)):
        return 'immutable'
    if isinstance(node, ast.Tuple):
        kinds = {value_mutability(e) for e in node.elts}
        return 'mutable' if 'mutable' in kinds else ('opaque' if 'opaque' in kinds else 'immutable')
    if isinstance(node, (ast.List, ast.Dict, ast.Set, ast.ListComp, ast.DictComp, ast.SetComp)):
        return 'mutable'
    if isinstance(node, ast.GeneratorExp):
        return 'opaque'
    if isinstance(node, ast.BinOp):
        kinds = {value_mutability(node.left), value_mutability(node.right)}
        return 'mutable' if 'mutable' in kinds else ('opaque' if 'opaque' in kinds else 'immutable')
    if isinstance(node, ast.IfExp):
        kinds = {value_mutability(node.body), value_mutability(node.orelse)}
        return 'mutable' if 'mutable' in kinds else ('opaque' if 'opaque' in kinds else 'immutable')
    if isinstance(node, ast.Call):
        name = call_name(node)
        if name in MUTABLE_CTORS:
            return 'mutable'
        if name in IMMUTABLE_CALLS:
            return 'immutable'
        return 'opaque'
    if isinstance(node, ast.Attribute):
        # bound method of an immutable (`re.compile(...).findall`), attribute of a module
        return value_mutability(node.value) if isinstance(node.value, ast.Call) else 'opaque'
    if isinstance(node, ast.Name):
        return 'opaque'
    if isinstance(node, ast.Subscript):
        return 'opaque'
    return 'opaque'

IMPURE_MODULES = {'inspect', 'sys', 'os', 'time', 'random', 'datetime', 'tempfile', 'subprocess', 'ipc', 'threading', 'uuid', 'socket',
                  'locale', 'gc', 'traceback', 'io', 'shutil', 'glob', 'signal', 'atexit', 'ctypes', 'getpass', 'pwd'}
IMPURE_BUILTINS = {'open', 'input', 'print', 'id', 'hash', 'globals', 'locals', 'vars', 'exec', 'eval', 'getattr', 'setattr', '__import__'}

class StateInventory:
    def __init__(self, scan):
        self.sc = scan
        self.sites = []           # dicts: key, kind, writers, detail
        self._writers()
        self._module_names()
        self._class_attrs()
        self._defaults()
        self._caches()
        self._patches()
        self.sites.sort(key=lambda s: (s['key'], s['kind'], s['detail']))

    # ---- who writes module-level names and class attributes
    def _writers(self):
        sc = self.sc
        self.gw = {}      # (mod name, global name) -> list of (fn, what)
        self.cw = {}      # attribute name -> list of (fn, what, via)   (mutation of self.X / cls.X / C.X, store to cls.X / C.X)
        for f in sc.fns:
            if f.is_import:
                continue
            for n in f.nodes:
                # rebinding through `global`
                if isinstance(n, ast.Name) and isinstance(n.ctx, (ast.Store, ast.Del)) and n.id in f.globals_decl:
                    self.gw.setdefault((f.mod.name, n.id), []).append((f, 'rebinds (global)'))
                if isinstance(n, (ast.Import, ast.ImportFrom)):
                    for a in n.names:
                        nm = (a.asname or a.name).split('.')[0]
                        if nm in f.globals_decl:
                            self.gw.setdefault((f.mod.name, nm), []).append((f, 'rebinds (global import)'))
                tgt = sc._mutation_target(n)
                if tgt is None:
                    continue
                if isinstance(n, ast.AugAssign) and n.target.id not in f.globals_decl:
                    continue
                root, attrs = chain_root(tgt)
                if not isinstance(root, ast.Name):
                    continue
                what = f.mod.text(n if not isinstance(n, (ast.Subscript, ast.Attribute)) else parent(n) or n, 70)
                kind, info = sc.resolve(f, root.id)
                if kind == 'global' and not attrs:
                    self.gw.setdefault((f.mod.name, root.id), []).append((f, what))
                elif kind == 'global' and attrs:
                    # C.X.append(...) / C.X = ... with C a class of this module; or table.attr mutation
                    if root.id in sc.classes:
                        self.cw.setdefault(attrs[0], []).append((f, what, root.id))
                    else:
                        self.gw.setdefault((f.mod.name, root.id), []).append((f, what))
                elif kind == 'symbol':
                    mod, sym = info
                    self.gw.setdefault((mod, sym), []).append((f, what))
                elif kind == 'module' and attrs and info in sc.by_name:
                    self.gw.setdefault((info, attrs[0]), []).append((f, what))
                elif kind == 'param' and root.id in ('self', 'cls') and attrs and f.params and f.params[0] == root.id:
                    is_store_to_attr = isinstance(n, ast.Attribute) and len(attrs) == 0
                    # a mutation *below* self.X (self.X.append, self.X[k] = v) or a store to cls.X
                    if root.id == 'cls':
                        # tgt is `cls` for `cls.X = v` (attrs == []) — handled below
                        self.cw.setdefault(attrs[0], []).append((f, what, 'cls'))
                    else:
                        self.cw.setdefault(attrs[0], []).append((f, what, 'self'))
                if kind == 'param' and root.id == 'cls' and not attrs and isinstance(n, ast.Attribute) and f.params and f.params[0] == 'cls':
                    self.cw.setdefault(n.attr, []).append((f, what, 'cls'))
                if kind == 'global' and not attrs and isinstance(n, ast.Attribute) and root.id in sc.classes:
                    self.cw.setdefault(n.attr, []).append((f, what, root.id))
                if isinstance(root, ast.Name) and kind == 'builtin' and root.id == 'type':
                    pass

    @staticmethod
    def _fmt_writers(ws):
        seen = []
        for f, what, *_ in ws:
            s = f'{f.qual}[{f.path}]: {what}'
            if s not in seen:
                seen.append(s)
        return '; '.join(seen)

    @staticmethod
    def _writer_class(ws):
        paths = {f.path for f, *_ in ws}
        if not paths:
            return None
        if 'perFile' in paths or 'driver' in paths:
            return 'perFile'
        if 'startup' in paths:
            return 'startup'
        return 'import'

    def _kind_for(self, mut, ws):
        wc = self._writer_class(ws)
        if wc == 'perFile':
            return 'perFileMutated'
        if wc == 'startup':
            return 'startupInit'
        if wc == 'import':
            return 'importRegistry'
        return 'constant' if mut == 'immutable' else 'importTable'

    def _module_names(self):
        sc = self.sc
        for m in sc.mods.values():
            bindings = {}
            for n in m.import_fn.nodes:
                if isinstance(n, (ast.Assign, ast.AnnAssign, ast.AugAssign)) and enclosing(n, (ast.ClassDef,)) is None:
                    targets = n.targets if isinstance(n, ast.Assign) else [n.target]
                    for t in targets:
                        for x in ast.walk(t):
                            if isinstance(x, ast.Name) and isinstance(x.ctx, ast.Store):
                                v = n.value
                                if isinstance(t, (ast.Tuple, ast.List)):
                                    v = ast.Name(id='<destructured>', ctx=ast.Load()) if not isinstance(n.value, (ast.Tuple, ast.List)) else None
                                    if v is None:
                                        try:
                                            v = n.value.elts[t.elts.index(x)]
                                        except (ValueError, IndexError):
                                            v = ast.Name(id='<destructured>', ctx=ast.Load())
                                bindings.setdefault(x.id, []).append((n, v))
                        if isinstance(t, ast.Attribute):
                            # attribute store at import time on something of this module (parse_jobs.__name__ = …)
                            root, attrs = chain_root(t)
                            if isinstance(root, ast.Name) and sc.resolve(m.import_fn, root.id)[0] != 'module':
                                self.sites.append({'key': f'{m.rel}:{m.text(t)}', 'kind': 'constant', 'writers': '',
                                                   'detail': 'attribute store at import time: ' + m.text(n, 70)})
                elif isinstance(n, (ast.For, ast.With)) and enclosing(n, (ast.ClassDef,)) is None:
                    tg = [n.target] if isinstance(n, ast.For) else [i.optional_vars for i in n.items if i.optional_vars is not None]
                    for t in tg:
                        for x in ast.walk(t):
                            if isinstance(x, ast.Name):
                                bindings.setdefault(x.id, []).append((n, ast.Name(id='<loop>', ctx=ast.Load())))
            for name, bs in sorted(bindings.items()):
                muts = {value_mutability(v) for _n, v in bs}
                mut = 'mutable' if 'mutable' in muts else ('opaque' if 'opaque' in muts else 'immutable')
                ws = self.gw.get((m.name, name), [])
                kind = self._kind_for(mut, ws)
                self.sites.append({'key': f'{m.rel}:{name}', 'kind': kind, 'writers': self._fmt_writers(ws),
                                   'detail': f'module-level {mut}: ' + ' | '.join(m.text(n, 60) for n, _v in bs[:2])})
            # writers of names that are not module-level bindings of that module (created by the write itself)
        for (modname, name), ws in sorted(self.gw.items()):
            m = sc.by_name.get(modname)
            if m is None:
                continue
            if any(s['key'] == f'{m.rel}:{name}' for s in self.sites):
                continue
            if name in m.globals and not any(isinstance(n, ast.Name) and n.id == name and isinstance(n.ctx, ast.Store) for n in m.import_fn.nodes):
                # a function or class object of the module used as a namespace
                pass
            kind = self._kind_for('mutable', ws)
            self.sites.append({'key': f'{m.rel}:{name}', 'kind': kind, 'writers': self._fmt_writers(ws), 'detail': 'written from a function'})

    def _class_attrs(self):
        sc = self.sc
        for cname, defs in sorted(sc.classes.items()):
            for m, cnode in defs:
                for st in cnode.body:
                    if isinstance(st, (ast.Assign, ast.AnnAssign)):
                        targets = st.targets if isinstance(st, ast.Assign) else [st.target]
                        for t in targets:
                            if not isinstance(t, ast.Name):
                                continue
                            mut = value_mutability(st.value)
                            ws = []
                            for f, what, via in self.cw.get(t.id, []):
                                if via == 'self':
                                    # mutation below self.X: counts when X is not (re)bound per instance in that class family
                                    if mut == 'immutable':
                                        continue
                                    if self._instance_bound(cname, t.id):
                                        continue
                                ws.append((f, what))
                            kind = self._kind_for(mut, ws)
                            fn = sc.fn_of(cnode)
                            if fn is not None and not fn.is_import:
                                # class defined inside a function: state of that call
                                if kind == 'perFileMutated' and fn.path != 'perFile':
                                    kind = 'startupInit'
                            self.sites.append({'key': f'{m.rel}:{cname}.{t.id}', 'kind': kind, 'writers': self._fmt_writers(ws),
                                               'detail': f'class-level {mut}: ' + m.text(st, 60)})

    def _instance_bound(self, cname, attr):
        """is `self.<attr> = …` executed in __init__ of the class (or a subclass / base by name)?"""
        sc = self.sc
        family = set(sc.class_closure(cname))
        for c in list(sc.classes):
            if cname in sc.class_closure(c):
                family.add(c)
        for f in sc.fns:
            if getattr(f, 'owner_class', None) in family and f.name == '__init__':
                for n in f.nodes:
                    if isinstance(n, ast.Attribute) and isinstance(n.ctx, ast.Store) and n.attr == attr and isinstance(n.value, ast.Name) and n.value.id == 'self':
                        return True
        return False

    def _defaults(self):
        sc = self.sc
        for f in sc.fns:
            if f.is_import or isinstance(f.node, ast.Lambda):
                continue
            a = f.node.args
            pos = a.posonlyargs + a.args
            pairs = list(zip(pos[len(pos) - len(a.defaults):], a.defaults)) + [(k, d) for k, d in zip(a.kwonlyargs, a.kw_defaults) if d is not None]
            for arg, d in pairs:
                if value_mutability(d) != 'mutable':
                    continue
                written = []
                for n in f.nodes:
                    tgt = sc._mutation_target(n)
                    if tgt is not None:
                        root, _ = chain_root(tgt)
                        if isinstance(root, ast.Name) and root.id == arg.arg:
                            written.append(f.mod.text(n, 60))
                    if isinstance(n, (ast.Return, ast.Yield)) and n.value is not None and any(isinstance(x, ast.Name) and x.id == arg.arg for x in ast.walk(n.value)):
                        written.append('escapes: ' + f.mod.text(n, 60))
                    if isinstance(n, ast.Assign) and any(isinstance(t, ast.Attribute) for t in n.targets) and isinstance(n.value, ast.Name) and n.value.id == arg.arg:
                        written.append('stored: ' + f.mod.text(n, 60))
                self.sites.append({'key': f'{f.key}:{arg.arg}=', 'kind': 'mutableDefaultWritten' if written else 'mutableDefaultUnwritten',
                                   'writers': '; '.join(written), 'detail': 'mutable default argument ' + f.mod.text(d, 40)})

    # ---- caches
    def _is_cache_decorator(self, d):
        dn = d.func if isinstance(d, ast.Call) else d
        name = dotted(dn) or ''
        return name.split('.')[-1] in ('lru_cache', 'cache', 'cached_property', 'memoize', 'memoized', 'memo')

    def impurities(self, f, depth=2, seen=None):
        """reasons why the value of function f is NOT determined by its arguments"""
        sc = self.sc
        seen = seen or set()
        if f in seen:
            return []
        seen.add(f)
        why = []
        if f.globals_decl:
            why.append('global/nonlocal ' + ','.join(sorted(f.globals_decl)))
        if f.params and f.params[0] in ('self', 'cls') and getattr(f, 'owner_class', None):
            why.append('method: the receiver is part of the key by identity/hash only')
        scopes = [f] + [g for g in sc.fns if g.parent is f]
        for g in scopes:
            for n in g.nodes:
                if isinstance(n, ast.Name) and isinstance(n.ctx, ast.Load):
                    kind, info = sc.resolve(g, n.id)
                    if kind == 'module':
                        top = info.split('.')[0]
                        if top in IMPURE_MODULES or n.id in IMPURE_MODULES:
                            # allowed: os.path pure helpers
                            par = parent(n)
                            d = dotted(par) if isinstance(par, ast.Attribute) else None
                            gp = parent(par) if par is not None else None
                            full = dotted(gp) if isinstance(gp, ast.Attribute) else d
                            if full and full.startswith(('os.path.join', 'os.path.normpath', 'os.path.basename', 'os.path.dirname', 'os.path.splitext', 'os.sep')):
                                continue
                            why.append(f'reads {full or n.id}')
                    elif kind == 'builtin' and n.id in IMPURE_BUILTINS:
                        why.append(f'calls {n.id}()')
                    elif kind == 'global':
                        key = f'{g.mod.rel}:{n.id}'
                        st = self._site_kind.get(key)
                        if st in ('perFileMutated', 'startupInit', 'unknown'):
                            why.append(f'reads mutable global {n.id} ({st})')
                        if depth > 0:
                            for h in sc.by_fname.get(n.id, []):
                                if h.mod is g.mod and not h.is_import and h.parent is None:
                                    why += [f'{h.name}: {w}' for w in self.impurities(h, depth - 1, seen)]
                    elif kind == 'symbol':
                        mod, sym = info
                        if mod.split('.')[0] in IMPURE_MODULES:
                            why.append(f'reads {mod}.{sym}')
        out = []
        for w in why:
            if w not in out:
                out.append(w)
        return out

    def _caches(self):
        sc = self.sc
        self._site_kind = {s['key']: s['kind'] for s in self.sites}
        for f in sc.fns:
            decs = [d for d in getattr(f.node, 'decorator_list', []) if self._is_cache_decorator(d)]
            if not decs:
                continue
            patches = [t for (g, _n, t, _v) in sc.patch_sites if g is f]
            nparams = len(f.params)
            why = self.impurities(f, depth=0 if (nparams == 0 and patches) else 2)
            if any((dotted(d.func if isinstance(d, ast.Call) else d) or '').endswith('cached_property') for d in decs):
                # stored in the instance __dict__: state of that object, like any attribute (the mutation inventory has the instance)
                why = [w for w in why if not w.startswith('method:')]
            if nparams == 0 and patches and not why:
                kind = 'onceInstaller'
                detail = 'zero-argument cached installer: ' + '; '.join(patches)
            elif why:
                kind = 'impureCache'
                detail = 'value not determined by the key: ' + '; '.join(why[:4])
            else:
                kind = 'pureCache'
                detail = f'{f.mod.text(decs[0], 50)} on a function of {nparams} argument(s) reading only its arguments, constants and import tables'
            self.sites.append({'key': f'{f.key}:@cache', 'kind': kind, 'writers': '', 'detail': detail, 'file': f.mod.rel, 'path': f.path,
                               'lineno': f.node.body[0].lineno if isinstance(f.node.body, list) else f.node.lineno})
        # hand-rolled memo tables are ordinary module-level dicts written from functions: covered by _module_names

    # ---- monkey patches
    def _patches(self):
        sc = self.sc
        done = set()
        for f, n, text, val in sc.patch_sites:
            key = f'{f.key}:{text}'
            if key in done:
                continue
            done.add(key)
            if f.path in ('import', 'startup'):
                kind = 'patchAtStartup'
            elif self._scoped(f, n):
                kind = 'scopedRedirect'
            else:
                kind = 'patchPerFile'
            self.sites.append({'key': key, 'kind': kind, 'writers': f'{f.qual}[{f.path}]', 'detail': 'write into a foreign module: ' + f.mod.text(n, 70),
                               'file': f.mod.rel, 'lineno': n.lineno, 'path': f.path})

    def _scoped(self, f, n):
        """`orig = M.x … M.x = new … finally: M.x = orig` inside one function"""
        if not isinstance(n, ast.Assign):
            return False
        tgt_texts = {f.mod.text(t) for t in n.targets if isinstance(t, ast.Attribute)}
        saved = set()
        for x in f.nodes:
            if isinstance(x, ast.Assign) and isinstance(x.value, ast.Attribute) and f.mod.text(x.value) in tgt_texts:
                for t in x.targets:
                    for y in ast.walk(t):
                        if isinstance(y, ast.Name):
                            saved.add(y.id)
        if not saved:
            return False
        for x in f.nodes:
            if isinstance(x, ast.Try) and x.finalbody:
                for st in x.finalbody:
                    if isinstance(st, ast.Assign) and isinstance(st.value, ast.Name) and st.value.id in saved and \
                            any(f.mod.text(t) in tgt_texts for t in st.targets):
                        return True
        return False

# ====================================================================================================================
# (b) iteration over unordered collections
# ====================================================================================================================

SET, DICT, DICTSET, KEYS, ITEMS, VALUES = 'set', 'dict', 'dictFromSet', 'keys', 'items', 'values'
SETOPS = (ast.BitOr, ast.BitAnd, ast.Sub, ast.BitXor)
ORDER_FREE_FUNCS = {'min', 'max', 'len', 'sum', 'any', 'all', 'bool', 'set', 'frozenset', 'isinstance', 'Counter', 'type', 'id'}
VIEW_FUNCS = {'list', 'tuple', 'iter', 'enumerate', 'reversed', 'map', 'filter', 'zip', 'chain', 'islice', 'dict'}
ORDER_FREE_DOTTED = {'difflib.get_close_matches', 'heapq.nsmallest', 'heapq.nlargest', 'collections.Counter'}
SET_RESULT_METHODS = {'union', 'intersection', 'difference', 'symmetric_difference', 'copy'}
ORDER_FREE_METHODS = {'issubset', 'issuperset', 'isdisjoint', 'add', 'update', 'discard', 'remove', 'clear', 'intersection_update',
                      'difference_update', 'symmetric_difference_update', '__contains__', 'get', 'setdefault', '__len__'} | SET_RESULT_METHODS

class IterInventory:
    def __init__(self, scan):
        self.sc = scan
        self.set_attrs = {}          # attribute name -> how
        self.param_types = {}        # (fn, param) -> (type, how)
        self.fn_returns = {}         # fn -> type | [types]
        self.loop_built = {}         # (fn, name) -> True: dict filled by subscript stores inside a for-loop over a set
        self.ctor_arg_sets = {}      # positional index -> how: some lib class is constructed with a set at that position (exception arguments)
        self.sites = []
        for _round in range(4):
            before = (len(self.set_attrs), len(self.param_types), len(self.loop_built), len(self.ctor_arg_sets), repr(sorted((f.key, str(v)) for f, v in self.fn_returns.items())))
            self._memo = {}
            self._globals_pass()
            after = (len(self.set_attrs), len(self.param_types), len(self.loop_built), len(self.ctor_arg_sets), repr(sorted((f.key, str(v)) for f, v in self.fn_returns.items())))
            if before == after:
                break
        self._memo = {}
        self._sites_pass()
        self.sites.sort(key=lambda s: (s['key'], s['consumer'], s['verdict']))

    # ------------------------------------------------------------------ typing
    def bindings(self, f, name):
        """value expressions bound to `name` in scope f: list of (value node | ('elt', call node, index) | None)"""
        res = []
        for n in f.nodes:
            if isinstance(n, ast.Assign):
                for t in n.targets:
                    if isinstance(t, ast.Name) and t.id == name:
                        res.append(n.value)
                    elif isinstance(t, (ast.Tuple, ast.List)):
                        for i, x in enumerate(t.elts):
                            if isinstance(x, ast.Name) and x.id == name:
                                if isinstance(n.value, (ast.Tuple, ast.List)) and i < len(n.value.elts):
                                    res.append(n.value.elts[i])
                                elif len(t.elts) > 1:
                                    res.append(('elt', n.value, i))
                                else:
                                    res.append(None)
            elif isinstance(n, ast.AnnAssign) and isinstance(n.target, ast.Name) and n.target.id == name and n.value is not None:
                res.append(n.value)
            elif isinstance(n, ast.AugAssign) and isinstance(n.target, ast.Name) and n.target.id == name:
                if isinstance(n.op, SETOPS):
                    res.append(n.value)
            elif isinstance(n, ast.NamedExpr) and n.target.id == name:
                res.append(n.value)
        return res

    def name_type(self, f, name, stack=()):
        sc = self.sc
        kind, info = sc.resolve(f, name)
        if kind in ('local', 'param'):
            scope = f
        elif kind == 'closure':
            scope = info
        elif kind == 'global':
            scope = info.import_fn
        elif kind == 'symbol':
            m = sc.by_name.get(info[0])
            if m is None:
                return None
            scope, name = m.import_fn, info[1]
        else:
            return None
        key = (scope, name)
        if key in self._memo:
            return self._memo[key]
        if key in stack:
            return None
        found = []
        if (scope, name) in self.param_types:
            found.append(self.param_types[(scope, name)])
        if self.loop_built.get((scope, name)):
            found.append((DICTSET, 'dict filled inside a for-loop over a set'))
        for b in self.bindings(scope, name):
            if b is None:
                continue
            if isinstance(b, tuple):
                _tag, call, idx = b
                t = self.call_return(scope, call, stack + (key,))
                if isinstance(t, list) and idx < len(t) and t[idx]:
                    found.append(t[idx])
                continue
            t = self.ty(scope, b, stack + (key,))
            if t:
                found.append(t)
        res = None
        for want in (SET, DICTSET, DICT):
            for t in found:
                if t[0] == want:
                    res = t
                    break
            if res:
                break
        self._memo[key] = res
        return res

    def call_return(self, f, call, stack=()):
        """return type of a call to a lib function (resolved by name): type | [types of a returned tuple] | None"""
        if not isinstance(call, ast.Call):
            return None
        name = call_name(call)
        res = None
        for g in self.sc.by_fname.get(name, []):
            r = self.fn_returns.get(g)
            if r:
                res = r
        return res

    def ty(self, f, e, stack=()):
        """(type, how) or None"""
        if isinstance(e, (ast.Set, ast.SetComp)):
            return (SET, 'set literal' if isinstance(e, ast.Set) else 'set comprehension')
        if isinstance(e, ast.Dict):
            return (DICT, 'dict literal')
        if isinstance(e, ast.DictComp):
            it = self.ty(f, e.generators[0].iter, stack)
            if it and it[0] in (SET, DICTSET):
                return (DICTSET, 'dict comprehension over a set')
            return (DICT, 'dict comprehension')
        if isinstance(e, ast.Call):
            name = call_name(e)
            if isinstance(e.func, ast.Name) and name in ('set', 'frozenset'):
                return (SET, f'{name}(...) call')
            if isinstance(e.func, ast.Attribute):
                recv = self.ty(f, e.func.value, stack)
                if name in SET_RESULT_METHODS and recv and recv[0] == SET:
                    return (SET, f'.{name}() of a set')
                if name in ('keys', 'items', 'values') and not e.args:
                    base = DICTSET if (recv and recv[0] == DICTSET) else DICT
                    return ({'keys': KEYS, 'items': ITEMS, 'values': VALUES}[name], base)
                if name == 'copy' and recv:
                    return recv
            if name in ('dict', 'defaultdict', 'Counter', 'OrderedDict', 'vars'):
                if e.args:
                    a = self.ty(f, e.args[0], stack)
                    if a and a[0] in (SET, DICTSET) and name in ('dict', 'OrderedDict', 'Counter'):
                        return (DICTSET, f'{name}(<set>)')
                return (DICT, f'{name}(...) call')
            r = self.call_return(f, e, stack)
            if r and not isinstance(r, list):
                return r
            return None
        if isinstance(e, ast.BinOp) and isinstance(e.op, SETOPS):
            l, r = self.ty(f, e.left, stack), self.ty(f, e.right, stack)
            for t in (l, r):
                if t and t[0] in (SET, KEYS, ITEMS):
                    return (SET, 'set operator on ' + ('a dict view' if t[0] in (KEYS, ITEMS) else 'a set'))
            return None
        if isinstance(e, ast.IfExp):
            return self.ty(f, e.body, stack) or self.ty(f, e.orelse, stack)
        if isinstance(e, ast.Name):
            return self.name_type(f, e.id, stack)
        if isinstance(e, ast.Attribute):
            for (modname, attr), how in self.set_attrs.items():
                if attr == e.attr and (modname == f.mod.name or modname in f.mod.aliases.values() or modname in [x[0] for x in f.mod.symbols.values()]):
                    return (SET, 'attribute assigned a set: ' + how)
            root = e.value
            if isinstance(root, ast.Name):
                kind, info = self.sc.resolve(f, root.id)
                if kind == 'module' and info in self.sc.by_name:
                    m = self.sc.by_name[info]
                    if e.attr in m.globals:
                        return self.name_type(m.import_fn, e.attr, stack)
            return None
        if isinstance(e, ast.NamedExpr):
            return self.ty(f, e.value, stack)
        if isinstance(e, ast.Subscript) and isinstance(e.value, ast.Attribute) and e.value.attr == 'args' and \
                isinstance(e.slice, ast.Constant) and e.slice.value in self.ctor_arg_sets:
            return (SET, 'exception argument: ' + self.ctor_arg_sets[e.slice.value])
        return None

    def _globals_pass(self):
        sc = self.sc
        for f in sc.fns:
            for n in f.nodes:
                # attributes holding sets
                if isinstance(n, ast.Assign):
                    t = self.ty(f, n.value)
                    if t and t[0] == SET:
                        for tg in n.targets:
                            if isinstance(tg, ast.Attribute):
                                self.set_attrs.setdefault((f.mod.name, tg.attr), f'{f.key}: {f.mod.text(n, 60)}')
                            elif isinstance(tg, ast.Name) and isinstance(parent(n), ast.ClassDef):
                                self.set_attrs.setdefault((f.mod.name, tg.id), f'{f.mod.rel}:{parent(n).name}: {f.mod.text(n, 60)}')
                # dicts filled inside for-loops over sets
                if isinstance(n, ast.For):
                    t = self.ty(f, n.iter)
                    if t and t[0] in (SET, DICTSET):
                        for x in ast.walk(n):
                            if isinstance(x, ast.Subscript) and isinstance(x.ctx, ast.Store) and isinstance(x.value, ast.Name):
                                kind, info = sc.resolve(f, x.value.id)
                                scope = f if kind in ('local', 'param') else (info if kind == 'closure' else (info.import_fn if kind == 'global' else None))
                                if scope is not None:
                                    self.loop_built[(scope, x.value.id)] = True
                # parameters fed with sets
                if isinstance(n, ast.Call):
                    name = call_name(n)
                    if name in sc.classes and not any(g.name == '__init__' for g in sc.class_methods.get(name, [])):
                        for i, a in enumerate(n.args):
                            t = self.ty(f, a)
                            if t and t[0] == SET:
                                self.ctor_arg_sets.setdefault(i, f'{name}(…) in {f.qual} gets a set as argument {i}')
                    targets = [g for g in sc.by_fname.get(name, []) if not g.is_import]
                    if name in sc.classes:
                        targets += [g for g in sc.class_methods.get(name, []) if g.name == '__init__']
                    if not targets:
                        continue
                    for i, a in enumerate(n.args):
                        t = self.ty(f, a)
                        if t and t[0] in (SET, DICTSET):
                            for g in targets:
                                ps = g.params[1:] if (getattr(g, 'owner_class', None) and g.params and g.params[0] in ('self', 'cls') and
                                                      not any(isinstance(d, ast.Name) and d.id == 'staticmethod' for d in getattr(g.node, 'decorator_list', []))) else g.params
                                if i < len(ps):
                                    self.param_types.setdefault((g, ps[i]), (t[0], f'parameter fed a set by {f.qual}'))
                    for k in n.keywords:
                        if k.arg:
                            t = self.ty(f, k.value)
                            if t and t[0] in (SET, DICTSET):
                                for g in targets:
                                    if k.arg in g.params:
                                        self.param_types.setdefault((g, k.arg), (t[0], f'parameter fed a set by {f.qual}'))
            # return types
            if not f.is_import:
                rets = [n.value for n in f.nodes if isinstance(n, ast.Return) and n.value is not None]
                res = None
                for r in rets:
                    if isinstance(r, ast.Tuple):
                        ts = [self.ty(f, x) for x in r.elts]
                        if any(ts):
                            res = ts
                    else:
                        t = self.ty(f, r)
                        if t and t[0] in (SET, DICTSET):
                            res = t
                if res:
                    self.fn_returns[f] = res

    # ------------------------------------------------------------------ consumers
    def _sites_pass(self):
        for f in self.sc.fns:
            for n in f.nodes:
                if not isinstance(n, ast.expr):
                    continue
                if isinstance(n, (ast.Name, ast.Attribute, ast.Subscript, ast.Starred, ast.Tuple, ast.List)) and not isinstance(n.ctx, ast.Load):
                    continue
                t = self.ty(f, n)
                if not t:
                    continue
                if t[0] in (SET,):
                    v = self.consume(f, n, viewed=False)
                    if v is not None:
                        self._add(f, n, t, v)
                elif t[0] in (KEYS, ITEMS, VALUES) or (t[0] in (DICT, DICTSET) and self._iter_position(n)):
                    base = t[1] if t[0] in (KEYS, ITEMS, VALUES) else t[0]
                    if t[0] in (KEYS, ITEMS) and isinstance(parent(n), ast.BinOp) and isinstance(parent(n).op, SETOPS):
                        continue        # part of a set expression: that one is the site
                    v = self.consume(f, n, viewed=True)
                    if v is None:
                        continue
                    verdict, consumer = v
                    if verdict == 'unsorted' and base != DICTSET:
                        verdict = 'insertionOrdered'
                    elif verdict == 'unsorted':
                        consumer += ' (the dict was built by iterating a set)'
                    self._add(f, n, (t[0], 'dict built from a set' if base == DICTSET else 'dict / dict view'), (verdict, consumer))

    @staticmethod
    def _iter_position(n):
        p = parent(n)
        return (isinstance(p, ast.For) and p.iter is n) or (isinstance(p, ast.comprehension) and p.iter is n) or \
               (isinstance(p, ast.Call) and n in p.args and call_name(p) in (VIEW_FUNCS | {'sorted', 'join', 'next'}))

    def _add(self, f, n, t, v):
        verdict, consumer = v
        self.sites.append({'key': f'{f.key}:{f.mod.text(n, 70)}', 'source': t[1] if isinstance(t[1], str) else str(t[1]), 'consumer': consumer,
                           'verdict': verdict, 'lineno': stmt_line(n), 'file': f.mod.rel, 'path': f.path})

    def consume(self, f, e, viewed):
        """(verdict, consumer text) or None when the expression is merely bound / stored / combined into another set"""
        m = f.mod
        p = parent(e)
        U = lambda what: ('unsorted', what)
        if isinstance(p, ast.Starred):
            return self.consume(f, p, viewed)
        if isinstance(p, ast.keyword):
            call = parent(p)
            return self._call_arg(f, call, e, viewed)
        if isinstance(p, ast.comprehension) and p.iter is e:
            comp = parent(p)
            if isinstance(comp, ast.SetComp):
                return None
            if isinstance(comp, ast.DictComp):
                return self._dict_from_set(f, comp)
            return self.consume(f, comp, True)
        if isinstance(p, ast.Call):
            if p.func is e:
                return None
            return self._call_arg(f, p, e, viewed)
        if isinstance(p, ast.Attribute) and p.value is e:
            gp = parent(p)
            if isinstance(gp, ast.Call) and gp.func is p:
                if p.attr == 'pop' and not gp.args:
                    if self._len_one_guard(f, e, gp):
                        return ('orderFree', 'pop() under a len(...) == 1 guard')
                    return U('set.pop(): arbitrary element')
                if p.attr in ORDER_FREE_METHODS:
                    return ('orderFree', f'.{p.attr}()') if p.attr in ('issubset', 'issuperset', 'isdisjoint') else None
                if p.attr in ('keys', 'items', 'values', 'join'):
                    return None
                return U(f'method .{p.attr}() of a set') if not viewed else None
            return None
        if isinstance(p, ast.Compare):
            return ('orderFree', 'membership / comparison')
        if isinstance(p, ast.BoolOp) or (isinstance(p, ast.UnaryOp) and isinstance(p.op, ast.Not)):
            return ('orderFree', 'truthiness')
        if isinstance(p, (ast.If, ast.While, ast.IfExp, ast.Assert)) and p.test is e:
            return ('orderFree', 'truthiness')
        if isinstance(p, ast.IfExp):
            return self.consume(f, p, viewed)
        if isinstance(p, ast.BinOp):
            if isinstance(p.op, SETOPS) and not viewed:
                return None
            return U('operand of ' + type(p.op).__name__ + ' with a sequence')
        if isinstance(p, ast.AugAssign) and p.value is e:
            if isinstance(p.op, SETOPS) and not viewed:
                return None
            tt = self.ty(f, p.target)
            if tt and tt[0] == SET:
                return None
            return U('sequence ' + m.text(p.target, 30) + ' extended in hash order')
        if isinstance(p, (ast.Assign, ast.AnnAssign, ast.NamedExpr)) and getattr(p, 'value', None) is e:
            targets = p.targets if isinstance(p, ast.Assign) else [p.target]
            for t in targets:
                if isinstance(t, (ast.Tuple, ast.List)):
                    if len(t.elts) == 1 and not isinstance(t.elts[0], ast.Starred):
                        return ('orderFree', 'single-target unpacking [x] = s')
                    return U('multi-target unpacking')
            if viewed:
                return U('hash-ordered sequence bound to ' + m.text(targets[0], 30))
            return None
        if isinstance(p, ast.For) and p.iter is e:
            if self._commutative(p.body) and not p.orelse:
                return ('commutativeLoop', 'for-loop whose body only asserts / adds to sets / stores d[k] = v')
            return U('for-loop with order-sensitive body')
        if isinstance(p, ast.Return) or isinstance(p, ast.Yield):
            return U('hash-ordered sequence returned') if viewed else None
        if isinstance(p, ast.YieldFrom):
            return U('yield from a set')
        if isinstance(p, ast.FormattedValue):
            return U('formatted into a string')
        if isinstance(p, (ast.Tuple, ast.List, ast.Dict, ast.Set, ast.ListComp, ast.SetComp, ast.DictComp, ast.GeneratorExp)):
            return U('hash-ordered sequence stored') if viewed else None
        if isinstance(p, ast.Subscript):
            if p.value is e:
                return U('indexing a hash-ordered sequence') if viewed else None
            return None
        if isinstance(p, (ast.Expr, ast.Await)):
            return None
        if isinstance(p, ast.withitem):
            return None
        return U('unrecognised context ' + type(p).__name__)

    def _call_arg(self, f, call, e, viewed):
        m = f.mod
        U = lambda what: ('unsorted', what)
        d = dotted(call.func) or ''
        base = call_name(call) or ''
        if base == 'sorted':
            key = [k.value for k in call.keywords if k.arg == 'key']
            if key and not self._injective_key(f, key[0]):
                # Python's sort is stable: elements with equal keys keep their (hash) order
                return U('sorted(..., key=' + m.text(key[0], 30) + '): the key may tie, ties stay in hash order')
            return ('sorted', 'sorted(...)' if not key else 'sorted(..., key=<injective: contains the element itself>)')
        if d in ORDER_FREE_DOTTED or (isinstance(call.func, ast.Name) and base in ORDER_FREE_FUNCS):
            return ('orderFree', f'{d or base}(...)')
        if base == 'join':
            return self._join(f, call)
        if base == 'next':
            return U('next(iter(...)): arbitrary element')
        if isinstance(call.func, ast.Name) and base in VIEW_FUNCS or d in ('itertools.chain', 'itertools.islice'):
            return self.consume(f, call, True)
        if isinstance(call.func, ast.Attribute):
            recv = self.ty(f, call.func.value)
            if recv and recv[0] == SET and base in ORDER_FREE_METHODS:
                return None if not viewed or base in ('update', 'union', 'intersection', 'difference', 'issubset', 'issuperset', 'isdisjoint',
                                                      'intersection_update', 'difference_update', 'symmetric_difference', 'symmetric_difference_update') else U(f'.{base}()')
            if base in ('extend', 'append', 'insert', 'write', 'writelines', 'format', 'tag'):
                return U(f'passed to .{base}(...)')
        if base in ('print', 'str', 'repr', 'format'):
            return U(f'{base}() of a set: hash-ordered text')
        targets = [g for g in self.sc.by_fname.get(base, []) if not g.is_import]
        if base in self.sc.classes:
            targets = [g for g in self.sc.class_methods.get(base, []) if g.name == '__init__'] or targets
        if base in self.sc.classes and not viewed:
            return None        # stored in the new object (exception arguments, records)
        if targets and not viewed:
            return None        # the parameter is typed in the callee; its uses there are sites of their own
        if targets and viewed:
            return U(f'hash-ordered sequence passed to {base}(...)')
        return U(f'passed to {d or base or "a call"}(...) — not known to be order-free')

    def _injective_key(self, f, key):
        """the key function returns a tuple (or the bare value) that contains its argument itself"""
        fn = None
        if isinstance(key, ast.Lambda):
            params = [a.arg for a in key.args.args]
            rets = [key.body]
        elif isinstance(key, ast.Name):
            cands = [g for g in self.sc.by_fname.get(key.id, []) if g.mod is f.mod and (g.parent is f or g.parent is None)]
            if len(cands) != 1:
                return False
            fn = cands[0]
            params = fn.params
            rets = [n.value for n in fn.nodes if isinstance(n, ast.Return)]
        else:
            return False
        if len(params) != 1 or not rets:
            return False
        for r in rets:
            ok = (isinstance(r, ast.Name) and r.id == params[0]) or \
                 (isinstance(r, ast.Tuple) and any(isinstance(e, ast.Name) and e.id == params[0] for e in r.elts))
            if not ok:
                return False
        return True

    def _join(self, f, call):
        """str.join(sep, <set>) / sep.join(<set>): hash-ordered text, unless it is a regex alternation used for match existence only"""
        U = ('unsorted', 'joined into text in hash order')
        p = parent(call)
        if not (isinstance(p, ast.Call) and (dotted(p.func) or '').endswith('compile') and call in p.args):
            return U
        a = parent(p)
        sep = call.args[0] if (isinstance(call.func, ast.Attribute) and isinstance(call.func.value, ast.Name) and call.func.value.id == 'str' and call.args) else \
              (call.func.value if isinstance(call.func, ast.Attribute) else None)
        if not (isinstance(sep, ast.Constant) and sep.value == '|'):
            return U
        if not (isinstance(a, ast.Assign) and len(a.targets) == 1 and isinstance(a.targets[0], ast.Name)):
            return U
        rname = a.targets[0].id
        for n in f.nodes:
            if isinstance(n, ast.Name) and n.id == rname and isinstance(n.ctx, ast.Load):
                at = parent(n)
                c = parent(at) if isinstance(at, ast.Attribute) else None
                if not (isinstance(at, ast.Attribute) and at.attr in ('search', 'match', 'fullmatch') and isinstance(c, ast.Call) and c.func is at):
                    return ('unsorted', f'regex alternation in hash order: {rname} used beyond search/match')
                if not self._existence_only(f, c):
                    return ('unsorted', f'regex alternation in hash order: the match object of {rname} is inspected')
        return ('existenceOnly', "'|'.join(...) -> re.compile -> .search(...) is None")

    def _existence_only(self, f, call):
        p = parent(call)
        if isinstance(p, ast.Compare) or isinstance(p, ast.BoolOp) or (isinstance(p, ast.UnaryOp) and isinstance(p.op, ast.Not)):
            return True
        if isinstance(p, (ast.If, ast.While, ast.IfExp, ast.Assert)) and p.test is call:
            return True
        if isinstance(p, ast.Assign) and len(p.targets) == 1 and isinstance(p.targets[0], ast.Name):
            mname = p.targets[0].id
            for n in f.nodes:
                if isinstance(n, ast.Name) and n.id == mname and isinstance(n.ctx, ast.Load):
                    q = parent(n)
                    ok = isinstance(q, (ast.Compare, ast.BoolOp)) or (isinstance(q, ast.UnaryOp) and isinstance(q.op, ast.Not)) or \
                         (isinstance(q, (ast.If, ast.While, ast.IfExp, ast.Assert)) and q.test is n)
                    if not ok:
                        return False
            return True
        return False

    def _dict_from_set(self, f, comp):
        p = parent(comp)
        if isinstance(p, ast.Assign) and len(p.targets) == 1 and isinstance(p.targets[0], ast.Name):
            dname = p.targets[0].id
            for n in f.nodes:
                if isinstance(n, ast.Name) and n.id == dname and isinstance(n.ctx, ast.Load):
                    q = parent(n)
                    ok = (isinstance(q, ast.Attribute) and q.attr in ('get', '__getitem__', '__contains__') and isinstance(parent(q), ast.Call)) or \
                         (isinstance(q, ast.Subscript) and q.value is n and isinstance(q.ctx, ast.Load)) or \
                         (isinstance(q, ast.Compare) and n in q.comparators) or \
                         (isinstance(q, ast.Call) and call_name(q) == 'len')
                    if not ok:
                        return ('unsorted', f'dict {dname} built from a set is used beyond lookups: ' + f.mod.text(q, 50))
            return ('lookupOnly', f'dict {dname} built from the set, used by .get()/[]/in only (needs distinct keys: ' + f.mod.text(comp.key, 40) + ')')
        return ('unsorted', 'dict built from a set escapes')

    def _len_one_guard(self, f, e, node):
        text = f.mod.text(e)
        n = parent(node)
        while n is not None and not isinstance(n, FUNC + (ast.Module,)):
            if isinstance(n, ast.If):
                for c in ast.walk(n.test):
                    if isinstance(c, ast.Compare) and isinstance(c.left, ast.Call) and call_name(c.left) == 'len' and c.left.args and \
                            f.mod.text(c.left.args[0]) == text and len(c.ops) == 1 and isinstance(c.ops[0], ast.Eq) and \
                            isinstance(c.comparators[0], ast.Constant) and c.comparators[0].value == 1:
                        return True
            n = parent(n)
        return False

    def _commutative(self, body):
        for st in body:
            if isinstance(st, (ast.Assert, ast.Pass, ast.Continue, ast.Delete)):
                continue
            if isinstance(st, ast.Expr) and isinstance(st.value, ast.Call) and isinstance(st.value.func, ast.Attribute) and \
                    st.value.func.attr in ('add', 'update', 'discard'):
                continue
            if isinstance(st, ast.Expr) and isinstance(st.value, ast.Constant):
                continue
            if isinstance(st, ast.Assign) and all(isinstance(t, ast.Subscript) for t in st.targets):
                continue
            if isinstance(st, ast.AugAssign) and isinstance(st.op, SETOPS + (ast.Add,)) and isinstance(st.value, (ast.Constant, ast.Name, ast.Set, ast.Call)) and \
                    (isinstance(st.op, SETOPS) or isinstance(st.value, ast.Constant)):
                continue
            if isinstance(st, ast.If) and self._commutative(st.body) and self._commutative(st.orelse):
                continue
            return False
        return True

# ====================================================================================================================
# (c) what the per-file path mutates, and where per-file objects are created
# ====================================================================================================================

ROOT_ORDER = ['localFresh', 'closure', 'element', 'perCallParam', 'selfAttr', 'unknown', 'foreignModule', 'globalName', 'classState', 'sharedParam']

def worst(kinds):
    kinds = [k for k in kinds if k]
    return max(kinds, key=ROOT_ORDER.index) if kinds else 'unknown'

class MutInventory:
    def __init__(self, scan):
        self.sc = scan
        self.sites = []
        self.creations = []
        self._user_mutators()
        self._shared()
        self._mut_sites()
        self._creation_sites()
        self.sites.sort(key=lambda s: (s['key'], s['root']))
        self.creations.sort(key=lambda s: (s['role'], s['key']))

    def _user_mutators(self):
        """names of lib methods that store into / mutate their receiver (outside __init__)"""
        sc = self.sc
        self.user_mutators = {}
        for f in sc.fns:
            if not getattr(f, 'owner_class', None) or f.name.startswith('__') or not f.params or f.params[0] != 'self':
                continue
            for n in f.nodes:
                tgt = None
                if isinstance(n, ast.Attribute) and isinstance(n.ctx, (ast.Store, ast.Del)):
                    tgt = n.value
                elif sc._mutation_target(n) is not None and not isinstance(n, ast.AugAssign):
                    tgt = sc._mutation_target(n)
                if tgt is not None:
                    root, _ = chain_root(tgt)
                    if isinstance(root, ast.Name) and root.id == 'self':
                        self.user_mutators.setdefault(f.name, f.key)

    def _shared(self):
        """parameters fed (through any chain of calls, matched by function name) from objects living in main / check_all,
        parameters fed from module-level objects, and attributes that hold such objects"""
        sc = self.sc
        cli = 'lib/cli.py'
        seeds = [f for f in (sc.find(cli, 'main'), sc.find(cli, 'check_all')) if f]
        self.shared = {}         # (fn, name) -> why
        self.global_fed = {}     # (fn, param) -> why
        self.shared_attrs = {}   # attribute name -> why
        for f in seeds:
            for name in f.locals:
                self.shared[(f, name)] = f'object of {f.qual}'
        changed = True
        rounds = 0
        while changed and rounds < 8:
            changed = False
            rounds += 1
            for f in sc.fns:
                for n in f.nodes:
                    if isinstance(n, ast.Call):
                        name = call_name(n)
                        targets = [g for g in sc.by_fname.get(name, []) if not g.is_import]
                        if name in sc.classes:
                            for c in sc.class_closure(name):
                                targets += [g for g in sc.class_methods.get(c, []) if g.name == '__init__']
                        if name == 'partial' and n.args:
                            inner = call_name(ast.Call(func=n.args[0], args=[], keywords=[])) if isinstance(n.args[0], (ast.Name, ast.Attribute)) else None
                            targets = [g for g in sc.by_fname.get(inner, []) if not g.is_import]
                        if not targets:
                            continue
                        args = list(n.args[1:] if name == 'partial' else n.args)
                        for g in targets:
                            ps = g.params[1:] if (getattr(g, 'owner_class', None) and g.params and g.params[0] in ('self', 'cls')) else g.params
                            pairs = [(ps[i], a) for i, a in enumerate(args) if i < len(ps) and not isinstance(a, ast.Starred)]
                            pairs += [(k.arg, k.value) for k in n.keywords if k.arg in g.params]
                            for pname, a in pairs:
                                lab = self._label(f, a)
                                if lab == 'shared' and (g, pname) not in self.shared:
                                    self.shared[(g, pname)] = f'fed by {f.qual}: {f.mod.text(a, 30)}'
                                    changed = True
                                elif lab == 'global' and (g, pname) not in self.global_fed:
                                    self.global_fed[(g, pname)] = f'fed a module-level object by {f.qual}: {f.mod.text(a, 30)}'
                                    changed = True
                    elif isinstance(n, ast.Assign):
                        lab = self._label(f, n.value)
                        if lab == 'shared':
                            for t in n.targets:
                                if isinstance(t, ast.Attribute) and t.attr not in self.shared_attrs:
                                    self.shared_attrs[t.attr] = f'{f.qual}: {f.mod.text(n, 40)}'
                                    changed = True

    def shared_reads(self):
        """(attribute, function, path class) for every attribute read on an object of main / check_all (the options namespace and what hangs
        off it): which options the per-file path can depend on"""
        res = set()
        for f in self.sc.fns:
            for n in f.nodes:
                if isinstance(n, ast.Attribute) and isinstance(n.ctx, ast.Load) and self._label(f, n.value) == 'shared':
                    res.add((n.attr, f.key, f.path))
        return sorted(res)

    def _label(self, f, a):
        """'shared' | 'global' | None for an argument expression"""
        if isinstance(a, (ast.Constant, ast.JoinedStr, ast.Call, ast.List, ast.Dict, ast.Set, ast.Tuple, ast.ListComp, ast.BinOp, ast.Compare, ast.Lambda)):
            if isinstance(a, ast.Call) and call_name(a) in ('vars', 'getattr') and a.args:
                return self._label(f, a.args[0])
            return None
        root, attrs = chain_root(a)
        if not isinstance(root, ast.Name):
            return None
        kind, info = self.sc.resolve(f, root.id)
        if kind == 'module':
            return None
        if any(x in self.shared_attrs for x in attrs):
            return 'shared'
        if kind in ('local', 'param') and (f, root.id) in self.shared:
            return 'shared'
        if kind == 'closure' and (info, root.id) in self.shared:
            return 'shared'
        if kind == 'param' and (f, root.id) in self.global_fed:
            return 'global'
        if kind == 'global' and root.id not in self.sc.classes and not self.sc.by_fname.get(root.id):
            # a module-level data object (not a function / class)
            for s in getattr(self, '_state_kinds', {}).items():
                pass
            return 'global'
        return None

    # ---- root of a mutated expression
    def root_kind(self, f, expr, depth=0, at=None):
        sc = self.sc
        root, attrs = chain_root(expr)
        if any(x in self.shared_attrs for x in attrs):
            return 'sharedParam', 'through attribute .' + next(x for x in attrs if x in self.shared_attrs) + ' (' + self.shared_attrs[next(x for x in attrs if x in self.shared_attrs)] + ')'
        if not isinstance(root, ast.Name):
            return 'localFresh', 'temporary ' + type(root).__name__
        name = root.id
        kind, info = sc.resolve(f, name)
        if kind == 'param':
            if f.params and f.params[0] == name and getattr(f, 'owner_class', None):
                is_cm = any((dotted(d) or '') == 'classmethod' for d in getattr(f.node, 'decorator_list', []))
                if is_cm or name == 'cls':
                    return 'classState', f'{name} of a classmethod'
                return 'selfAttr', 'self'
            if (f, name) in self.shared:
                return 'sharedParam', f'parameter {name}: ' + self.shared[(f, name)]
            if (f, name) in self.global_fed:
                return 'globalName', f'parameter {name}: ' + self.global_fed[(f, name)]
            return 'perCallParam', f'parameter {name}'
        if kind in ('local', 'closure'):
            scope = f if kind == 'local' else info
            if (scope, name) in self.shared and scope.path in ('driver', 'startup'):
                return 'sharedParam', self.shared[(scope, name)]
            if depth > 3:
                return ('closure' if kind == 'closure' else 'localFresh'), 'alias chain cut'
            vals = self._dominating(scope, name, at if kind == 'local' else None)
            kinds = []
            for v in vals:
                if v is None:
                    kinds.append(('element', 'loop / with / except variable'))
                elif isinstance(v, ast.expr) and isinstance(v, (ast.Name, ast.Attribute, ast.Subscript)) or \
                        (isinstance(v, ast.Call) and call_name(v) in ('vars', 'getattr') and v.args):
                    k = self.root_kind(scope, v, depth + 1, at=v)
                    # an element/attribute of a per-call object stays per call
                    kinds.append(k)
                elif isinstance(v, tuple) and v[0] == 'iter':
                    k = self.root_kind(scope, v[1], depth + 1, at=v[1]) if isinstance(v[1], (ast.Name, ast.Attribute, ast.Subscript)) else ('element', 'element of a fresh sequence')
                    kinds.append((k[0] if k[0] in ('sharedParam', 'globalName', 'classState', 'foreignModule') else 'element', 'element of ' + k[1]))
                else:
                    kinds.append(('closure' if kind == 'closure' else 'localFresh', 'bound to a fresh object'))
            if not kinds:
                kinds = [('closure' if kind == 'closure' else 'localFresh', 'no binding found')]
            w = worst([k for k, _ in kinds])
            return w, next(d for k, d in kinds if k == w)
        if kind == 'global':
            if name in sc.classes:
                return 'classState', f'class {name}'
            return 'globalName', f'module-level {name}'
        if kind == 'symbol':
            return 'globalName', f'{info[0]}.{info[1]}'
        if kind == 'module':
            return 'foreignModule', info
        return 'unknown', f'builtin or unbound name {name}'

    def _dominating(self, f, name, at):
        """binding values of `name` in f that can reach node `at`: the nearest preceding assignment in an enclosing block if there is
        one (plus any binding nested between it and the use), otherwise every binding.  value | None (loop var) | ('iter', expr)"""
        allb = []
        for n in f.nodes:
            if isinstance(n, ast.Assign):
                for t in n.targets:
                    for x in ast.walk(t):
                        if isinstance(x, ast.Name) and x.id == name and isinstance(x.ctx, ast.Store):
                            allb.append((n, n.value if isinstance(t, ast.Name) else ast.Call(func=ast.Name(id='<unpack>', ctx=ast.Load()), args=[], keywords=[])))
            elif isinstance(n, (ast.AnnAssign, ast.NamedExpr)) and isinstance(n.target, ast.Name) and n.target.id == name and n.value is not None:
                allb.append((n, n.value))
            elif isinstance(n, ast.For) and any(isinstance(x, ast.Name) and x.id == name for x in ast.walk(n.target)):
                allb.append((n, ('iter', n.iter)))
            elif isinstance(n, ast.comprehension) and any(isinstance(x, ast.Name) and x.id == name for x in ast.walk(n.target)):
                allb.append((n, ('iter', n.iter)))
            elif isinstance(n, ast.withitem) and n.optional_vars is not None and any(isinstance(x, ast.Name) and x.id == name for x in ast.walk(n.optional_vars)):
                allb.append((n, n.context_expr if isinstance(n.context_expr, ast.Call) else None))
            elif isinstance(n, ast.ExceptHandler) and n.name == name:
                allb.append((n, None))
        if name in f.params:
            return [ast.Name(id=name, ctx=ast.Load())] if False else [v for _n, v in allb] or []
        if at is None or not allb:
            return [v for _n, v in allb]
        # the statement containing `at`, and its chain of enclosing blocks
        st = at
        while st is not None and not isinstance(st, ast.stmt):
            st = parent(st)
        while st is not None and not isinstance(st, FUNC + (ast.Module,)):
            blk = self._block(st)
            if blk is not None:
                lst, idx = blk
                for j in range(idx - 1, -1, -1):
                    prev = lst[j]
                    hit = [v for n, v in allb if n is prev]
                    if hit:
                        # plus bindings nested in statements between prev and the use
                        between = []
                        for k in range(j + 1, idx + 1):
                            for n, v in allb:
                                if n is not lst[k] and any(x is n for x in ast.walk(lst[k])):
                                    between.append(v)
                        return hit + between
                    nested = [v for n, v in allb if any(x is n for x in ast.walk(prev))]
                    if nested:
                        return [v for _n, v in allb]
            st = parent(st)
        return [v for _n, v in allb]

    @staticmethod
    def _block(stmt):
        par = parent(stmt)
        if par is None:
            return None
        for field in ('body', 'orelse', 'finalbody'):
            lst = getattr(par, field, None)
            if isinstance(lst, list) and any(x is stmt for x in lst):
                return lst, [i for i, x in enumerate(lst) if x is stmt][0]
        if isinstance(par, ast.Try):
            for h in par.handlers:
                if any(x is stmt for x in h.body):
                    return h.body, [i for i, x in enumerate(h.body) if x is stmt][0]
        return None

    def mutation_nodes(self, f):
        """(node, target expression, text) of every mutation in scope f"""
        sc = self.sc
        for n in f.nodes:
            tgt = sc._mutation_target(n)
            if tgt is None and isinstance(n, ast.AugAssign) and isinstance(n.target, (ast.Attribute, ast.Subscript)):
                tgt = n.target.value
            if tgt is None and isinstance(n, ast.Call) and isinstance(n.func, ast.Attribute) and n.func.attr in self.user_mutators:
                tgt = n.func.value
            if tgt is None:
                continue
            if isinstance(n, ast.AugAssign) and isinstance(n.target, ast.Name):
                # rebinding of a local by `x += …`: a mutation only for mutable x (lists, sets); kept, root decides
                pass
            if isinstance(n, (ast.Attribute, ast.Subscript)) and isinstance(n.ctx, ast.Del) and isinstance(tgt, ast.Name) and False:
                continue
            disp = parent(n) if isinstance(n, (ast.Attribute, ast.Subscript)) and isinstance(parent(n), (ast.Assign, ast.AugAssign, ast.Delete)) else n
            yield n, tgt, f.mod.text(disp, 70)

    def _mut_sites(self):
        sc = self.sc
        for f in sc.fns:
            if f.path not in ('perFile', 'driver'):
                continue
            for n, tgt, text in self.mutation_nodes(f):
                # `self.x = …` inside __init__ initialises the new object
                kind, why = self.root_kind(f, tgt, at=n)
                if kind == 'foreignModule' and any(g is f for g, *_ in sc.patch_sites):
                    continue          # listed in the state inventory as a patch / scoped redirect
                self.sites.append({'key': f'{f.key}:{text}', 'root': kind, 'detail': why, 'lineno': stmt_line(n), 'file': f.mod.rel, 'fn': f, 'path': f.path})

    def _creation_sites(self):
        sc = self.sc
        # checker instances: classes named like the abstract checker of lib/check/__init__.py and their subclasses
        base = [c for c, defs in sc.classes.items() for m, _n in defs if m.rel == 'lib/check/__init__.py' and
                any(g.name == 'check' for g in sc.class_methods.get(c, []))]
        family = {c for c in sc.classes if any(b in sc.class_closure(c) for b in base)}
        for f in sc.fns:
            for n in f.nodes:
                if isinstance(n, ast.Call) and call_name(n) in family and not isinstance(parent(n), ast.ClassDef):
                    per = (not f.is_import) and f.path == 'perFile' and not isinstance(parent(n), ast.arguments)
                    self.creations.append({'role': 'checker-instance', 'key': f'{f.key}:{f.mod.text(n, 60)}', 'perCall': per,
                                           'detail': f'in {f.qual}[{f.path}]'})
        # ctx namespace: the object handed to the self.check_*() methods by the `check` method
        for c in base:
            for g in sc.class_methods.get(c, []):
                if g.name != 'check':
                    continue
                count = {}
                for n in g.nodes:
                    if isinstance(n, ast.Call) and isinstance(n.func, ast.Attribute) and isinstance(n.func.value, ast.Name) and n.func.value.id == 'self' and \
                            n.args and isinstance(n.args[0], ast.Name):
                        count[n.args[0].id] = count.get(n.args[0].id, 0) + 1
                for name, k in sorted(count.items()):
                    if k < 3:
                        continue
                    kind, why = self.root_kind(g, ast.Name(id=name, ctx=ast.Load()))
                    self.creations.append({'role': 'ctx-namespace', 'key': f'{g.key}:{name}', 'perCall': kind == 'localFresh',
                                           'detail': f'passed to {k} self.*() calls; {kind}: {why}'})
        # loop accumulators of the per-file path
        seen = set()
        for s in self.sites:
            f = s['fn']
            for n, tgt, text in self.mutation_nodes(f):
                if f'{f.key}:{text}' != s['key']:
                    continue
                loop = enclosing(n, (ast.For, ast.While))
                if loop is None or sc.fn_of(loop) is not f:
                    continue
                root, attrs = chain_root(tgt)
                if not isinstance(root, ast.Name):
                    continue
                # created outside the loop?
                inside = False
                for b in f.nodes:
                    if isinstance(b, ast.Assign) and any(isinstance(t, ast.Name) and t.id == root.id for t in b.targets):
                        if any(x is b for x in ast.walk(loop)):
                            inside = True
                if root.id in [x.id for x in ast.walk(loop.target) if isinstance(x, ast.Name)] if isinstance(loop, ast.For) else False:
                    inside = True
                if inside and s['root'] in ('localFresh', 'element'):
                    continue
                key = f'{f.key}:{root.id}' + ('.' + '.'.join(a for a in attrs if a not in ('[]', '()')) if attrs and [a for a in attrs if a not in ('[]', '()')] else '')
                if key in seen:
                    continue
                seen.add(key)
                self.creations.append({'role': 'loop-accumulator', 'key': key, 'perCall': s['root'] in ('localFresh', 'closure', 'selfAttr', 'perCallParam', 'element'),
                                       'detail': f"{s['root']}: {s['detail']}"})

# ====================================================================================================================
# (d) reads of things that are not the file, its path, the options or the date
# ====================================================================================================================

class NondetInventory:
    PATTERNS = [
        ('random.', 'random'), ('secrets.', 'random'), ('uuid.', 'random'), ('os.urandom', 'random'),
        ('time.', 'clock'), ('datetime.datetime.now', 'clock'), ('datetime.datetime.today', 'clock'), ('datetime.datetime.utcnow', 'clock'), ('datetime.date.today', 'clock'),
        ('inspect.stack', 'stack'), ('inspect.currentframe', 'stack'), ('sys._getframe', 'stack'),
        ('tempfile.', 'fs'), ('os.walk', 'fs'), ('os.listdir', 'fs'), ('os.scandir', 'fs'), ('glob.', 'fs'),
        ('os.environ', 'env'), ('os.getenv', 'env'), ('sys.argv', 'env'), ('_curses.setupterm', 'env'), ('curses.', 'env'),
        ('sys.stdout.isatty', 'tty'), ('sys.stdout.encoding', 'tty'), ('sys.stdout.errors', 'tty'), ('sys.stdout.fileno', 'tty'), ('sys.stdout.buffer', 'tty'),
        ('sys.stderr.isatty', 'tty'), ('sys.stdin.isatty', 'tty'), ('sys.__stdout__', 'tty'), ('os.isatty', 'tty'), ('os.ttyname', 'tty'),
        ('os.get_terminal_size', 'tty'), ('shutil.get_terminal_size', 'tty'),
        ('os.cpu_count', 'cpu'), ('os.sched_getaffinity', 'cpu'), ('sched_getaffinity', 'cpu'),
        ('os.getpid', 'ident'), ('os.getppid', 'ident'), ('threading.get_ident', 'ident'), ('id', 'ident'), ('hash', 'ident'),
        ('ipc.', 'tool'), ('subprocess.', 'tool'), ('ctypes.CDLL', 'tool'), ('os.popen', 'tool'), ('os.system', 'tool'),
        ('locale.', 'env'), ('getpass.', 'env'), ('socket.', 'env'), ('platform.', 'env'),
        ('concurrent.futures.ProcessPoolExecutor', 'procpool'), ('multiprocessing.Pool', 'procpool'),
        ('concurrent.futures.ThreadPoolExecutor', 'thread'), ('threading.', 'thread'), ('multiprocessing.pool.ThreadPool', 'thread'),
        ('multiprocessing.dummy', 'thread'), ('_thread.', 'thread'), ('asyncio.', 'thread'),
    ]
    def __init__(self, scan):
        self.sc = scan
        self.sites = []
        sc = scan
        seen = set()
        for f in sc.fns:
            if f.path == 'child':
                continue
            for n in f.nodes:
                if not isinstance(n, (ast.Attribute, ast.Name)) or not isinstance(getattr(n, 'ctx', None), ast.Load):
                    continue
                if isinstance(parent(n), ast.Attribute) and parent(n).value is n:
                    continue        # inner part of a longer dotted name
                d = dotted(n)
                if not d:
                    continue
                head = d.split('.')[0]
                kind0, info = sc.resolve(f, head)
                if isinstance(n, ast.Name):
                    if not (kind0 == 'builtin' and d in ('id', 'hash') and isinstance(parent(n), ast.Call) and parent(n).func is n):
                        if not (kind0 == 'symbol' and f'{info[0]}.{info[1]}' in [p for p, _ in self.PATTERNS]):
                            continue
                        d = f'{info[0]}.{info[1]}'
                elif kind0 == 'module':
                    d = info + d[len(head):] if info != head and not info.startswith('lib') else d
                elif kind0 not in ('module',):
                    # a module-level handle rebound at start-up (terminal._curses): the state inventory has it; only the start-up reads are listed
                    if not d.startswith(('_curses.', 'sched_getaffinity')) or f.path not in ('startup', 'import'):
                        continue
                cat = None
                for pat, c in self.PATTERNS:
                    if d == pat or (pat.endswith('.') and d.startswith(pat)) or d.startswith(pat + '.') or False:
                        cat = c
                        break
                if d.startswith('subprocess.') and d.split('.')[1] in ('DEVNULL', 'PIPE', 'CalledProcessError', 'STDOUT'):
                    continue
                if d.startswith('datetime.') and cat is None:
                    continue
                if cat is None:
                    continue
                kind, detail = self.classify(f, n, d, cat)
                key = f'{f.key}:{d}'
                if (key, kind) in seen:
                    continue
                seen.add((key, kind))
                self.sites.append({'key': key, 'kind': kind, 'detail': f'[{f.path}] ' + detail + ': ' + f.mod.text(enclosing(n, (ast.stmt,)) or n, 70)})
        self.sites.sort(key=lambda s: (s['key'], s['kind']))

    def classify(self, f, n, d, cat):
        sc = self.sc
        if cat == 'clock':
            return 'clock', 'current date/time (an input of the property)'
        if cat == 'procpool':
            return 'processPool', 'pool of worker PROCESSES (each with its own copy of the global state: modelled by CliState.parExec)'
        if cat == 'thread':
            return 'other', 'threads share sys.stdout (check_file_s swaps it) and every global of the process'
        if cat == 'stack':
            return 'currentStack', 'frame inspection of the running call'
        if cat == 'cpu':
            return ('cpuCount', 'CPU count for -j auto') if f.path in ('startup', 'import') else ('other', 'CPU count read on the per-file path')
        if cat == 'tool':
            return 'externalTool', 'external program / C library (deterministic function of its input: parameter of C17 / C20)'
        if cat == 'fs':
            deb = [g for g in sc.fns if g.mod.rel == 'lib/cli.py' and g.name == 'check_deb']
            users_scoped = f.name == 'throwaway_tempdir' or (deb and f is deb[0])
            if users_scoped:
                return 'debUnpack', 'private temporary directory (name never printed: fake_root / scoped tempdir)'
            return 'other', 'file-system enumeration / temporary names outside check_deb'
        if cat == 'tty':
            # what `sys.stdout` IS depends on where the code runs: check_file_s swaps it for a StringIO in pool workers, so a probe on the
            # per-file path answers differently for -j 1 and -j N; on the start-up path it is asked once, of the process's real stdout
            if f.path in ('startup', 'import'):
                return 'terminalProbe', 'property of the real stdout, read once on the start-up path (before any redirect)'
            return 'terminalProbePerFile', 'property of sys.stdout read on the per-file path: inside check_file_s (pool workers) sys.stdout is a StringIO'
        if cat == 'env':
            if f.path in ('startup', 'import'):
                return 'startupEnvironment', 'environment / terminal read once at start-up'
            return 'other', 'environment read on the per-file path'
        if cat == 'random':
            if f.is_import and self._private_token(f, n):
                return 'privateToken', 'random token drawn at import; used only inside this module, never in tag(), print, return or raise'
            return 'other', 'random value'
        return 'other', 'process identity / object identity / string hash'

    def _private_token(self, f, n):
        """import scope: the value is bound to a module-level name all of whose (transitive, import-scope-derived) uses stay out of
        tag()/print()/return/raise/yield expressions and out of other modules"""
        sc = self.sc
        st = enclosing(n, (ast.Assign,))
        if st is None or not (len(st.targets) == 1 and isinstance(st.targets[0], ast.Name)):
            return False
        names = {st.targets[0].id}
        m = f.mod
        changed = True
        while changed:
            changed = False
            for x in m.import_fn.nodes:
                if isinstance(x, ast.Assign) and len(x.targets) == 1 and isinstance(x.targets[0], ast.Name) and x.targets[0].id not in names:
                    if any(isinstance(y, ast.Name) and y.id in names for y in ast.walk(x.value)):
                        names.add(x.targets[0].id)
                        changed = True
        for g in sc.fns:
            for x in g.nodes:
                if isinstance(x, ast.Name) and x.id in names and isinstance(x.ctx, ast.Load):
                    if g.mod is not m:
                        k, info = sc.resolve(g, x.id)
                        if k == 'symbol' and info[0] == m.name:
                            return False
                        continue
                    if sc.resolve(g, x.id)[0] != 'global' and not g.is_import:
                        continue
                    a = x
                    while a is not None and not isinstance(a, ast.stmt):
                        if isinstance(a, ast.Call) and call_name(a) in ('tag', 'print', 'write', 'format', 'safestr', 'safe_format') and a is not x:
                            return False
                        a = parent(a)
                    if isinstance(a, (ast.Return, ast.Raise)) or (isinstance(a, ast.Expr) and isinstance(a.value, (ast.Yield, ast.YieldFrom))):
                        return False
                elif isinstance(x, ast.Attribute) and x.attr in names and g.mod is not m:
                    root, _ = chain_root(x)
                    if isinstance(root, ast.Name) and sc.resolve(g, root.id) == ('module', m.name):
                        return False
        return True
