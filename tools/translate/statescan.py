"""Static scan of /repo/lib (+ the launcher) for run-context dependence (C03).  Pure `ast`; nothing of the repo is
imported here, so the scan also works on a tree that no longer imports.

Used by tools/translate/state2lean.py (writes lean/I18n/Generated/StateSites.lean) and by tools/checks/C03.py (search
aid of the falsifier, coverage of the inventory by the dynamic runs).

THE RULES BELOW ARE PART OF THE TRUSTED BASE OF C03 (they are listed in DESIGN-notes/determinism.md).

Scopes.  *import scope* of a module = its body and its class bodies (not function bodies).  Every `def`/`lambda`-free
function body is its own scope; a site belongs to the innermost function.

Call graph (name based, over-approximate).  f -> g when the body of f mentions the identifier g (as a name or as an
attribute) and g is a function/method of lib/ or the launcher; f -> every function nested in f; f -> the dunder methods
and __init__ of every lib class f mentions; decorator d -> the function it decorates, and every reader of a
module-level registry that d writes -> that function (`for patch in patches: patch()`).

Path classes of a function:
  perFile   reachable from cli.check_file / cli.check_file_s; or *escaping* (named in the value of a monkey patch, passed
            to codecs.register, defined inside a function that monkey-patches, method of a class instantiated there);
            or referenced by nothing at all (worst case)
  startup   reachable from cli.main (or the launcher), not perFile, and not cli.check_all itself
  import    every reference is in an import scope (decorators, table builders called at module level)
"""
import ast, os

MUTATORS = {'append', 'add', 'update', 'setdefault', 'pop', 'clear', 'extend', 'insert', 'remove', 'discard', 'popitem',
            'sort', 'reverse', 'appendleft', 'popleft', 'extendleft', 'subtract', 'move_to_end', 'rotate',
            '__setitem__', '__delitem__', 'intersection_update', 'difference_update', 'symmetric_difference_update'}
MUTABLE_CTORS = {'list', 'dict', 'set', 'bytearray', 'defaultdict', 'Counter', 'OrderedDict', 'deque', 'SimpleNamespace',
                 'ChainMap', 'Namespace'}
IMMUTABLE_CALLS = {'frozenset', 'tuple', 'str', 'bytes', 'int', 'float', 'bool', 'compile', 'partial', 'namedtuple', 'object',
                   'join', 'format', 'encode', 'decode', 'lower', 'upper', 'normpath', 'dirname', 'chr', 'ord', 'len',
                   'escape', 'property', 'staticmethod', 'classmethod', 'range', 'replace', 'strip', 'abspath', 'realpath'}

class Mod:
    def __init__(self, repo, rel):
        self.rel = rel
        self.src = open(os.path.join(repo, rel), encoding='utf-8').read()
        self.tree = ast.parse(self.src)
        if rel.endswith('.py'):
            name = rel[:-3].replace('/', '.')
            if name.endswith('.__init__'):
                name = name[:-9]
        else:
            name = '__main__'
        self.name = name
        for node in ast.walk(self.tree):
            for ch in ast.iter_child_nodes(node):
                ch._parent = node
        self.tree._parent = None
        self.tree._mod = self
        self.aliases = {}       # local name -> dotted module name            (import a.b as c / from a import b [module])
        self.symbols = {}       # local name -> (dotted module name, symbol)  (from a import f)
    def text(self, node, limit=90):
        s = ' '.join((ast.get_source_segment(self.src, node) or type(node).__name__).split())
        return s if len(s) <= limit else s[:limit - 3] + '...'

class Fn:
    """a function body (or the import scope of a module: node is the ast.Module)"""
    def __init__(self, mod, node, qual, cls, parent):
        self.mod, self.node, self.qual, self.cls, self.parent = mod, node, qual, cls, parent
        self.name = node.name if hasattr(node, 'name') else '<import>'
        self.key = f'{mod.rel}:{qual}'
        self.is_import = isinstance(node, ast.Module)
        self.params = []
        self.globals_decl = set()
        self.locals = set()
        self.mentions = set()
        self.nodes = []          # nodes of this scope (not of nested functions)
        self.path = None
    def __repr__(self):
        return f'<Fn {self.key}>'

FUNC = (ast.FunctionDef, ast.AsyncFunctionDef, ast.Lambda)

def parent(node):
    return getattr(node, '_parent', None)

def enclosing(node, types):
    n = parent(node)
    while n is not None and not isinstance(n, types):
        n = parent(n)
    return n

def chain_root(node):
    """strip attribute / subscript / vars() / getattr() chains: (root expression, list of attribute names passed)"""
    attrs = []
    while True:
        if isinstance(node, ast.Attribute):
            attrs.append(node.attr); node = node.value
        elif isinstance(node, ast.Subscript):
            attrs.append('[]'); node = node.value
        elif isinstance(node, ast.Call) and isinstance(node.func, ast.Name) and node.func.id in ('vars', 'getattr') and node.args:
            attrs.append('()'); node = node.args[0]
        elif isinstance(node, ast.Starred):
            node = node.value
        else:
            return node, list(reversed(attrs))

def call_name(call):
    f = call.func
    if isinstance(f, ast.Name):
        return f.id
    if isinstance(f, ast.Attribute):
        return f.attr
    return None

def dotted(node):
    parts = []
    while isinstance(node, ast.Attribute):
        parts.append(node.attr); node = node.value
    if isinstance(node, ast.Name):
        parts.append(node.id)
        return '.'.join(reversed(parts))
    return None

class Scan:
    def __init__(self, repo):
        self.repo = repo
        self.mods = {}
        rels = []
        for root, dirs, files in os.walk(os.path.join(repo, 'lib')):
            dirs.sort()
            for f in sorted(files):
                if f.endswith('.py'):
                    rels.append(os.path.relpath(os.path.join(root, f), repo))
        if os.path.exists(os.path.join(repo, 'i18nspector')):
            rels.append('i18nspector')
        for rel in sorted(rels):
            self.mods[rel] = Mod(repo, rel)
        self.by_name = {m.name: m for m in self.mods.values()}
        self.fns = []
        self.fn_of_node = {}
        self.classes = {}        # class name -> list of (mod, ClassDef)
        for m in self.mods.values():
            self._imports(m)
            self._collect(m)
        self.by_fname = {}
        for f in self.fns:
            self.by_fname.setdefault(f.name, []).append(f)
        self._module_globals()
        self._callgraph()
        self._paths()

    # ------------------------------------------------------------------ imports
    def _imports(self, m):
        for node in ast.walk(m.tree):
            if isinstance(node, ast.Import):
                for a in node.names:
                    if a.asname:
                        m.aliases[a.asname] = a.name
                    else:
                        m.aliases[a.name.split('.')[0]] = a.name.split('.')[0]
            elif isinstance(node, ast.ImportFrom):
                base = node.module or ''
                if node.level:
                    pkg = m.name.split('.')
                    if not m.rel.endswith('__init__.py'):
                        pkg = pkg[:-1]
                    pkg = pkg[:len(pkg) - (node.level - 1)]
                    base = '.'.join(pkg + ([base] if base else []))
                for a in node.names:
                    local = a.asname or a.name
                    full = f'{base}.{a.name}'
                    if full in self._all_module_names() or self._is_external_module(base, a.name):
                        m.aliases[local] = full
                    else:
                        m.symbols[local] = (base, a.name)

    def _all_module_names(self):
        names = set()
        for rel in self.mods:
            if rel.endswith('.py'):
                n = rel[:-3].replace('/', '.')
                names.add(n[:-9] if n.endswith('.__init__') else n)
        return names

    @staticmethod
    def _is_external_module(base, name):
        # `from xml.parsers import expat`-like imports: a lower-case attribute of a package is taken as a module when importable
        if base.startswith('lib'):
            return False
        try:
            import importlib.util
            return importlib.util.find_spec(f'{base}.{name}') is not None
        except Exception:
            return False

    # ------------------------------------------------------------------ functions and scopes
    def _collect(self, m):
        imp = Fn(m, m.tree, '<import>', None, None)
        self.fns.append(imp)
        m.import_fn = imp
        self.fn_of_node[m.tree] = imp
        def handle(ch, node, fn, qual, cls):
            if isinstance(ch, FUNC):
                name = ch.name if hasattr(ch, 'name') else '<lambda>'
                q = (qual + '.' if qual else '') + name
                fn.nodes.append(ch)
                # decorators and defaults are evaluated in the enclosing scope
                for d in getattr(ch, 'decorator_list', []):
                    handle(d, ch, fn, qual, cls)
                for d in ch.args.defaults + [k for k in ch.args.kw_defaults if k is not None]:
                    handle(d, ch, fn, qual, cls)
                in_class = isinstance(node, ast.ClassDef)
                sub = Fn(m, ch, q, cls if in_class else None, None if fn.is_import else fn)
                sub.defined_in = fn
                sub.owner_class = cls if in_class else None
                a = ch.args
                sub.params = [x.arg for x in a.posonlyargs + a.args] + ([a.vararg.arg] if a.vararg else []) + \
                             [x.arg for x in a.kwonlyargs] + ([a.kwarg.arg] if a.kwarg else [])
                self.fns.append(sub)
                self.fn_of_node[ch] = sub
                body = ch.body if isinstance(ch.body, list) else [ch.body]
                for b in body:
                    handle(b, ch, sub, q, None)
            elif isinstance(ch, ast.ClassDef):
                self.classes.setdefault(ch.name, []).append((m, ch))
                fn.nodes.append(ch)
                q = (qual + '.' if qual else '') + ch.name
                for c2 in ast.iter_child_nodes(ch):
                    handle(c2, ch, fn, q, ch.name)
            else:
                fn.nodes.append(ch)
                for c2 in ast.iter_child_nodes(ch):
                    handle(c2, ch, fn, qual, cls)
        for ch in ast.iter_child_nodes(m.tree):
            handle(ch, m.tree, imp, '', None)
        for f in self.fns:
            if f.mod is not m:
                continue
            for n in f.nodes:
                if isinstance(n, (ast.Global, ast.Nonlocal)):
                    f.globals_decl.update(n.names)
            for n in f.nodes:
                if isinstance(n, ast.Name) and isinstance(n.ctx, (ast.Store, ast.Del)):
                    f.locals.add(n.id)
                elif isinstance(n, ast.ExceptHandler) and n.name:
                    f.locals.add(n.name)
                elif isinstance(n, (ast.Import, ast.ImportFrom)):
                    for a in n.names:
                        f.locals.add((a.asname or a.name).split('.')[0])
                elif isinstance(n, FUNC) and hasattr(n, 'name'):
                    f.locals.add(n.name)
                elif isinstance(n, ast.ClassDef):
                    f.locals.add(n.name)
                if isinstance(n, ast.Name):
                    f.mentions.add(n.id)
                elif isinstance(n, ast.Attribute):
                    f.mentions.add(n.attr)
            f.locals |= set(f.params)
            f.locals -= f.globals_decl

    def fn_of(self, node):
        """innermost function (or import scope) owning `node`"""
        n = node
        prev = None
        while n is not None:
            if isinstance(n, FUNC):
                # decorators/defaults belong to the enclosing scope
                if prev is not None and (prev in getattr(n, 'decorator_list', []) or prev in n.args.defaults or prev in n.args.kw_defaults or prev is n.args):
                    pass
                else:
                    return self.fn_of_node[n]
            if isinstance(n, ast.Module):
                return self.fn_of_node[n]
            prev = n
            n = parent(n)
        return None

    # ------------------------------------------------------------------ module-level names
    def _module_globals(self):
        for m in self.mods.values():
            g = {}
            for n in m.import_fn.nodes:
                if isinstance(n, ast.Name) and isinstance(n.ctx, ast.Store):
                    cls = enclosing(n, (ast.ClassDef,))
                    if cls is None:
                        g.setdefault(n.id, [])
            for n in m.import_fn.nodes:
                if isinstance(n, FUNC) and hasattr(n, 'name') and not isinstance(parent(n), ast.ClassDef):
                    g.setdefault(n.name, [])
                if isinstance(n, ast.ClassDef) and not isinstance(parent(n), ast.ClassDef):
                    g.setdefault(n.name, [])
            m.globals = g

    def resolve(self, fn, name):
        """('local'|'param'|'closure'|'global'|'module'|'symbol'|'builtin', info)"""
        f = fn
        first = True
        while f is not None and not f.is_import:
            if name in f.locals:
                if first:
                    return ('param' if name in f.params else 'local', f)
                return ('closure', f)
            if name in f.globals_decl and first:
                break
            first = False
            f = f.parent
        m = fn.mod
        if name in m.aliases:
            return ('module', m.aliases[name])
        if name in m.symbols:
            return ('symbol', m.symbols[name])
        if name in m.globals or (fn.is_import and name in fn.locals):
            return ('global', m)
        return ('builtin', None)

    # ------------------------------------------------------------------ call graph and path classes
    def _callgraph(self):
        self.edges = {f: set() for f in self.fns}
        class_methods = {}
        for f in self.fns:
            if getattr(f, 'owner_class', None):
                class_methods.setdefault(f.owner_class, []).append(f)
        self.class_methods = class_methods
        for f in self.fns:
            for name in f.mentions:
                for g in self.by_fname.get(name, []):
                    if g is not f and not g.is_import:
                        self.edges[f].add(g)
                for cname in self.class_closure(name):
                    for g in class_methods.get(cname, []):
                        if g.name.startswith('__') and g.name.endswith('__'):
                            self.edges[f].add(g)
            for g in self.fns:
                if g.parent is f:
                    self.edges[f].add(g)
        # module-level aliases of functions (`_encode = _encode_dl if … else _encode_cli`): a mention of the alias is a mention of each
        for m in self.mods.values():
            for n in m.import_fn.nodes:
                if isinstance(n, ast.Assign) and len(n.targets) == 1 and isinstance(n.targets[0], ast.Name) and not isinstance(n.value, ast.Call):
                    alias = n.targets[0].id
                    for x in ast.walk(n.value):
                        if isinstance(x, ast.Name) and x.id != alias:
                            for g in self.by_fname.get(x.id, []):
                                if g.mod is m and not g.is_import:
                                    for f in self.fns:
                                        if alias in f.mentions and not f.is_import:
                                            self.edges[f].add(g)
        # decorators: registry link
        self.registry_writers = {}     # (mod rel, global name) -> set of decorator Fns writing it
        for f in self.fns:
            if f.is_import:
                continue
            for n in f.nodes:
                tgt = self._mutation_target(n)
                if tgt is None:
                    continue
                root, _attrs = chain_root(tgt)
                if isinstance(root, ast.Name) and self.resolve(f, root.id)[0] == 'global':
                    self.registry_writers.setdefault((f.mod.rel, root.id), set()).add(f)
        for g in self.fns:
            for d in getattr(g.node, 'decorator_list', []):
                dn = d.func if isinstance(d, ast.Call) else d
                name = dn.id if isinstance(dn, ast.Name) else (dn.attr if isinstance(dn, ast.Attribute) else None)
                for dec in self.by_fname.get(name, []):
                    self.edges[dec].add(g)
                    for (rel, gname), writers in self.registry_writers.items():
                        if dec in writers:
                            for reader in self.fns:
                                if reader.mod.rel == rel and gname in reader.mentions and reader is not dec and not reader.is_import:
                                    self.edges[reader].add(g)

    def class_closure(self, name):
        """the class `name` of lib/ and its (name-resolved) base classes"""
        seen, todo = [], [name]
        while todo:
            c = todo.pop()
            if c in seen or c not in self.classes:
                continue
            seen.append(c)
            for _m, node in self.classes[c]:
                for b in node.bases:
                    bn = b.id if isinstance(b, ast.Name) else (b.attr if isinstance(b, ast.Attribute) else None)
                    if bn:
                        todo.append(bn)
        return seen

    def _mutation_target(self, n):
        """the expression being mutated by node n (or None)"""
        if isinstance(n, ast.Call) and isinstance(n.func, ast.Attribute) and n.func.attr in MUTATORS:
            return n.func.value
        if isinstance(n, (ast.Subscript, ast.Attribute)) and isinstance(n.ctx, (ast.Store, ast.Del)):
            return n.value
        if isinstance(n, ast.AugAssign) and isinstance(n.target, ast.Name):
            return n.target
        if isinstance(n, ast.Call) and isinstance(n.func, ast.Name) and n.func.id in ('setattr', 'delattr') and n.args:
            return n.args[0]
        return None

    def reach(self, roots):
        seen, todo = set(), list(roots)
        while todo:
            f = todo.pop()
            if f in seen:
                continue
            seen.add(f)
            todo += list(self.edges[f])
        return seen

    def find(self, rel, qual):
        for f in self.fns:
            if f.mod.rel == rel and f.qual == qual:
                return f
        return None

    def _paths(self):
        cli = 'lib/cli.py'
        roots = [f for f in (self.find(cli, 'check_file'), self.find(cli, 'check_file_s')) if f]
        self.per_file_roots = list(roots)
        # escaping functions
        self.patch_sites = []      # (fn, node, target text, value node)
        esc = set()
        for f in self.fns:
            for n in f.nodes:
                val = None
                if isinstance(n, ast.Assign):
                    for t in n.targets:
                        if isinstance(t, ast.Attribute):
                            root, attrs = chain_root(t)
                            if isinstance(root, ast.Name) and self.resolve(f, root.id)[0] == 'module':
                                self.patch_sites.append((f, n, f.mod.text(t), n.value))
                                val = n.value
                elif isinstance(n, ast.Call):
                    d = dotted(n.func)
                    if d in ('codecs.register', 'setattr', 'atexit.register', 'signal.signal', 'sys.settrace', 'sys.setprofile', 'warnings.filterwarnings', 'warnings.simplefilter') and n.args:
                        if d == 'setattr':
                            root, _ = chain_root(n.args[0])
                            if not (isinstance(root, ast.Name) and self.resolve(f, root.id)[0] == 'module'):
                                continue
                        self.patch_sites.append((f, n, f.mod.text(n), n.args[-1]))
                        val = n.args[-1]
                    elif isinstance(n.func, ast.Attribute) and n.func.attr in MUTATORS:
                        root, attrs = chain_root(n.func.value)
                        if isinstance(root, ast.Name) and self.resolve(f, root.id)[0] == 'module' and attrs:
                            self.patch_sites.append((f, n, f.mod.text(n), n))
                            val = n
                if val is not None:
                    for x in ast.walk(val):
                        if isinstance(x, ast.Name):
                            for g in self.by_fname.get(x.id, []):
                                esc.add(g)
                            if x.id in self.classes:
                                for g in self.class_methods.get(x.id, []):
                                    esc.add(g)
                    if not f.is_import:
                        for g in self.fns:
                            if g.parent is f:
                                esc.add(g)
        self.escaping = esc
        referenced = set()
        for f in self.fns:
            for g in self.edges[f]:
                referenced.add(g)
        unref = [f for f in self.fns if not f.is_import and f not in referenced and f not in roots]
        main_roots = [f for f in (self.find(cli, 'main'),) if f] + [f for f in self.fns if f.mod.name == '__main__']
        # functions nothing refers to: worst case, except the entry points themselves
        unref = [f for f in unref if f not in main_roots]
        self.unreferenced = unref
        per_file = self.reach(roots + list(esc) + unref)
        check_all = self.find(cli, 'check_all')
        startup = self.reach(main_roots) - per_file
        imp = self.reach([m.import_fn for m in self.mods.values()])
        for f in self.fns:
            if f.is_import:
                f.path = 'import'
            elif f in per_file:
                f.path = 'perFile'
            elif f is check_all:
                f.path = 'driver'
            elif f in startup:
                f.path = 'startup'
            elif f in imp and not getattr(f, 'owner_class', None):
                f.path = 'import'
            else:
                f.path = 'perFile'
        self.per_file = {f for f in self.fns if f.path == 'perFile'}

# ====================================================================================================================
# (a) process-global mutable state
# ====================================================================================================================

def value_mutability(node):
    """'immutable' | 'mutable' | 'opaque' for the value expression of a module/class-level binding"""
    if node is None:
        return 'immutable'
    if isinstance(node, ast.Constant) or isinstance(node, (ast.JoinedStr, ast.Lambda, ast.Compare, ast.BoolOp, ast.UnaryOp)):
        return 'immutable'
    if isinstance(node, ast.Tuple):
        kinds = {value_mutability(e) for e in node.elts}
        return 'mutable' if 'mutable' in kinds else ('opaque' if 'opaque' in kinds else 'immutable')
    if isinstance(node, (ast.List, ast.Dict, ast.Set, ast.ListComp, ast.DictComp, ast.SetComp)):
        return 'mutable'
    if isinstance(node, ast.GeneratorExp):
        return 'opaque'
    if isinstance(node, ast.BinOp):
        kinds = {value_mutability(node.left), value_mutability(node.right)}
        return 'mutable' if 'mutable' in kinds else ('opaque' if 'opaque' in kinds else 'immutable')
    if isinstance(node, ast.IfExp):
        kinds = {value_mutability(node.body), value_mutability(node.orelse)}
        return 'mutable' if 'mutable' in kinds else ('opaque' if 'opaque' in kinds else 'immutable')
    if isinstance(node, ast.Call):
        name = call_name(node)
        if name in MUTABLE_CTORS:
            return 'mutable'
        if name in IMMUTABLE_CALLS:
            return 'immutable'
        return 'opaque'
    if isinstance(node, ast.Attribute):
        # bound method of an immutable (`re.compile(...).findall`), attribute of a module
        return value_mutability(node.value) if isinstance(node.value, ast.Call) else 'opaque'
    if isinstance(node, ast.Name):
        return 'opaque'
    if isinstance(node, ast.Subscript):
        return 'opaque'
    return 'opaque'

IMPURE_MODULES = {'inspect', 'sys', 'os', 'time', 'random', 'datetime', 'tempfile', 'subprocess', 'ipc', 'threading', 'uuid', 'socket',
                  'locale', 'gc', 'traceback', 'io', 'shutil', 'glob', 'signal', 'atexit', 'ctypes', 'getpass', 'pwd'}
IMPURE_BUILTINS = {'open', 'input', 'print', 'id', 'hash', 'globals', 'locals', 'vars', 'exec', 'eval', 'getattr', 'setattr', '__import__'}

class StateInventory:
    def __init__(self, scan):
        self.sc = scan
        self.sites = []           # dicts: key, kind, writers, detail
        self._writers()
        self._module_names()
        self._class_attrs()
        self._defaults()
        self._caches()
        self._patches()
        self.sites.sort(key=lambda s: (s['key'], s['kind'], s['detail']))

    # ---- who writes module-level names and class attributes
    def _writers(self):
        sc = self.sc
        self.gw = {}      # (mod name, global name) -> list of (fn, what)
        self.cw = {}      # attribute name -> list of (fn, what, via)   (mutation of self.X / cls.X / C.X, store to cls.X / C.X)
        for f in sc.fns:
            if f.is_import:
                continue
            for n in f.nodes:
                # rebinding through `global`
                if isinstance(n, ast.Name) and isinstance(n.ctx, (ast.Store, ast.Del)) and n.id in f.globals_decl:
                    self.gw.setdefault((f.mod.name, n.id), []).append((f, 'rebinds (global)'))
                if isinstance(n, (ast.Import, ast.ImportFrom)):
                    for a in n.names:
                        nm = (a.asname or a.name).split('.')[0]
                        if nm in f.globals_decl:
                            self.gw.setdefault((f.mod.name, nm), []).append((f, 'rebinds (global import)'))
                tgt = sc._mutation_target(n)
                if tgt is None:
                    continue
                if isinstance(n, ast.AugAssign) and n.target.id not in f.globals_decl:
                    continue
                root, attrs = chain_root(tgt)
                if not isinstance(root, ast.Name):
                    continue
                what = f.mod.text(n if not isinstance(n, (ast.Subscript, ast.Attribute)) else parent(n) or n, 70)
                kind, info = sc.resolve(f, root.id)
                if kind == 'global' and not attrs:
                    self.gw.setdefault((f.mod.name, root.id), []).append((f, what))
                elif kind == 'global' and attrs:
                    # C.X.append(...) / C.X = ... with C a class of this module; or table.attr mutation
                    if root.id in sc.classes:
                        self.cw.setdefault(attrs[0], []).append((f, what, root.id))
                    else:
                        self.gw.setdefault((f.mod.name, root.id), []).append((f, what))
                elif kind == 'symbol':
                    mod, sym = info
                    self.gw.setdefault((mod, sym), []).append((f, what))
                elif kind == 'module' and attrs and info in sc.by_name:
                    self.gw.setdefault((info, attrs[0]), []).append((f, what))
                elif kind == 'param' and root.id in ('self', 'cls') and attrs and f.params and f.params[0] == root.id:
                    is_store_to_attr = isinstance(n, ast.Attribute) and len(attrs) == 0
                    # a mutation *below* self.X (self.X.append, self.X[k] = v) or a store to cls.X
                    if root.id == 'cls':
                        # tgt is `cls` for `cls.X = v` (attrs == []) — handled below
                        self.cw.setdefault(attrs[0], []).append((f, what, 'cls'))
                    else:
                        self.cw.setdefault(attrs[0], []).append((f, what, 'self'))
                if kind == 'param' and root.id == 'cls' and not attrs and isinstance(n, ast.Attribute) and f.params and f.params[0] == 'cls':
                    self.cw.setdefault(n.attr, []).append((f, what, 'cls'))
                if kind == 'global' and not attrs and isinstance(n, ast.Attribute) and root.id in sc.classes:
                    self.cw.setdefault(n.attr, []).append((f, what, root.id))
                if isinstance(root, ast.Name) and kind == 'builtin' and root.id == 'type':
                    pass

    @staticmethod
    def _fmt_writers(ws):
        seen = []
        for f, what, *_ in ws:
            s = f'{f.qual}[{f.path}]: {what}'
            if s not in seen:
                seen.append(s)
        return '; '.join(seen)

    @staticmethod
    def _writer_class(ws):
        paths = {f.path for f, *_ in ws}
        if not paths:
            return None
        if 'perFile' in paths or 'driver' in paths:
            return 'perFile'
        if 'startup' in paths:
            return 'startup'
        return 'import'

    def _kind_for(self, mut, ws):
        wc = self._writer_class(ws)
        if wc == 'perFile':
            return 'perFileMutated'
        if wc == 'startup':
            return 'startupInit'
        if wc == 'import':
            return 'importRegistry'
        return 'constant' if mut == 'immutable' else 'importTable'

    def _module_names(self):
        sc = self.sc
        for m in sc.mods.values():
            bindings = {}
            for n in m.import_fn.nodes:
                if isinstance(n, (ast.Assign, ast.AnnAssign, ast.AugAssign)) and enclosing(n, (ast.ClassDef,)) is None:
                    targets = n.targets if isinstance(n, ast.Assign) else [n.target]
                    for t in targets:
                        for x in ast.walk(t):
                            if isinstance(x, ast.Name) and isinstance(x.ctx, ast.Store):
                                v = n.value
                                if isinstance(t, (ast.Tuple, ast.List)):
                                    v = ast.Name(id='<destructured>', ctx=ast.Load()) if not isinstance(n.value, (ast.Tuple, ast.List)) else None
                                    if v is None:
                                        try:
                                            v = n.value.elts[t.elts.index(x)]
                                        except (ValueError, IndexError):
                                            v = ast.Name(id='<destructured>', ctx=ast.Load())
                                bindings.setdefault(x.id, []).append((n, v))
                        if isinstance(t, ast.Attribute):
                            # attribute store at import time on something of this module (parse_jobs.__name__ = …)
                            root, attrs = chain_root(t)
                            if isinstance(root, ast.Name) and sc.resolve(m.import_fn, root.id)[0] != 'module':
                                self.sites.append({'key': f'{m.rel}:{m.text(t)}', 'kind': 'constant', 'writers': '',
                                                   'detail': 'attribute store at import time: ' + m.text(n, 70)})
                elif isinstance(n, (ast.For, ast.With)) and enclosing(n, (ast.ClassDef,)) is None:
                    tg = [n.target] if isinstance(n, ast.For) else [i.optional_vars for i in n.items if i.optional_vars is not None]
                    for t in tg:
                        for x in ast.walk(t):
                            if isinstance(x, ast.Name):
                                bindings.setdefault(x.id, []).append((n, ast.Name(id='<loop>', ctx=ast.Load())))
            for name, bs in sorted(bindings.items()):
                muts = {value_mutability(v) for _n, v in bs}
                mut = 'mutable' if 'mutable' in muts else ('opaque' if 'opaque' in muts else 'immutable')
                ws = self.gw.get((m.name, name), [])
                kind = self._kind_for(mut, ws)
                self.sites.append({'key': f'{m.rel}:{name}', 'kind': kind, 'writers': self._fmt_writers(ws),
                                   'detail': f'module-level {mut}: ' + ' | '.join(m.text(n, 60) for n, _v in bs[:2])})
            # writers of names that are not module-level bindings of that module (created by the write itself)
        for (modname, name), ws in sorted(self.gw.items()):
            m = sc.by_name.get(modname)
            if m is None:
                continue
            if any(s['key'] == f'{m.rel}:{name}' for s in self.sites):
                continue
            if name in m.globals and not any(isinstance(n, ast.Name) and n.id == name and isinstance(n.ctx, ast.Store) for n in m.import_fn.nodes):
                # a function or class object of the module used as a namespace
                pass
            kind = self._kind_for('mutable', ws)
            self.sites.append({'key': f'{m.rel}:{name}', 'kind': kind, 'writers': self._fmt_writers(ws), 'detail': 'written from a function'})

    def _class_attrs(self):
        sc = self.sc
        for cname, defs in sorted(sc.classes.items()):
            for m, cnode in defs:
                for st in cnode.body:
                    if isinstance(st, (ast.Assign, ast.AnnAssign)):
                        targets = st.targets if isinstance(st, ast.Assign) else [st.target]
                        for t in targets:
                            if not isinstance(t, ast.Name):
                                continue
                            mut = value_mutability(st.value)
                            ws = []
                            for f, what, via in self.cw.get(t.id, []):
                                if via == 'self':
                                    # mutation below self.X: counts when X is not (re)bound per instance in that class family
                                    if mut == 'immutable':
                                        continue
                                    if self._instance_bound(cname, t.id):
                                        continue
                                ws.append((f, what))
                            kind = self._kind_for(mut, ws)
                            fn = sc.fn_of(cnode)
                            if fn is not None and not fn.is_import:
                                # class defined inside a function: state of that call
                                if kind == 'perFileMutated' and fn.path != 'perFile':
                                    kind = 'startupInit'
                            self.sites.append({'key': f'{m.rel}:{cname}.{t.id}', 'kind': kind, 'writers': self._fmt_writers(ws),
                                               'detail': f'class-level {mut}: ' + m.text(st, 60)})

    def _instance_bound(self, cname, attr):
        """is `self.<attr> = …` executed in __init__ of the class (or a subclass / base by name)?"""
        sc = self.sc
        family = set(sc.class_closure(cname))
        for c in list(sc.classes):
            if cname in sc.class_closure(c):
                family.add(c)
        for f in sc.fns:
            if getattr(f, 'owner_class', None) in family and f.name == '__init__':
                for n in f.nodes:
                    if isinstance(n, ast.Attribute) and isinstance(n.ctx, ast.Store) and n.attr == attr and isinstance(n.value, ast.Name) and n.value.id == 'self':
                        return True
        return False

    def _defaults(self):
        sc = self.sc
        for f in sc.fns:
            if f.is_import or isinstance(f.node, ast.Lambda):
                continue
            a = f.node.args
            pos = a.posonlyargs + a.args
            pairs = list(zip(pos[len(pos) - len(a.defaults):], a.defaults)) + [(k, d) for k, d in zip(a.kwonlyargs, a.kw_defaults) if d is not None]
            for arg, d in pairs:
                if value_mutability(d) != 'mutable':
                    continue
                written = []
                for n in f.nodes:
                    tgt = sc._mutation_target(n)
                    if tgt is not None:
                        root, _ = chain_root(tgt)
                        if isinstance(root, ast.Name) and root.id == arg.arg:
                            written.append(f.mod.text(n, 60))
                    if isinstance(n, (ast.Return, ast.Yield)) and n.value is not None and any(isinstance(x, ast.Name) and x.id == arg.arg for x in ast.walk(n.value)):
                        written.append('escapes: ' + f.mod.text(n, 60))
                    if isinstance(n, ast.Assign) and any(isinstance(t, ast.Attribute) for t in n.targets) and isinstance(n.value, ast.Name) and n.value.id == arg.arg:
                        written.append('stored: ' + f.mod.text(n, 60))
                self.sites.append({'key': f'{f.key}:{arg.arg}=', 'kind': 'mutableDefaultWritten' if written else 'mutableDefaultUnwritten',
                                   'writers': '; '.join(written), 'detail': 'mutable default argument ' + f.mod.text(d, 40)})

    # ---- caches
    def _is_cache_decorator(self, d):
        dn = d.func if isinstance(d, ast.Call) else d
        name = dotted(dn) or ''
        return name.split('.')[-1] in ('lru_cache', 'cache', 'cached_property', 'memoize', 'memoized', 'memo')

    def impurities(self, f, depth=2, seen=None):
        """reasons why the value of function f is NOT determined by its arguments"""
        sc = self.sc
        seen = seen or set()
        if f in seen:
            return []
        seen.add(f)
        why = []
        if f.globals_decl:
            why.append('global/nonlocal ' + ','.join(sorted(f.globals_decl)))
        if f.params and f.params[0] in ('self', 'cls') and getattr(f, 'owner_class', None):
            why.append('method: the receiver is part of the key by identity/hash only')
        scopes = [f] + [g for g in sc.fns if g.parent is f]
        for g in scopes:
            for n in g.nodes:
                if isinstance(n, ast.Name) and isinstance(n.ctx, ast.Load):
                    kind, info = sc.resolve(g, n.id)
                    if kind == 'module':
                        top = info.split('.')[0]
                        if top in IMPURE_MODULES or n.id in IMPURE_MODULES:
                            # allowed: os.path pure helpers
                            par = parent(n)
                            d = dotted(par) if isinstance(par, ast.Attribute) else None
                            gp = parent(par) if par is not None else None
                            full = dotted(gp) if isinstance(gp, ast.Attribute) else d
                            if full and full.startswith(('os.path.join', 'os.path.normpath', 'os.path.basename', 'os.path.dirname', 'os.path.splitext', 'os.sep')):
                                continue
                            why.append(f'reads {full or n.id}')
                    elif kind == 'builtin' and n.id in IMPURE_BUILTINS:
                        why.append(f'calls {n.id}()')
                    elif kind == 'global':
                        key = f'{g.mod.rel}:{n.id}'
                        st = self._site_kind.get(key)
                        if st in ('perFileMutated', 'startupInit', 'unknown'):
                            why.append(f'reads mutable global {n.id} ({st})')
                        if depth > 0:
                            for h in sc.by_fname.get(n.id, []):
                                if h.mod is g.mod and not h.is_import and h.parent is None:
                                    why += [f'{h.name}: {w}' for w in self.impurities(h, depth - 1, seen)]
                    elif kind == 'symbol':
                        mod, sym = info
                        if mod.split('.')[0] in IMPURE_MODULES:
                            why.append(f'reads {mod}.{sym}')
        out = []
        for w in why:
            if w not in out:
                out.append(w)
        return out

    def _caches(self):
        sc = self.sc
        self._site_kind = {s['key']: s['kind'] for s in self.sites}
        for f in sc.fns:
            decs = [d for d in getattr(f.node, 'decorator_list', []) if self._is_cache_decorator(d)]
            if not decs:
                continue
            patches = [t for (g, _n, t, _v) in sc.patch_sites if g is f]
            nparams = len(f.params)
            why = self.impurities(f, depth=0 if (nparams == 0 and patches) else 2)
            if nparams == 0 and patches and not why:
                kind = 'onceInstaller'
                detail = 'zero-argument cached installer: ' + '; '.join(patches)
            elif why:
                kind = 'impureCache'
                detail = 'value not determined by the key: ' + '; '.join(why[:4])
            else:
                kind = 'pureCache'
                detail = f'{f.mod.text(decs[0], 50)} on a function of {nparams} argument(s) reading only its arguments, constants and import tables'
            self.sites.append({'key': f'{f.key}:@cache', 'kind': kind, 'writers': '', 'detail': detail})
        # hand-rolled memo tables are ordinary module-level dicts written from functions: covered by _module_names

    # ---- monkey patches
    def _patches(self):
        sc = self.sc
        done = set()
        for f, n, text, val in sc.patch_sites:
            key = f'{f.key}:{text}'
            if key in done:
                continue
            done.add(key)
            if f.path in ('import', 'startup'):
                kind = 'patchAtStartup'
            elif self._scoped(f, n):
                kind = 'scopedRedirect'
            else:
                kind = 'patchPerFile'
            self.sites.append({'key': key, 'kind': kind, 'writers': f'{f.qual}[{f.path}]', 'detail': 'write into a foreign module: ' + f.mod.text(n, 70)})

    def _scoped(self, f, n):
        """`orig = M.x … M.x = new … finally: M.x = orig` inside one function"""
        if not isinstance(n, ast.Assign):
            return False
        tgt_texts = {f.mod.text(t) for t in n.targets if isinstance(t, ast.Attribute)}
        saved = set()
        for x in f.nodes:
            if isinstance(x, ast.Assign) and isinstance(x.value, ast.Attribute) and f.mod.text(x.value) in tgt_texts:
                for t in x.targets:
                    for y in ast.walk(t):
                        if isinstance(y, ast.Name):
                            saved.add(y.id)
        if not saved:
            return False
        for x in f.nodes:
            if isinstance(x, ast.Try) and x.finalbody:
                for st in x.finalbody:
                    if isinstance(st, ast.Assign) and isinstance(st.value, ast.Name) and st.value.id in saved and \
                            any(f.mod.text(t) in tgt_texts for t in st.targets):
                        return True
        return False
