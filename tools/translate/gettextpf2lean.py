#!/usr/bin/env python3
"""gettextpf2lean: regenerate lean/I18n/Generated/GettextPf.lean from the CURRENT source of lib/gettext.py `parse_plural_forms`
(the first thing `check_plurals` does with a Plural-Forms value; property C07).  The keyword-only flag `strict` selects between two
result shapes, so the function is translated once per value of the flag (`parse_plural_forms_strict`, `parse_plural_forms_lax`:
the test `if strict:` is decided statically).  `Props/C07Tie.lean` proves both equal, for ALL strings, to the hand-written
`CheckPlurals.parsePluralFormsStrict` / `parsePluralForms`.  Statement layer: tools/translate/pytr.  Trusted base of this tie:

  the regex      `_parse_plural_forms` must be `re.compile(<the pinned pattern>).search`; a match object of `search(s)` is the model's
                 `CheckPlurals.search [] s = some (pre, g1, g2, post)` (the hand-written scanner for that pattern, itself tied to the
                 `re._parser` tree of the live pattern by C07's `header_regex_*` theorems and the research stream):
                 `match.group(1)` / `(2)` are g1 / g2, `s[:match.start()]` is pre, `s[match.end():]` is post,
                 `match.start() != 0` is `pre ≠ []`, `match.end() != len(s)` is `post ≠ []`   (pre ++ matched ++ post = s).
  int(g, 10)     for a numeral matched by `[1-9][0-9]*`: `ValueError` when the digit limit refuses it (`PluralParse.tooLong`), else
                 `CheckPlurals.digitsToNat`.
  parse_plural_expression(t)   the parser model of C04, `PluralParse.parse t`: a tree, `PluralExpressionSyntaxError` (a subclass of
                 `PluralFormsSyntaxError`: checked), or `ValueError`.
  raise PluralFormsSyntaxError   `.error .syntax`.

Anything else raises Untranslatable: exit 3, marker file that does not compile, dependent obligations broken.
"""
import ast, os, sys
sys.path.insert(0, os.path.dirname(os.path.abspath(__file__)))
from pytr import (Untranslatable, bad, lname, atom, render, bind, joinc, tuple_pat, Style, Stmts, _mangled)

def mk(*a): return tuple(a)
INT, BOOL, STR, NONE, MATCH, EXPR = mk('int'), mk('bool'), mk('str'), mk('none'), mk('match'), mk('expr')
def OPT(t): return t if t[0] == 'opt' else ('opt', t)
def TUP(*ts): return ('tuple',) + tuple(ts)

def lean_type(t):
    k = t[0]
    if k == 'int': return 'Nat'
    if k == 'bool': return 'Bool'
    if k == 'str': return 'List Char'
    if k == 'none': return 'Unit'
    if k == 'match': return '(List Char × List Char × List Char × List Char)'
    if k == 'expr': return 'Expr'
    if k == 'opt': return f'Option {atom(lean_type(t[1]))}'
    if k == 'tuple': return '(' + ' × '.join(lean_type(x) for x in t[1:]) + ')'
    raise Untranslatable(f'no Lean type for {t}')

def join(a, b, node=None):
    if a == b: return a
    bad(node, f'incompatible types {a} and {b}')
def coerce(text, frm, to, node=None):
    if frm == to: return text
    bad(node, f'cannot use a value of type {frm} where {to} is expected')
def tuple_type(types):
    if not types: return 'Unit'
    if len(types) == 1: return atom(lean_type(types[0]))
    return '(' + ' × '.join(lean_type(t) for t in types) + ')'
class Types:
    NONE, INT = NONE, INT
    join = staticmethod(join); coerce = staticmethod(coerce); tuple_type = staticmethod(tuple_type)

STYLE = Style('CheckPlurals.Py.PfErr', 'PyKit.tryExcept', 'PyKit.forRange')
PATTERN = r'nplurals=([1-9][0-9]*);[ \t]*plural=([^;]+);?'

class NoWrites(dict):
    def get(self, k, d=None): return False

class Fn(Stmts):
    T = Types
    EXC_ASSERT = '.error .value'
    CAUGHT = {}
    STATE = '#no-state'

    def __init__(self, unit, name, consts):
        self.u, self.name, self.writes = unit, name, False
        self.writes_map = NoWrites()
        self.ret_types, self.ret_type = None, None
        self.ntmp = 0
        self.consts = consts          # parameters with a statically known value

    def note(self, msg): self.u.dropped.add(msg)

    def ok(self, value_text, ty, env, node=None):
        if self.ret_types is not None:
            self.ret_types.append(ty)
            return ('raw', '.ok default')
        return ('raw', f'.ok {atom(coerce(value_text, ty, self.ret_type, node))}')

    def value(self, e, env, B):
        t, ty = self.expr(e, env, B)
        return 'pure', t, ty, False

    def raise_(self, s, env, B):
        x = s.exc
        if s.cause is None and isinstance(x, ast.Name) and x.id == 'PluralFormsSyntaxError' and self.u.errors_ok and x.id not in env:
            return '.error .syntax'
        bad(s, f'raise {ast.unparse(x) if x else ""}')

    def is_match(self, e, env):
        return isinstance(e, ast.Name) and env.get(e.id) == MATCH

    def match_call(self, e, env):
        """`m.start()` / `m.end()` -> ('start'|'end', m)"""
        if isinstance(e, ast.Call) and isinstance(e.func, ast.Attribute) and e.func.attr in ('start', 'end') and not e.args and not e.keywords and self.is_match(e.func.value, env):
            return e.func.attr, lname(e.func.value.id)
        return None

    def expr(self, e, env, B):
        if isinstance(e, ast.Constant):
            if e.value is None: return '()', NONE
            if isinstance(e.value, bool): return ('true' if e.value else 'false'), BOOL
            if isinstance(e.value, int) and e.value >= 0: return str(e.value), INT
            bad(e, f'literal {e.value!r}')
        if isinstance(e, ast.Name):
            if e.id in self.consts: return ('true' if self.consts[e.id] else 'false'), BOOL
            if e.id in env: return lname(e.id), env[e.id]
            bad(e, f'unknown name {e.id}')
        if isinstance(e, ast.Tuple):
            items = [self.expr(x, env, B) for x in e.elts]
            return '(' + ', '.join(t for t, _ in items) + ')', TUP(*[ty for _, ty in items])
        if isinstance(e, ast.Compare) and len(e.ops) == 1:
            op = type(e.ops[0]).__name__
            L, R = e.left, e.comparators[0]
            if op in ('Is', 'IsNot') and isinstance(R, ast.Constant) and R.value is None:
                lt, lty = self.expr(L, env, B)
                if lty[0] != 'opt': bad(e, 'is None on a non-optional')
                return (f'{lt}.isNone' if op == 'Is' else f'{lt}.isSome'), BOOL
            # match.start() != 0     match.end() != len(s)
            mc = self.match_call(L, env)
            if mc and op in ('NotEq', 'Eq'):
                which, m = mc
                if which == 'start' and isinstance(R, ast.Constant) and R.value == 0 and not isinstance(R.value, bool):
                    t = f'{m}.1.isEmpty'
                elif which == 'end' and isinstance(R, ast.Call) and isinstance(R.func, ast.Name) and R.func.id == 'len' and len(R.args) == 1 and \
                     isinstance(R.args[0], ast.Name) and R.args[0].id == self.u.subject.get(m):
                    t = f'{m}.2.2.2.isEmpty'
                else:
                    bad(e, 'comparison of a match position')
                return (f'(!{t})' if op == 'NotEq' else t), BOOL
            bad(e, f'comparison {ast.unparse(e)}')
        if isinstance(e, ast.Subscript) and isinstance(e.slice, ast.Slice) and isinstance(e.value, ast.Name) and e.slice.step is None:
            # s[:match.start()]   s[match.end():]   for the subject of the match
            s = e.value.id
            lo, hi = e.slice.lower, e.slice.upper
            if lo is None and hi is not None:
                mc = self.match_call(hi, env)
                if mc and mc[0] == 'start' and self.u.subject.get(mc[1]) == s: return f'{mc[1]}.1', STR
            if hi is None and lo is not None:
                mc = self.match_call(lo, env)
                if mc and mc[0] == 'end' and self.u.subject.get(mc[1]) == s: return f'{mc[1]}.2.2.2', STR
            bad(e, 'slice')
        if isinstance(e, ast.Call):
            f = e.func
            if isinstance(f, ast.Name) and f.id not in env:
                if f.id == '_parse_plural_forms' and self.u.regex_ok and len(e.args) == 1 and not e.keywords and isinstance(e.args[0], ast.Name) and env.get(e.args[0].id) == STR:
                    self.pending_subject = e.args[0].id
                    return f'(CheckPlurals.search [] {lname(e.args[0].id)})', OPT(MATCH)
                if f.id == 'int' and len(e.args) == 2 and not e.keywords and isinstance(e.args[1], ast.Constant) and e.args[1].value == 10:
                    g = self.group(e.args[0], env)
                    if g is None or g[1] != 1: bad(e, 'int() of something other than group 1 of the match')
                    return self.hoist(B, f'CheckPlurals.Py.intOfNumeral {g[0]}'), INT
                if f.id == 'parse_plural_expression' and self.u.expr_ok and len(e.args) == 1 and not e.keywords:
                    g = self.group(e.args[0], env)
                    if g is None: bad(e, 'parse_plural_expression of something other than a group of the match')
                    return self.hoist(B, f'CheckPlurals.Py.parseExpression {g[0]}'), EXPR
            bad(e, f'call {ast.unparse(e)[:50]}')
        bad(e, f'expression {type(e).__name__}')

    def group(self, e, env):
        if isinstance(e, ast.Call) and isinstance(e.func, ast.Attribute) and e.func.attr == 'group' and len(e.args) == 1 and not e.keywords and \
           isinstance(e.args[0], ast.Constant) and e.args[0].value in (1, 2) and self.is_match(e.func.value, env):
            m = lname(e.func.value.id)
            return (f'{m}.2.1' if e.args[0].value == 1 else f'{m}.2.2.1'), e.args[0].value
        return None

    def cond(self, e, env, B):
        t, ty = self.expr(e, env, B)
        if ty == BOOL: return t
        bad(e, f'truth value of {ty}')

    def assign(self, target, value, s, env, go):
        B = []
        self.pending_subject = None
        text, ty = self.expr(value, env, B)
        if not isinstance(target, ast.Name): bad(s, 'assignment target')
        x = target.id
        env2 = dict(env); env2[x] = ty
        if ty == OPT(MATCH) and self.pending_subject: self.u.subject[lname(x)] = self.pending_subject
        if B and getattr(B[-1], '__defaults__', None) and len(B[-1].__defaults__) == 2 and text == B[-1].__defaults__[0]:
            comp = B[-1].__defaults__[1]; B.pop()
            return self.wrap(B, bind(lname(x), comp, go(env2)))
        return self.wrap(B, ('let', lname(x), text, go(env2)))

    def call_stmt(self, c, s, env, go):
        bad(s, 'call statement')

    def if_(self, s, env, go, live):
        # `if strict:` for a statically known flag
        t, neg = s.test, False
        if isinstance(t, ast.UnaryOp) and isinstance(t.op, ast.Not): t, neg = t.operand, True
        if isinstance(t, ast.Name) and t.id in self.consts:
            v = self.consts[t.id]
            self.note(f'{self.name}: `if {ast.unparse(s.test)}:` with {t.id} = {v}: the other branch is dropped')
            return self.block(list(s.body if (v != neg) else s.orelse), env, go, live)
        return super().if_(s, env, go, live)

class Unit:
    def __init__(self, repo):
        self.tree = ast.parse(open(os.path.join(repo, 'lib', 'gettext.py'), encoding='utf-8').read())
        self.functions = {n.name: n for n in self.tree.body if isinstance(n, ast.FunctionDef)}
        classes = {n.name: n for n in self.tree.body if isinstance(n, ast.ClassDef)}
        assigns = {}
        for n in self.tree.body:
            if isinstance(n, ast.Assign) and len(n.targets) == 1 and isinstance(n.targets[0], ast.Name): assigns.setdefault(n.targets[0].id, []).append(n)
        for n in ast.walk(self.tree):
            if isinstance(n, (ast.Global, ast.Nonlocal)): bad(n, 'global / nonlocal')
        a = assigns.get('_parse_plural_forms', [])
        v = a[0].value if len(a) == 1 else None
        self.regex_ok = (isinstance(v, ast.Attribute) and v.attr == 'search' and isinstance(v.value, ast.Call) and ast.unparse(v.value.func) == 're.compile' and
                         len(v.value.args) == 1 and not v.value.keywords and isinstance(v.value.args[0], ast.Constant) and v.value.args[0].value == PATTERN)
        def plain_exc(name, base):
            c = classes.get(name)
            return c is not None and [ast.unparse(b) for b in c.bases] == [base] and all(isinstance(s, ast.Pass) for s in c.body) and not c.decorator_list
        self.errors_ok = plain_exc('PluralFormsSyntaxError', 'Exception') and plain_exc('PluralExpressionSyntaxError', 'PluralFormsSyntaxError')
        # parse_plural_expression: intexpr.Parser().parse(s), LexingError / ParsingError -> PluralExpressionSyntaxError
        f = self.functions.get('parse_plural_expression')
        want = ("def parse_plural_expression(s):\n    parser = intexpr.Parser()\n    try:\n        return parser.parse(s)\n    except intexpr.LexingError:\n"
                "        raise PluralExpressionSyntaxError\n    except intexpr.ParsingError:\n        raise PluralExpressionSyntaxError")
        self.expr_ok = f is not None and ast.unparse(f) == want and self.errors_ok
        self.dropped = set()
        self.subject = {}

def translate(u, strict):
    f = u.functions.get('parse_plural_forms')
    if f is None: raise Untranslatable('parse_plural_forms not found')
    a = f.args
    if f.decorator_list or a.vararg or a.kwarg or a.posonlyargs or a.defaults or len(a.args) != 1 or len(a.kwonlyargs) != 1 or \
       not (isinstance(a.kw_defaults[0], ast.Constant) and a.kw_defaults[0].value is True):
        bad(f, 'signature of parse_plural_forms')
    s, flag = a.args[0].arg, a.kwonlyargs[0].arg
    name = 'parse_plural_forms_strict' if strict else 'parse_plural_forms_lax'
    env = {s: STR}
    def run(probe, rt=None):
        fn = Fn(u, name, {flag: strict})
        if probe: fn.ret_types = []
        else: fn.ret_type = rt
        return fn, fn.block(list(f.body), dict(env), fn.fall_off, set())
    fn, _ = run(True)
    rt = None
    for t in fn.ret_types: rt = t if rt is None else join(rt, t, f)
    fn, tree = run(False, rt)
    want = TUP(INT, EXPR) if strict else TUP(INT, EXPR, STR, STR)
    if rt != want: raise Untranslatable(f'{name} returns {rt}')
    doc = f'`lib.gettext.parse_plural_forms(s, {flag}={strict})`'
    return f'/-- {doc} -/\ndef {name} ({lname(s)} : List Char) : Except CheckPlurals.Py.PfErr {lean_type(rt)} :=\n' + '\n'.join(render(tree, 1, STYLE)) + '\n'

HEADER = '''/-
GENERATED by tools/translate/gettextpf2lean.py from lib/gettext.py (`parse_plural_forms`, once per value of `strict`) — do not edit.
Regenerated from the repository's working tree on every check; `I18n/Props/C07Tie.lean` proves both definitions equal to the model
(`CheckPlurals.parsePluralFormsStrict`, `CheckPlurals.parsePluralForms`).
-/
import I18n.PyKit
import I18n.Model.CheckPluralsPy
set_option linter.unusedVariables false
namespace I18n.Generated.GettextPf
open I18n

'''

def generate(repo):
    _mangled.clear()
    u = Unit(repo)
    out = [HEADER, translate(u, True), translate(u, False)]
    out.append('/- Statements discharged statically by the translator:\n' + ''.join(f'  {d}\n' for d in sorted(u.dropped)) + '-/\n')
    out.append('end I18n.Generated.GettextPf\n')
    return '\n'.join(out)

def main():
    repo = sys.argv[1] if len(sys.argv) > 1 else '/repo'
    dest = sys.argv[2] if len(sys.argv) > 2 else os.path.join(os.path.dirname(os.path.abspath(__file__)), '..', '..', 'lean', 'I18n', 'Generated', 'GettextPf.lean')
    try:
        try:
            text = generate(repo)
        except (SyntaxError, KeyError, AttributeError, TypeError, IndexError, ValueError, AssertionError, RecursionError, OSError) as exc:
            raise Untranslatable(f'{type(exc).__name__} while translating: {exc}')
    except Untranslatable as exc:
        msg = str(exc).replace('"', "'").replace('\\', '/')
        text = HEADER + (f'-- UNTRANSLATABLE: {msg}\n'
                         '/-- deliberately does not compile: the current lib/gettext.py is outside the translator\'s subset (see above) -/\n'
                         'def untranslatable : Unit := the_current_source_of_parse_plural_forms_is_untranslatable\n'
                         'end I18n.Generated.GettextPf\n')
        print(f'untranslatable: {exc}', file=sys.stderr)
        old = open(dest, encoding='utf-8').read() if os.path.exists(dest) else None
        if old != text: open(dest, 'w', encoding='utf-8').write(text)
        sys.exit(3)
    old = open(dest, encoding='utf-8').read() if os.path.exists(dest) else None
    if old != text:
        open(dest, 'w', encoding='utf-8').write(text)
        print('changed')
    else:
        print('unchanged')

if __name__ == '__main__':
    main()
