"""py2lean: translate the integer/tuple subset of Python used by lib/intexpr.py into Lean 4.

The translation is semantic, statement by statement, in continuation style:

  return e                  ->  .ok e                       (`some e` / `none` for Optional results)
  v = e ; rest              ->  let v : T := e; rest
  if c: A else: B ; rest    ->  if c then [A; rest] else [B; rest]
  if v is None: A else: B   ->  match v with | none => [A; rest] | some v => [B; rest]   (flow typing)
  assert c ; rest           ->  if c then rest else .error .AssertionError
  raise OverflowError       ->  .error .Overflow
  a // b, a % b, f(...)     ->  hoisted:  match Py.floordiv a b with | .error e => .error e | .ok t => ...
  for a in <static 2-list>  ->  unrolled
  for y in <list param>     ->  Py.forLoop over the assigned variables
  while c: body             ->  Py.whileLoop with the variant given in VARIANTS (fuel), NonTermination beyond
  self._visit(node.f)       ->  recursive call on the sub-term
  self._visit(node.op, ..)  ->  generated dispatcher on the operator
  x is None with x non-optional -> statically False (branch dropped; `assert x is not None` dropped)

Anything else raises Untranslatable: the dependent obligations then count as broken.
"""
import ast

class Untranslatable(Exception):
    pass

INT, PAIR, OPT, BOOL, NODE, OP, SLIST, ILIST = 'int', 'pair', 'optpair', 'bool', 'node', 'op', 'slist', 'ilist'
LEAN_T = {INT: 'Int', PAIR: 'Int × Int', OPT: 'Option (Int × Int)', BOOL: 'Bool', ILIST: 'List Int'}

EXC = {'OverflowError': '.Overflow', 'NotImplementedError': '.NotImplemented', 'ZeroDivisionError': '.ZeroDivision',
       'ValueError': '.ValueError', 'TypeError': '.TypeError', 'AssertionError': '.AssertionError'}

BINOPS = ['Add', 'Sub', 'Mult', 'Div', 'Mod']
CMPOPS = ['Eq', 'NotEq', 'Lt', 'LtE', 'Gt', 'GtE']
BOOLOPS = ['And', 'Or']
UNOPS = ['Not']
OPKIND = {**{n: 'BinOp' for n in BINOPS}, **{n: 'CmpOp' for n in CMPOPS}, **{n: 'BoolOp' for n in BOOLOPS}, **{n: 'UnOp' for n in UNOPS}}

class V:
    """a translated value: Lean text and a type tag; `items` for static lists; `prop` marks Bool-typed Prop text"""
    def __init__(self, text, ty, items=None):
        self.text, self.ty, self.items = text, ty, items

def paren(s):
    s = s.strip()
    if s.replace('_', 'a').replace('.', 'a').isalnum():
        return s
    if s.startswith('(') and s.endswith(')'):
        depth = 0
        for i, ch in enumerate(s):
            depth += ch == '('
            depth -= ch == ')'
            if depth == 0 and i < len(s) - 1:
                break
        else:
            return s
    return '(' + s + ')'

class FuncTranslator:
    """translates one function/method body"""

    def __init__(self, unit, *, cls=None, rtype=INT, self_name='self'):
        self.unit = unit
        self.cls = cls          # ClassInfo or None
        self.rtype = rtype      # type of what `return` yields: INT, OPT, ...
        self.self_name = self_name
        self.counter = 0
        self.dropped = []       # statically discharged statements (recorded in the trusted base)

    def aux_name(self, kind):
        base = f"{self.fname}.loop_{kind}"
        k = self.unit.aux_names.get(base, 0)
        self.unit.aux_names[base] = k + 1
        return base if k == 0 else f'{base}{k + 1}'

    def fresh(self, base='t'):
        self.counter += 1
        return f'{base}{self.counter}'

    # ---------------------------------------------------------------- expressions

    def expr(self, node, env, hoists):
        """-> V.  `hoists` collects (tmpname, lean call text, type) for partial operations, in evaluation order."""
        if isinstance(node, ast.Constant):
            if node.value is None:
                return V('none', OPT)
            if isinstance(node.value, bool):
                return V('True' if node.value else 'False', BOOL)
            if isinstance(node.value, int):
                return V(str(node.value), INT)
            raise Untranslatable(f'constant {node.value!r}')
        if isinstance(node, ast.Name):
            if node.id not in env:
                raise Untranslatable(f'unbound name {node.id}')
            return env[node.id]
        if isinstance(node, ast.Tuple):
            if len(node.elts) != 2:
                raise Untranslatable('tuple of length != 2')
            a, b = (self.as_int(self.expr(e, env, hoists)) for e in node.elts)
            return V(f'({a.text}, {b.text})', PAIR)
        if isinstance(node, ast.Subscript):
            base = self.expr(node.value, env, hoists)
            idx = node.slice
            if base.ty == PAIR and isinstance(idx, ast.Constant) and idx.value in (0, 1):
                return V(f'{paren(base.text)}.{idx.value + 1}', INT)
            raise Untranslatable(f'subscript on {base.ty}')
        if isinstance(node, ast.BinOp):
            a = self.as_int(self.expr(node.left, env, hoists))
            b = self.as_int(self.expr(node.right, env, hoists))
            if isinstance(node.op, (ast.Add, ast.Sub, ast.Mult)):
                sym = {ast.Add: '+', ast.Sub: '-', ast.Mult: '*'}[type(node.op)]
                return V(f'{paren(a.text)} {sym} {paren(b.text)}', INT)
            if isinstance(node.op, ast.LShift):
                raise Untranslatable('<<')
            if isinstance(node.op, (ast.FloorDiv, ast.Mod)):
                fn = 'Py.floordiv' if isinstance(node.op, ast.FloorDiv) else 'Py.mod'
                t = self.fresh()
                hoists.append((t, f'{fn} {paren(a.text)} {paren(b.text)}', INT))
                return V(t, INT)
            raise Untranslatable(f'binary operator {type(node.op).__name__}')
        if isinstance(node, ast.Compare):
            return self.compare(node, env, hoists)
        if isinstance(node, ast.BoolOp):
            sym = ' ∧ ' if isinstance(node.op, ast.And) else ' ∨ '
            parts = []
            for i, v in enumerate(node.values):
                h = []
                parts.append(paren(self.as_prop(self.expr(v, env, h)).text))
                if h:
                    if i == 0:
                        hoists.extend(h)
                    else:
                        raise Untranslatable('partial operation under short-circuit operator')
            return V(sym.join(parts), BOOL)
        if isinstance(node, ast.UnaryOp) and isinstance(node.op, ast.Not):
            p = self.as_prop(self.expr(node.operand, env, hoists))
            return V(f'¬ {paren(p.text)}', BOOL)
        if isinstance(node, ast.UnaryOp) and isinstance(node.op, ast.USub):
            a = self.as_int(self.expr(node.operand, env, hoists))
            return V(f'- {paren(a.text)}', INT)
        if isinstance(node, ast.Attribute):
            return self.attribute(node, env, hoists)
        if isinstance(node, ast.Call):
            return self.call(node, env, hoists)
        raise Untranslatable(f'expression {type(node).__name__}')

    def as_int(self, v):
        if v.ty == INT:
            return v
        if v.ty == BOOL:  # Python bool in value position: True == 1, False == 0
            return V(f'Py.b2i (decide {paren(v.text)})', INT)
        raise Untranslatable(f'expected int, got {v.ty}')

    def as_prop(self, v):
        """truthiness"""
        if v.ty == BOOL:
            return v
        if v.ty == INT:
            return V(f'{paren(v.text)} ≠ 0', BOOL)
        raise Untranslatable(f'truthiness of {v.ty}')

    def compare(self, node, env, hoists):
        operands = [node.left] + node.comparators
        # x is None / x is not None
        if len(node.ops) == 1 and isinstance(node.ops[0], (ast.Is, ast.IsNot)):
            raise Untranslatable('`is` outside an if/assert test')
        vals = [self.expr(o, env, hoists) for o in operands]
        parts = []
        for op, a, b in zip(node.ops, vals, vals[1:]):
            if a.ty == PAIR or b.ty == PAIR:
                if not (a.ty == b.ty == PAIR) or not isinstance(op, (ast.Eq, ast.NotEq)):
                    raise Untranslatable('tuple comparison')
                sym = '=' if isinstance(op, ast.Eq) else '≠'
                parts.append(f'{paren(a.text)} {sym} {paren(b.text)}')
                continue
            a, b = self.as_int(a), self.as_int(b)
            sym = {ast.Eq: '=', ast.NotEq: '≠', ast.Lt: '<', ast.LtE: '≤', ast.Gt: '>', ast.GtE: '≥'}.get(type(op))
            if sym is None:
                raise Untranslatable(f'comparison {type(op).__name__}')
            # constant folding of literal comparisons (len(node.ops) != 1 etc.)
            parts.append(f'{paren(a.text)} {sym} {paren(b.text)}')
        return V(' ∧ '.join(parts), BOOL)

    def attribute(self, node, env, hoists):
        # self._ctxt.<name>
        if (isinstance(node.value, ast.Attribute) and isinstance(node.value.value, ast.Name)
                and node.value.value.id == self.self_name and node.value.attr == '_ctxt'):
            name = 'ctxt_' + node.attr
            if self.cls is None or name not in self.cls.ctx:
                raise Untranslatable(f'context attribute {node.attr}')
            return V(name, INT)
        base = self.expr(node.value, env, hoists)
        if base.ty == NODE:
            fields = getattr(base, 'fields', None)
            if fields is not None and node.attr in fields:
                return fields[node.attr]
            if node.attr == 'n':
                t = self.fresh('n_')
                hoists.append((t, f'Expr.attrN {paren(base.text)}', INT))
                return V(t, INT)
            raise Untranslatable(f'node attribute {node.attr}')
        raise Untranslatable(f'attribute {node.attr} of {base.ty}')

    def call(self, node, env, hoists):
        f = node.func
        if isinstance(f, ast.Name):
            if f.id in ('min', 'max'):
                args = [self.as_int(self.expr(a, env, hoists)) for a in node.args]
                if len(args) < 2:
                    raise Untranslatable('min/max arity')
                text = paren(args[0].text)
                for a in args[1:]:
                    text = f'({f.id} {text} {paren(a.text)})'
                return V(text, INT)
            if f.id == 'int' and len(node.args) == 1:
                return self.as_int(self.expr(node.args[0], env, hoists))
            if f.id == 'len' and len(node.args) == 1:
                v = self.expr(node.args[0], env, hoists)
                if v.ty == SLIST:
                    return V(str(len(v.items)), INT)
                raise Untranslatable('len of non-static list')
            if f.id == 'isinstance' and len(node.args) == 2:
                return self.isinstance_(node, env, hoists)
            if f.id in self.unit.functions:
                fi = self.unit.functions[f.id]
                args = []
                rest = None
                for a in node.args:
                    if isinstance(a, ast.Starred):
                        raise Untranslatable('starred argument')
                    args.append(self.as_int(self.expr(a, env, hoists)))
                npos = len(fi.params)
                if fi.vararg:
                    pos, rest = args[:npos], args[npos:]
                    text = f'{fi.lean_name} ' + ' '.join(paren(a.text) for a in pos) + ' [' + ', '.join(a.text for a in rest) + ']'
                else:
                    if len(args) != npos:
                        raise Untranslatable(f'arity of {f.id}')
                    text = f'{fi.lean_name} ' + ' '.join(paren(a.text) for a in args)
                t = self.fresh()
                hoists.append((t, text, INT))
                return V(t, INT)
            raise Untranslatable(f'call of {f.id}')
        if isinstance(f, ast.Attribute) and isinstance(f.value, ast.Name) and f.value.id == self.self_name:
            if f.attr == '_visit':
                return self.visit_call(node, env, hoists)
            # another method of the class, non-recursive helper (e.g. _check_overflow)
            m = self.cls.resolve(f.attr)
            if m is None:
                raise Untranslatable(f'unknown method {f.attr}')
            self.cls.need_helper(f.attr)
            args = [self.as_int(self.expr(a, env, hoists)) for a in node.args]
            t = self.fresh()
            hoists.append((t, f'{self.cls.lean_name}.{f.attr} {self.cls.ctx_args} ' + ' '.join(paren(a.text) for a in args), INT))
            return V(t, INT)
        raise Untranslatable('call')

    def isinstance_(self, node, env, hoists):
        obj = self.expr(node.args[0], env, hoists)
        cls = node.args[1]
        names = []
        for c in (cls.elts if isinstance(cls, ast.Tuple) else [cls]):
            if not (isinstance(c, ast.Attribute) and isinstance(c.value, ast.Name) and c.value.id == 'ast'):
                raise Untranslatable('isinstance class')
            names.append(c.attr)
        if obj.ty == NODE:
            tests = []
            for n in names:
                if n == 'Name':
                    tests.append(f'Expr.isName {paren(obj.text)} = true')
                elif n in ('Num', 'Constant'):
                    tests.append(f'Expr.isNum {paren(obj.text)} = true')
                else:
                    raise Untranslatable(f'isinstance(node, ast.{n})')
            return V(' ∨ '.join(tests), BOOL)
        if obj.ty == OP:
            tests = []
            for n in names:
                if n not in OPKIND or OPKIND[n] != obj.kind:
                    tests.append('False')
                else:
                    tests.append(f'{obj.text} = {OPKIND[n]}.{n.lower()}')
            return V(' ∨ '.join(tests), BOOL)
        raise Untranslatable('isinstance on value')

    def visit_call(self, node, env, hoists):
        args = node.args
        if len(args) == 1 and not isinstance(args[0], ast.Starred):
            target = self.expr(args[0], env, hoists)
            if target.ty != NODE:
                raise Untranslatable('_visit of non-node')
            t = self.fresh('v')
            hoists.append((t, f'{self.cls.lean_name}.visit {self.cls.ctx_args} {paren(target.text)}', self.cls.rtype))
            return V(t, self.cls.rtype)
        # self._visit(node.op, x, y) / self._visit(op, left, right) / self._visit(node.op, x)
        head = self.expr(args[0], env, hoists)
        if head.ty != OP:
            raise Untranslatable('_visit dispatch on non-operator')
        if any(isinstance(a, ast.Starred) for a in args[1:]):
            raise Untranslatable('starred dispatch in expression position')
        vals = [self.expr(a, env, hoists) for a in args[1:]]
        want = self.cls.vtype
        for v in vals:
            if v.ty != want:
                raise Untranslatable(f'dispatch argument of type {v.ty}, expected {want}')
        self.cls.need_dispatch(head.kind)
        t = self.fresh('v')
        hoists.append((t, f'{self.cls.lean_name}.dispatch_{head.kind} {self.cls.ctx_args} {head.text} ' + ' '.join(paren(v.text) for v in vals), self.cls.rtype))
        return V(t, self.cls.rtype)

    # ---------------------------------------------------------------- statements

    def wrap(self, hoists, body, ind):
        """emit nested matches for the hoisted partial operations around `body` (a function ind -> text)"""
        if not hoists:
            return body(ind)
        (t, call, _ty), rest = hoists[0], hoists[1:]
        pad = '  ' * ind
        return (f'{pad}match {call} with\n{pad}| .error e => .error e\n{pad}| .ok {t} =>\n'
                + self.wrap(rest, body, ind + 1))

    def ret(self, v):
        if self.rtype == OPT:
            if v is None:
                return '.ok none'
            if v.ty == OPT:
                return f'.ok {paren(v.text)}'
            if v.ty == PAIR:
                return f'.ok (some {paren(v.text)})'
            raise Untranslatable(f'return of {v.ty} from an Optional-pair method')
        if self.rtype == INT:
            if v is None:
                raise Untranslatable('bare return / fall-through in an int-valued method')
            v = self.as_int(v)
            return f'.ok {paren(v.text)}'
        raise Untranslatable('return type')

    def block(self, stmts, env, k, ind):
        """translate `stmts` then continue with k(env, ind) (fall-through continuation)"""
        if not stmts:
            return k(env, ind)
        s, rest = stmts[0], stmts[1:]
        pad = '  ' * ind
        cont = lambda env2, ind2: self.block(rest, env2, k, ind2)

        if isinstance(s, ast.Expr) and isinstance(s.value, ast.Constant):
            return cont(env, ind)                      # docstring
        if isinstance(s, ast.Pass):
            return cont(env, ind)
        if isinstance(s, ast.Return):
            hoists = []
            v = None if s.value is None else self.expr(s.value, env, hoists)
            # tail call: `return f(...)` where f already yields the method's result type
            if hoists and v is not None and v.text == hoists[-1][0] and v.ty == self.rtype == hoists[-1][2]:
                call = hoists[-1][1]
                return self.wrap(hoists[:-1], lambda i: '  ' * i + call + '\n', ind)
            return self.wrap(hoists, lambda i: '  ' * i + self.ret(v) + '\n', ind)
        if isinstance(s, ast.Raise):
            exc = s.exc
            name = exc.func.id if isinstance(exc, ast.Call) else getattr(exc, 'id', None)
            if name not in EXC:
                raise Untranslatable(f'raise {name}')
            return f'{pad}.error {EXC[name]}\n'
        if isinstance(s, ast.Assert):
            return self.if_(s.test, [], [ast.Raise(exc=ast.Name(id='AssertionError'))], env, cont, ind, is_assert=s)
        if isinstance(s, ast.If):
            return self.if_(s.test, s.body, s.orelse, env, cont, ind)
        if isinstance(s, ast.Assign):
            return self.assign(s.targets, s.value, env, cont, ind)
        if isinstance(s, ast.AugAssign):
            if not isinstance(s.target, ast.Name):
                raise Untranslatable('augmented assignment target')
            value = ast.BinOp(left=ast.Name(id=s.target.id), op=s.op, right=s.value)
            return self.assign([s.target], value, env, cont, ind)
        if isinstance(s, ast.For):
            return self.for_(s, env, cont, ind)
        if isinstance(s, ast.While):
            return self.while_(s, env, cont, ind)
        raise Untranslatable(f'statement {type(s).__name__}')

    def static_none_test(self, test, env):
        """`v is None` / `v is not None` -> (name, V, positive) or None"""
        if (isinstance(test, ast.Compare) and len(test.ops) == 1 and isinstance(test.ops[0], (ast.Is, ast.IsNot))
                and isinstance(test.comparators[0], ast.Constant) and test.comparators[0].value is None
                and isinstance(test.left, ast.Name)):
            v = env.get(test.left.id)
            if v is None:
                raise Untranslatable(f'unbound name {test.left.id}')
            return test.left.id, v, isinstance(test.ops[0], ast.Is)
        return None

    def fold(self, test, env):
        """static truth value of a test, or None"""
        if isinstance(test, ast.Compare) and len(test.ops) == 1:
            try:
                h = []
                a = self.expr(test.left, env, h)
                b = self.expr(test.comparators[0], env, h)
            except Untranslatable:
                return None
            if not h and a.ty == b.ty == INT and a.text.lstrip('-').isdigit() and b.text.lstrip('-').isdigit():
                x, y = int(a.text), int(b.text)
                op = type(test.ops[0])
                table = {ast.Eq: x == y, ast.NotEq: x != y, ast.Lt: x < y, ast.LtE: x <= y, ast.Gt: x > y, ast.GtE: x >= y}
                return table.get(op)
        return None

    def if_(self, test, body, orelse, env, cont, ind, is_assert=None):
        pad = '  ' * ind
        nt = self.static_none_test(test, env)
        if nt is not None:
            name, v, positive = nt
            then_b, else_b = (body, orelse) if positive else (orelse, body)   # then_b: v is None
            if v.ty in (INT, PAIR, NODE):
                self.dropped.append(ast.unparse(is_assert or ast.If(test=test, body=body or [ast.Pass()], orelse=[])))
                return self.block(else_b, env, cont, ind)          # never None
            if v.ty == OPT:
                if v.text == 'none':                                  # statically None
                    return self.block(then_b, env, cont, ind)
                env_some = dict(env)
                env_some[name] = V(name, PAIR)
                env_none = dict(env)
                env_none[name] = V('none', OPT)
                a = self.block(then_b, env_none, cont, ind + 1)
                b = self.block(else_b, env_some, cont, ind + 1)
                return f'{pad}match {v.text} with\n{pad}| none =>\n{a}{pad}| some {name} =>\n{b}'
            raise Untranslatable(f'`is None` on {v.ty}')
        folded = self.fold(test, env)
        if folded is not None:
            self.dropped.append(ast.unparse(is_assert or ast.If(test=test, body=body or [ast.Pass()], orelse=[])))
            return self.block(body if folded else orelse, env, cont, ind)
        hoists = []
        c = self.as_prop(self.expr(test, env, hoists))
        def emit(i):
            p = '  ' * i
            a = self.block(body, env, cont, i + 1)
            b = self.block(orelse, env, cont, i + 1)
            return f'{p}if {c.text} then\n{a}{p}else\n{b}'
        return self.wrap(hoists, emit, ind)

    def assign(self, targets, value, env, cont, ind):
        pad = '  ' * ind
        hoists = []
        # [op] = node.ops   (static list unpacking)
        if len(targets) == 1 and isinstance(targets[0], ast.List):
            v = self.expr(value, env, hoists)
            if v.ty != SLIST or len(v.items) != len(targets[0].elts) or hoists:
                raise Untranslatable('list unpacking')
            env2 = dict(env)
            for t, item in zip(targets[0].elts, v.items):
                env2[t.id] = item
            return cont(env2, ind)
        v = self.expr(value, env, hoists)
        def emit(i):
            p = '  ' * i
            env2 = dict(env)
            lines = ''
            for target in targets:           # x = y = None
                if isinstance(target, ast.Name):
                    if v.ty in (NODE, OP, SLIST):
                        env2[target.id] = v  # alias, keeps structural recursion visible
                    elif v.ty == OPT and v.text == 'none':
                        env2[target.id] = V('none', OPT)
                    else:
                        vv = v
                        ty = v.ty
                        text = v.text
                        if ty == BOOL:
                            text = f'decide {paren(v.text)}'
                        lines += f'{p}let {target.id} : {LEAN_T[ty]} := {text}\n'
                        env2[target.id] = V(f'{target.id} = true', BOOL) if ty == BOOL else V(target.id, ty)
                elif isinstance(target, ast.Tuple) and len(target.elts) == 2 and all(isinstance(e, ast.Name) for e in target.elts):
                    if v.ty != PAIR:
                        raise Untranslatable(f'tuple unpacking of {v.ty}')
                    tmp = self.fresh('p')
                    lines += f'{p}let {tmp} : Int × Int := {v.text}\n'
                    for j, e in enumerate(target.elts):
                        lines += f'{p}let {e.id} : Int := {tmp}.{j + 1}\n'
                        env2[e.id] = V(e.id, INT)
                else:
                    raise Untranslatable('assignment target')
            return lines + cont(env2, i)
        return self.wrap(hoists, emit, ind)

    def for_(self, s, env, cont, ind):
        if s.orelse or not isinstance(s.target, ast.Name):
            raise Untranslatable('for/else or structured target')
        it = self.expr(s.iter, env, [])
        if it.ty == SLIST:
            # unroll over the statically known operands
            def unroll(items, env_i, ind_i):
                if not items:
                    return cont(env_i, ind_i)
                env_j = dict(env_i)
                env_j[s.target.id] = items[0]
                return self.block(s.body, env_j, lambda e2, i2: unroll(items[1:], e2, i2), ind_i)
            return unroll(it.items, env, ind)
        if it.ty == ILIST:
            assigned = sorted({t.id for st in ast.walk(ast.Module(body=s.body, type_ignores=[]))
                               for t in ([st.target] if isinstance(st, ast.AugAssign) else
                                         st.targets if isinstance(st, ast.Assign) else []) if isinstance(t, ast.Name)})
            for st in ast.walk(ast.Module(body=s.body, type_ignores=[])):
                if isinstance(st, (ast.Return, ast.Break, ast.Continue)):
                    raise Untranslatable('early exit from a fold loop')
            if len(assigned) != 1 or env[assigned[0]].ty != INT:
                raise Untranslatable('fold loop state')
            st_name = assigned[0]
            pad = '  ' * ind
            env_b = dict(env)
            env_b[st_name] = V(st_name, INT)
            env_b[s.target.id] = V(s.target.id, INT)
            t = self.fresh('s')
            aux = self.aux_name('body')
            body = self.block(s.body, {st_name: V(st_name, INT), s.target.id: V(s.target.id, INT)},
                              lambda e2, i2: '  ' * i2 + f'.ok {e2[st_name].text}\n', 1)
            self.unit.aux.append(f'/-- body of the `for {s.target.id} in {ast.unparse(s.iter)}` loop of `{self.fname}` (state: `{st_name}`) -/\n'
                                 f'def {aux} ({st_name} : Int) ({s.target.id} : Int) : Except Py.Exc Int :=\n{body}')
            out = (f'{pad}match Py.forLoop {aux} {it.text} {env[st_name].text} with\n'
                   f'{pad}| .error e => .error e\n{pad}| .ok {t} =>\n{pad}  let {st_name} : Int := {t}\n')
            env2 = dict(env)
            env2[st_name] = V(st_name, INT)
            return out + cont(env2, ind + 1)
        raise Untranslatable(f'for over {it.ty}')

    def while_(self, s, env, cont, ind):
        if s.orelse:
            raise Untranslatable('while/else')
        variant = self.unit.variants.get(self.fname)
        if variant is None:
            raise Untranslatable(f'no variant declared for the while loop in {self.fname}')
        assigned = []
        for st in s.body:
            if isinstance(st, ast.Assign) and len(st.targets) == 1:
                tg = st.targets[0]
                names = [tg.id] if isinstance(tg, ast.Name) else [e.id for e in tg.elts]
                assigned += [n for n in names if n not in assigned]
            else:
                raise Untranslatable('while body statement')
        if len(assigned) != 2 or any(env[n].ty != INT for n in assigned):
            raise Untranslatable('while loop state must be two ints')
        a, b = assigned
        pad = '  ' * ind
        env_b = dict(env)
        env_b[a], env_b[b] = V(a, INT), V(b, INT)
        cond = self.as_prop(self.expr(s.test, env_b, []))
        # body: simultaneous assignment (x, y) = (e1, e2)
        saved = self.rtype
        self.rtype = None
        def fin(e2, i2):
            return '  ' * i2 + f'.ok ({e2[a].text}, {e2[b].text})\n'
        body = self.block_simul(s.body, {a: V(a, INT), b: V(b, INT)}, fin, 1)
        self.rtype = saved
        vtext = self.as_int(self.expr(ast.parse(variant, mode='eval').body, env, [])).text
        t = self.fresh('s')
        auxc, auxb = self.aux_name('cond'), self.aux_name('body')
        self.unit.aux.append(f'/-- condition of the `while {ast.unparse(s.test)}` loop of `{self.fname}` (state: `({a}, {b})`) -/\n'
                             f'def {auxc} (s : Int × Int) : Bool :=\n  let {a} : Int := s.1\n  let {b} : Int := s.2\n  decide {paren(cond.text)}\n')
        self.unit.aux.append(f'/-- body of the `while {ast.unparse(s.test)}` loop of `{self.fname}` -/\n'
                             f'def {auxb} (s : Int × Int) : Except Py.Exc (Int × Int) :=\n  let {a} : Int := s.1\n  let {b} : Int := s.2\n{body}')
        out = (f'{pad}match Py.whileLoop {auxc} {auxb} (Int.toNat {paren(vtext)} + 1) ({env[a].text}, {env[b].text}) with\n'
               f'{pad}| .error e => .error e\n{pad}| .ok {t} =>\n{pad}  let {a} : Int := {t}.1\n{pad}  let {b} : Int := {t}.2\n')
        env2 = dict(env)
        env2[a], env2[b] = V(a, INT), V(b, INT)
        return out + cont(env2, ind + 1)

    def block_simul(self, stmts, env, fin, ind):
        # Python evaluates the right-hand tuple before assigning: (x, y) = (y, x % y)
        if len(stmts) == 1 and isinstance(stmts[0], ast.Assign) and isinstance(stmts[0].targets[0], ast.Tuple) \
                and isinstance(stmts[0].value, ast.Tuple):
            tg, val = stmts[0].targets[0], stmts[0].value
            hoists = []
            vals = [self.as_int(self.expr(e, env, hoists)) for e in val.elts]
            def emit(i):
                p = '  ' * i
                tmps = [self.fresh('r') for _ in vals]
                lines = ''.join(f'{p}let {t} : Int := {v.text}\n' for t, v in zip(tmps, vals))
                env2 = dict(env)
                for e, t in zip(tg.elts, tmps):
                    env2[e.id] = V(t, INT)
                return lines + fin(env2, i)
            return self.wrap(hoists, emit, ind)
        return self.block(stmts, env, fin, ind)


class FunctionInfo:
    def __init__(self, node, lean_name):
        self.node = node
        self.lean_name = lean_name
        self.params = [a.arg for a in node.args.args]
        self.vararg = node.args.vararg.arg if node.args.vararg else None


class ClassInfo:
    def __init__(self, unit, name, lean_name, rtype, vtype, ctx):
        self.unit, self.name, self.lean_name, self.rtype, self.vtype, self.ctx = unit, name, lean_name, rtype, vtype, ctx
        self.helpers, self.dispatch = [], []

    @property
    def ctx_args(self):
        return ' '.join(self.ctx)

    def resolve(self, mname):
        for cname in self.unit.mro[self.name]:
            cdef = self.unit.classes[cname]
            for st in cdef.body:
                if isinstance(st, ast.FunctionDef) and st.name == mname:
                    return st
                # alias:  _visit_constant = _visit_num
                if isinstance(st, ast.Assign) and len(st.targets) == 1 and isinstance(st.targets[0], ast.Name) \
                        and st.targets[0].id == mname and isinstance(st.value, ast.Name):
                    return self.resolve_in(cname, st.value.id)
        return None

    def resolve_in(self, cname, mname):
        for st in self.unit.classes[cname].body:
            if isinstance(st, ast.FunctionDef) and st.name == mname:
                return st
        return None

    def need_helper(self, name):
        if name not in self.helpers:
            self.helpers.append(name)

    def need_dispatch(self, kind):
        if kind not in self.dispatch:
            self.dispatch.append(kind)


class Unit:
    """one Python module being translated"""
    def __init__(self, source, variants):
        self.tree = ast.parse(source)
        self.variants = variants
        self.classes = {st.name: st for st in self.tree.body if isinstance(st, ast.ClassDef)}
        self.mro = {}
        for name, c in self.classes.items():
            chain = [name]
            cur = c
            while cur.bases:
                b = cur.bases[0]
                if not isinstance(b, ast.Name) or b.id not in self.classes:
                    break
                chain.append(b.id)
                cur = self.classes[b.id]
            self.mro[name] = chain
        self.functions = {}
        self.dropped = []
        self.aux = []
        self.aux_names = {}

    def add_function(self, name, lean_name):
        node = next(st for st in self.tree.body if isinstance(st, ast.FunctionDef) and st.name == name)
        self.functions[name] = FunctionInfo(node, lean_name)

    def translate_function(self, name):
        fi = self.functions[name]
        ft = FuncTranslator(self, rtype=INT)
        ft.fname = name
        env = {p: V(p, INT) for p in fi.params}
        sig = ' '.join(f'({p} : Int)' for p in fi.params)
        if fi.vararg:
            env[fi.vararg] = V(fi.vararg, ILIST)
            sig += f' ({fi.vararg} : List Int)'
        body = ft.block(fi.node.body, env, lambda e, i: (_ for _ in ()).throw(Untranslatable('fall-through')), 1)
        self.dropped += [(name, d) for d in ft.dropped]
        aux = '\n'.join(self.aux)
        self.aux = []
        return aux + ('\n' if aux else '') + f'/-- `{name}` (lib/intexpr.py:{fi.node.lineno}) -/\ndef {fi.lean_name} {sig} : Except Py.Exc Int :=\n{body}'

    # ------------------------------------------------------------------ classes

    def translate_class(self, ci):
        out = []
        ctx_sig = ' '.join(f'({c} : Int)' for c in ci.ctx)
        rt = LEAN_T[ci.rtype]

        def fall(ft):
            def k(env, ind):
                return '  ' * ind + ft.ret(None) + '\n'
            return k

        arms = []
        def arm(pattern, mname, envf, prelude=''):
            m = ci.resolve(mname)
            if m is None:
                arms.append((pattern, '    .error .NotImplemented\n', mname, None))
                return
            ft = FuncTranslator(self, cls=ci, rtype=ci.rtype, self_name=m.args.args[0].arg)
            ft.fname = f'{ci.name}.{mname}'
            env = envf(m)
            body = ft.block(m.body, env, fall(ft), 2)
            self.dropped += [(ft.fname, d) for d in ft.dropped]
            arms.append((pattern, body, mname, m.lineno))

        def nodeV(text, fields=None):
            v = V(text, NODE)
            v.fields = fields
            return v
        def opV(text, kind):
            v = V(text, OP)
            v.kind = kind
            return v

        # Num / Constant: on this interpreter ast.Num(n) builds ast.Constant, whose visitor is `_visit_constant`
        def env_num(m):
            return {m.args.args[1].arg: nodeV('(Expr.num node_n)', {'n': V('node_n', INT)})}
        arm('.num node_n', '_visit_constant', env_num)
        arm('.name', '_visit_name', lambda m: {m.args.args[1].arg: nodeV('Expr.name', {})})
        arm('.unaryop node_op node_operand', '_visit_unaryop', lambda m: {m.args.args[1].arg: nodeV('_', {
            'op': opV('node_op', 'UnOp'), 'operand': nodeV('node_operand')})})
        arm('.binop node_left node_op node_right', '_visit_binop', lambda m: {m.args.args[1].arg: nodeV('_', {
            'op': opV('node_op', 'BinOp'), 'left': nodeV('node_left'), 'right': nodeV('node_right')})})
        arm('.compare node_left node_op node_right', '_visit_compare', lambda m: {m.args.args[1].arg: nodeV('_', {
            'left': nodeV('node_left'), 'ops': V('', SLIST, [opV('node_op', 'CmpOp')]),
            'comparators': V('', SLIST, [nodeV('node_right')])})})
        # BoolOp: either `return self._visit(node.op, *node.values)` (dispatch to recursive methods: inlined per operator)
        # or a method that handles node.values itself
        mb = ci.resolve('_visit_boolop')
        if mb is not None and self.is_boolop_dispatch(mb):
            for opname in BOOLOPS:
                def env_bool(m):
                    a = m.args
                    if a.vararg is None or len(a.args) != 2:
                        raise Untranslatable('boolean-operator method signature')
                    return {a.args[1].arg: nodeV('_', {}), a.vararg.arg: V('', SLIST, [nodeV('node_l'), nodeV('node_r')])}
                arm(f'.boolop .{opname.lower()} node_l node_r', '_visit_' + opname.lower(), env_bool)
        else:
            arm('.boolop node_op node_l node_r', '_visit_boolop', lambda m: {m.args.args[1].arg: nodeV('_', {
                'op': opV('node_op', 'BoolOp'), 'values': V('', SLIST, [nodeV('node_l'), nodeV('node_r')])})})
        arm('.ifexp node_test node_body node_orelse', '_visit_ifexp', lambda m: {m.args.args[1].arg: nodeV('_', {
            'test': nodeV('node_test'), 'body': nodeV('node_body'), 'orelse': nodeV('node_orelse')})})

        # helpers (non-recursive methods called as self.<name>(...))
        done = []
        helper_text = []
        while True:
            todo = [h for h in ci.helpers if h not in done]
            if not todo:
                break
            for h in todo:
                done.append(h)
                m = ci.resolve(h)
                ft = FuncTranslator(self, cls=ci, rtype=INT, self_name=m.args.args[0].arg)
                ft.fname = f'{ci.name}.{h}'
                params = [a.arg for a in m.args.args[1:]]
                env = {p: V(p, INT) for p in params}
                body = ft.block(m.body, env, lambda e, i: (_ for _ in ()).throw(Untranslatable('fall-through')), 1)
                sig = ' '.join(f'({p} : Int)' for p in params)
                helper_text.append(f'/-- `{ci.name}.{h}` (lib/intexpr.py:{m.lineno}) -/\ndef {ci.lean_name}.{h} {ctx_sig} {sig} : Except Py.Exc Int :=\n{body}')

        # leaf methods + dispatchers
        leaf_text = []
        disp_text = []
        for kind in ci.dispatch:
            names = {'BinOp': BINOPS, 'CmpOp': CMPOPS, 'UnOp': UNOPS}[kind]
            arity = 1 if kind == 'UnOp' else 2
            vt = LEAN_T[ci.vtype]
            lines = []
            for n in names:
                mname = '_visit_' + n.lower()
                m = ci.resolve(mname)
                if m is None:
                    lines.append(f'  | .{n.lower()}' + ', _' * arity + ' => .error .NotImplemented\n')
                    continue
                params = [a.arg for a in m.args.args[2:]]
                if len(params) != arity:
                    raise Untranslatable(f'arity of {mname}')
                ft = FuncTranslator(self, cls=ci, rtype=ci.rtype, self_name=m.args.args[0].arg)
                ft.fname = f'{ci.name}.{mname}'
                env = {p: V(p, ci.vtype) for p in params}
                env[m.args.args[1].arg] = V('_', NODE)
                body = ft.block(m.body, env, fall(ft), 1)
                self.dropped += [(ft.fname, d) for d in ft.dropped]
                sig = ' '.join(f'({p} : {vt})' for p in params)
                leaf_text.append(f'/-- `{ci.name}.{mname}` (lib/intexpr.py:{m.lineno}) -/\ndef {ci.lean_name}.{mname} {ctx_sig} {sig} : Except Py.Exc ({rt}) :=\n{body}')
                lines.append(f'  | .{n.lower()}, ' + ', '.join(params) + f' => {ci.lean_name}.{mname} {ci.ctx_args} ' + ' '.join(params) + '\n')
            sigv = ' → '.join([kind] + [vt] * arity)
            disp_text.append(f'/-- `self._visit(op, …)`: `getattr(self, "_visit_" + type(op).__name__.lower())` over `{kind}` -/\n'
                             f'def {ci.lean_name}.dispatch_{kind} {ctx_sig} : {sigv} → Except Py.Exc ({rt})\n' + ''.join(lines))
        # helpers discovered while translating leaves
        todo = [h for h in ci.helpers if h not in done]
        for h in todo:
            m = ci.resolve(h)
            ft = FuncTranslator(self, cls=ci, rtype=INT, self_name=m.args.args[0].arg)
            ft.fname = f'{ci.name}.{h}'
            params = [a.arg for a in m.args.args[1:]]
            env = {p: V(p, INT) for p in params}
            body = ft.block(m.body, env, lambda e, i: (_ for _ in ()).throw(Untranslatable('fall-through')), 1)
            sig = ' '.join(f'({p} : Int)' for p in params)
            helper_text.append(f'/-- `{ci.name}.{h}` (lib/intexpr.py:{m.lineno}) -/\ndef {ci.lean_name}.{h} {ctx_sig} {sig} : Except Py.Exc Int :=\n{body}')

        visit = (f'/-- `{ci.name}`: `_visit` on each node type (method bodies inlined per constructor) -/\n'
                 f'def {ci.lean_name}.visit {ctx_sig} : Expr → Except Py.Exc ({rt})\n')
        for pattern, body, mname, lineno in arms:
            visit += f'  -- {mname}' + (f' (lib/intexpr.py:{lineno})' if lineno else ' (absent)') + f'\n  | {pattern} =>\n{body}'
        return '\n'.join(helper_text + leaf_text + disp_text + [visit])

    @staticmethod
    def is_boolop_dispatch(m):
        body = [s for s in m.body if not (isinstance(s, ast.Expr) and isinstance(s.value, ast.Constant))]
        if len(body) != 1 or not isinstance(body[0], ast.Return):
            return False
        c = body[0].value
        return (isinstance(c, ast.Call) and isinstance(c.func, ast.Attribute) and c.func.attr == '_visit'
                and len(c.args) == 2 and isinstance(c.args[1], ast.Starred))
