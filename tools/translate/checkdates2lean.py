#!/usr/bin/env python3
"""checkdates2lean: regenerate lean/I18n/Generated/CheckDates.lean from the CURRENT source of lib/check/__init__.py:

  Checker.check_dates(self, ctx)

(the date verdicts of property C18: which of the five date tags a header gets).  `Props/C18Tie.lean` proves the regenerated method
equal, for ALL contexts, to the hand-written model the theorems of C18 are about (`Date.checkDates`).  It calls the regenerated
`fix_date_format` / `parse_date` of `Generated/GettextDate.lean` (tools/translate/gettextdate2lean.py).  Statement layer:
tools/translate/pytr (core + objfn; `continue`, `try / except / except / else` with handlers in tail position).
What is specific here — the trusted base of this part of the tie (kit: lean/I18n/Model/DatePy.lean, namespace `I18n.Date.Py`):

  ctx            the record `Date.Ctx`: `ctx.metadata[k]` (a `defaultdict(list)`) is `Py.metadataGet ctx k` — the values of `Content-Type`,
                 `POT-Creation-Date`, `PO-Revision-Date` the model carries, `[]` for any other key; `ctx.is_binary`, `ctx.is_template` the
                 fields; `misc.utc_now()` is `Py.utcNow ctx` (the clock is an INPUT, carried in the model's `Ctx.now`, in µs).
  self.tag       `self.tag(name, *args)` appends `⟨name, args⟩` to the output (`Date.Tag`); `tags.safestr(x)` is `.safe x`, a plain str `.str x`.
  datetimes      the result of `gettext.parse_date` is a `Date.Stamp`; `stamp > misc.utc_now()` is `Py.stampAfter`, `stamp < gettext.epoch` is
                 `Py.stampBeforeEpoch` (aware comparison = comparison of the instants, in µs; `epoch` as dumped by date2lean.py).
  str            `s.startswith(p)` is `Py.startswith` (`Date.stripPre`), `'T' in date` character membership, `sorted(set(xs))` is
                 `Date.sortedSet`, `xs[0]` is `Py.listFirst` (`IndexError` for `[]`), `gettext.boilerplate_date` the dumped constant.
  exceptions     `except gettext.BoilerplateDate` / `except gettext.DateSyntaxError` / `except IndexError` are predicates on `Py.DErr`
                 (`BoilerplateDate` is a `DateSyntaxError`: the first matching clause handles it).
  decorator      `@checks_header_fields(…)` returns the function unchanged (its source is pinned here).

Anything else raises Untranslatable: exit 3, marker file that does not compile, dependent obligations broken.
"""
import ast, os, sys
sys.path.insert(0, os.path.dirname(os.path.abspath(__file__)))
from pytr import Untranslatable, bad, lname, atom, Style, _mangled
from pytr.objfn import (TypeSys, Unit, ObjFn, ObjStyle, Sig, translate, INT, BOOL, STR, NONE, CHAR, OPT, TUP, LIST, REC, chars, char_lit)

CTX = REC('Ctx')
STAMP, ARGV, META, NOW, TAGS = ('stamp',), ('argv',), ('meta',), ('now',), ('tags',)
K = 'I18n.Date.Py'
T = TypeSys(simple={'stamp': 'Date.Stamp', 'argv': 'Date.Arg', 'meta': 'Unit', 'now': 'Int', 'tags': 'List Date.Tag'}, recs={'Ctx': 'Date.Ctx', 'Checker': 'List Date.Tag'})
STYLE = ObjStyle('Date.Py.DErr', 'PyKit.tryExcept', 'PyKit.forRange', binds=True)
DECORATOR = ("def checks_header_fields(*fields):\n\n    def identity(x):\n        return x\n    header_fields_with_dedicated_checks.update(fields)\n    return identity")
CAUGHT = {'gettext.BoilerplateDate': f'{K}.isBoilerplate', 'gettext.DateSyntaxError': f'{K}.isDateSyntaxError', 'IndexError': f'{K}.isIndexError'}

class Fn(ObjFn):
    EXC_ASSERT = '.error .assertion'
    CAUGHT = CAUGHT
    STATE_L = 'out'
    DUPLICATE_ON_RETURN = True      # `continue` on some paths of a branch: the rest of the loop body is translated once per branch

    def raise_(self, s, env, B):
        bad(s, f'raise {ast.unparse(s.exc) if s.exc else ""}')

    def expr(self, e, env, B):
        if isinstance(e, ast.Attribute) and isinstance(e.value, ast.Name) and e.value.id not in env:
            m, a = e.value.id, e.attr
            if m == 'gettext' and a == 'boilerplate_date' and self.u.imports.get('gettext') == 'lib.gettext': return 'I18n.Generated.DateTables.boilerplateDate', STR
            if m == 'gettext' and a == 'epoch' and self.u.imports.get('gettext') == 'lib.gettext': return '()', ('epoch',)
        if isinstance(e, ast.Attribute) and isinstance(e.value, ast.Name) and env.get(e.value.id) == CTX and e.attr == 'metadata':
            return lname(e.value.id), META
        if isinstance(e, ast.Tuple) and e.elts and all(isinstance(x, ast.Constant) and isinstance(x.value, str) for x in e.elts):
            return '[' + ', '.join(chars(x.value) for x in e.elts) + ']', LIST(STR)          # a tuple of str literals, only iterated over
        return super().expr(e, env, B)

    def subscript(self, e, env, B):
        if isinstance(e.slice, ast.Slice): bad(e, 'slice')
        t, ty = self.expr(e.value, env, B)
        if ty == META:
            k, kty = self.expr(e.slice, env, B)
            if kty != STR: bad(e, f'metadata[…] with a key of type {kty}')
            return f'({K}.metadataGet {atom(t)} {atom(k)})', LIST(STR)
        if ty[0] == 'list' and isinstance(e.slice, ast.Constant) and e.slice.value == 0 and not isinstance(e.slice.value, bool):
            return self.hoist(B, f'{K}.listFirst {atom(t)}'), ty[1]
        bad(e, f'subscript {ast.unparse(e)[:40]}')

    def compare(self, e, env, B):
        if len(e.ops) == 1 and isinstance(e.ops[0], (ast.Gt, ast.Lt)):
            lt, lty = self.expr(e.left, env, B)
            rt, rty = self.expr(e.comparators[0], env, B)
            if lty == STAMP and rty == NOW and isinstance(e.ops[0], ast.Gt): return f'({K}.stampAfter {atom(lt)} {atom(rt)})', BOOL
            if lty == STAMP and rty == ('epoch',) and isinstance(e.ops[0], ast.Lt): return f'({K}.stampBeforeEpoch {atom(lt)})', BOOL
            if lty == STAMP or rty == STAMP: bad(e, 'comparison of a datetime')
        return super().compare(e, env, B)

    def prim_call(self, e, env, B):
        f = e.func
        name = ast.unparse(f)
        if e.keywords and name != 'gettext.fix_date_format': bad(e, f'call {ast.unparse(e)[:60]}')
        imp = self.u.imports
        if name == 'misc.utc_now' and imp.get('misc') == 'lib.misc' and 'misc' not in env and not e.args:
            return f'({K}.utcNow {self.u.ctx_name})', NOW
        if name == 'tags.safestr' and imp.get('tags') == 'lib.tags' and 'tags' not in env and len(e.args) == 1:
            t, ty = self.expr(e.args[0], env, B)
            if ty == STR: return f'(Date.Arg.safe {atom(t)})', ARGV
        if name == 'gettext.parse_date' and imp.get('gettext') == 'lib.gettext' and 'gettext' not in env and len(e.args) == 1:
            t, ty = self.expr(e.args[0], env, B)
            if ty == STR: return self.hoist(B, f'I18n.Generated.GettextDate.parse_date {atom(t)}'), STAMP
        if name == 'gettext.fix_date_format' and imp.get('gettext') == 'lib.gettext' and 'gettext' not in env and len(e.args) == 1 and \
           [k.arg for k in e.keywords] == ['tz_hint']:
            t, ty = self.expr(e.args[0], env, B)
            h, hty = self.expr(e.keywords[0].value, env, B)
            if ty == STR: return self.hoist(B, f'I18n.Generated.GettextDate.fix_date_format {atom(t)} {atom(self.T.coerce(h, hty, OPT(STR), e))}'), STR
        if isinstance(f, ast.Name) and f.id not in env:
            if f.id == 'sorted' and len(e.args) == 1 and isinstance(e.args[0], ast.Call) and isinstance(e.args[0].func, ast.Name) and e.args[0].func.id == 'set' and \
               len(e.args[0].args) == 1 and not e.args[0].keywords:
                t, ty = self.expr(e.args[0].args[0], env, B)
                if ty == LIST(STR): return f'(Date.sortedSet {atom(t)})', LIST(STR)
        if isinstance(f, ast.Attribute) and f.attr == 'startswith' and len(e.args) == 1:
            t, ty = self.expr(f.value, env, B)
            p, pty = self.expr(e.args[0], env, B)
            if ty == STR and pty == STR: return f'({K}.startswith {atom(t)} {atom(p)})', BOOL
        bad(e, f'call {ast.unparse(e)[:60]}')

    def call(self, e, env, B):
        f = e.func
        if isinstance(f, ast.Attribute) and isinstance(f.value, ast.Name) and f.value.id in env and env[f.value.id][0] != 'rec':
            return self.prim_call(e, env, B)
        return super().call(e, env, B)

    def tag_arg(self, a, env, B):
        t, ty = self.expr(a, env, B)
        if ty == ARGV: return t
        if ty == STR: return f'(Date.Arg.str {atom(t)})'
        bad(a, f'tag argument of type {ty}')

    def call_stmt(self, c, s, env, go):
        f = c.func
        if isinstance(f, ast.Attribute) and isinstance(f.value, ast.Name) and f.value.id == self.STATE and f.attr == 'tag' and self.writes:
            if c.keywords or not c.args or any(isinstance(a, ast.Starred) for a in c.args): bad(s, 'self.tag arguments')
            n = c.args[0]
            if not (isinstance(n, ast.Constant) and isinstance(n.value, str) and n.value.isascii() and '"' not in n.value and '\\' not in n.value): bad(s, 'tag name is not a literal')
            B = []
            extras = [self.tag_arg(a, env, B) for a in c.args[1:]]
            return self.wrap(B, ('let', 'out', f'out ++ [⟨"{n.value}", [' + ', '.join(extras) + ']⟩]', go(env)))
        bad(s, f'call statement {ast.unparse(c)[:60]}')

class CDUnit(Unit):
    def __init__(self, repo):
        super().__init__(T)
        self.tree = ast.parse(open(os.path.join(repo, 'lib', 'check', '__init__.py'), encoding='utf-8').read())
        body = self.tree.body
        self.imports = {}
        for n in body:
            if isinstance(n, ast.Import):
                for a in n.names: self.imports[a.asname or a.name] = a.name
            elif isinstance(n, ast.ImportFrom):
                for a in n.names: self.imports[a.asname or a.name] = f'{n.module}.{a.name}'
        stores = {}
        for n in ast.walk(self.tree):
            if isinstance(n, ast.Name) and isinstance(n.ctx, (ast.Store, ast.Del)): stores[n.id] = stores.get(n.id, 0) + 1
        for name in ('gettext', 'misc', 'tags', 'sorted', 'set', 'len', 'checks_header_fields'):
            if stores.get(name, 0) > 0: raise Untranslatable(f'{name} is re-bound')
        dec = [n for n in body if isinstance(n, ast.FunctionDef) and n.name == 'checks_header_fields']
        self.decorator_ok = len(dec) == 1 and ast.unparse(dec[0]) == DECORATOR
        cls = [n for n in body if isinstance(n, ast.ClassDef) and n.name == 'Checker']
        if len(cls) != 1: raise Untranslatable('class Checker not found')
        ms = [n for n in cls[0].body if isinstance(n, ast.FunctionDef) and n.name == 'check_dates']
        if len(ms) != 1: raise Untranslatable('Checker.check_dates not found (exactly once)')
        self.fnode = ms[0]
        for m in cls[0].body:
            if isinstance(m, ast.FunctionDef) and m.name in ('__getattr__', '__getattribute__', '__setattr__'): raise Untranslatable(f'Checker.{m.name} is defined')
        self.records['Ctx'] = {'is_binary': ('isBinary', BOOL), 'is_template': ('isTemplate', BOOL)}
        self.records['Checker'] = {}
        self.ctx_name = 'ctx'

    def helper_def(self, rec, name):
        return None

def generate(repo):
    _mangled.clear()
    u = CDUnit(repo)
    f = u.fnode
    d = f.decorator_list
    if not (len(d) == 1 and isinstance(d[0], ast.Call) and isinstance(d[0].func, ast.Name) and d[0].func.id == 'checks_header_fields' and u.decorator_ok and
            all(isinstance(a, ast.Constant) for a in d[0].args) and not d[0].keywords):
        bad(f, 'decorator of check_dates')
    if [a.arg for a in f.args.args] != ['self', 'ctx']: bad(f, 'signature of check_dates')
    node = ast.FunctionDef(name=f.name, args=f.args, body=f.body, decorator_list=[], returns=None, type_params=[])
    ast.copy_location(node, f); ast.fix_missing_locations(node)
    u.ctx_name = lname('ctx')
    sig = Sig('check_dates', [('ctx', CTX, False)], node, rec='Checker', writes=True)
    text = translate(u, 'Checker', sig, '`lib.check.Checker.check_dates(self, ctx)`: the tags appended to `out`, in emission order', STYLE, fn_class=Fn, state_name='out')
    if sig.ret != NONE: raise Untranslatable(f'check_dates returns {sig.ret}')
    out = [HEADER, text]
    out.append('/- Statements discharged statically by the translator:\n' + ''.join(f'  {d}\n' for d in sorted(u.dropped)) + '-/\n')
    out.append('end I18n.Generated.CheckDates\n')
    return '\n'.join(out)

HEADER = '''/-
GENERATED by tools/translate/checkdates2lean.py from lib/check/__init__.py (`Checker.check_dates`) — do not edit.
Regenerated from the repository's working tree on every check; `I18n/Props/C18Tie.lean` proves the definition equal to the model the
theorems of C18 are about (`Date.checkDates`).
-/
import I18n.PyKit
import I18n.Generated.GettextDate
set_option linter.unusedVariables false
namespace I18n.Generated.CheckDates
open I18n

'''

def main():
    repo = sys.argv[1] if len(sys.argv) > 1 else '/repo'
    dest = sys.argv[2] if len(sys.argv) > 2 else os.path.join(os.path.dirname(os.path.abspath(__file__)), '..', '..', 'lean', 'I18n', 'Generated', 'CheckDates.lean')
    try:
        try:
            text = generate(repo)
        except (SyntaxError, KeyError, AttributeError, TypeError, IndexError, ValueError, AssertionError, RecursionError, OSError, StopIteration) as exc:
            raise Untranslatable(f'{type(exc).__name__} while translating: {exc}')
    except Untranslatable as exc:
        msg = str(exc).replace('"', "'").replace('\\', '/')
        text = HEADER + (f'-- UNTRANSLATABLE: {msg}\n'
                         '/-- deliberately does not compile: the current lib/check/__init__.py is outside the translator\'s subset (see above) -/\n'
                         'def untranslatable : Unit := the_current_source_of_check_dates_is_untranslatable\n'
                         'end I18n.Generated.CheckDates\n')
        print(f'untranslatable: {exc}', file=sys.stderr)
        old = open(dest, encoding='utf-8').read() if os.path.exists(dest) else None
        if old != text: open(dest, 'w', encoding='utf-8').write(text)
        sys.exit(3)
    old = open(dest, encoding='utf-8').read() if os.path.exists(dest) else None
    if old != text:
        open(dest, 'w', encoding='utf-8').write(text)
        print('changed')
    else:
        print('unchanged')

if __name__ == '__main__':
    main()
