#!/usr/bin/env python3
"""iconv2lean: regenerate lean/I18n/Generated/IconvDl.lean from the CURRENT source of lib/iconv.py:

    _decode_dl, _encode_dl        the ctypes binding to iconv(3): open, the retry loop (buffer sizes, reset / convert / flush calls,
                                  doubling on E2BIG, error spans, the asserts), close in `finally`
    decode, encode                the public wrappers (argument checks, empty input, `errors`), calling `_decode` / `_encode`
                                  (= the `_dl` functions when libc has iconv: checked on the module-level assignment)

`Props/C20Tie.lean` proves the regenerated definitions equal, for ALL inputs and ALL iconv behaviours, to the hand-written loop model
of `Model/Charset.lean` (`decodeDl`, `encodeDl`) that the iconv theorems of C20 are about.  Statement layer: tools/translate/pytr
(+ pytr/whileloop.py: `while True:` as a fuel-recursive function, search loops, try/finally).  The target kit is
`Model/CharsetPy.lean` (namespace `I18n.Charset.Py`); its header states what each ctypes operation is taken to be — the trusted base.
What the translator itself decides (also trusted):

  module level   `_iconv_open / _iconv_close / _iconv` must be the attributes `iconv_open / iconv_close / iconv` of
                 `ctypes.CDLL(None, use_errno=True)` with the declared argtypes/restype; `_decode = _decode_dl if _iconv is not None
                 else _decode_cli` (same for encode): the `_dl` branch is taken (libc has iconv).
  the world      every call of the three C functions takes and returns the ghost variable `w_` (errno, descriptor state, the log of
                 (allocated, told)); `ctypes.get_errno()` reads it; every `raise` carries it.
  pointers       `c_char_p(b)`, `cast(x, POINTER(c_char))`, `pointer(p)`: a pointer to input bytes is the bytes; a pointer to an
                 output buffer is the buffer variable it was made from (refused once something has been written through it);
                 `byref(cell)` is the cell: the `_iconv` call rebinds the cells and the buffer it is given.
  constants      a local assigned once from an int / str literal is folded (`uwidth`, `uencoding`); `bytes(x, 'ASCII')` of a charset
                 name is the name (it is ASCII); `bytes(input, encoding='UTF-32LE')` is `Py.utf32le` (no lone surrogates);
                 `isinstance(cd, int)` holds (iconv_open does not return NULL); `isinstance` of a parameter is decided by its type.
  the reset call selects the model's round by the out-count cell of the same loop iteration (see the kit's header).

Anything else raises Untranslatable: exit 3, marker file that does not compile, dependent obligations broken.
"""
import ast, os, sys
sys.path.insert(0, os.path.dirname(os.path.abspath(__file__)))
from pytr import (Untranslatable, bad, lname, atom, render, bind, joinc, tuple_pat, Style, Stmts, _mangled, assigned_names, read_names)
from pytr.whileloop import WhileLoops, render_extra

def mk(*a): return tuple(a)
INT, BOOL, BYTES, STR, NONE, RC, ERRNO, CD, NAME, WORLD, CELL, INPTR, ICONV = (mk('int'), mk('bool'), mk('bytes'), mk('str'), mk('none'), mk('rc'),
    mk('errno'), mk('cd'), mk('name'), mk('world'), mk('cell'), mk('inptr'), mk('iconv'))
SIZEFAIL, VOIDFAIL = mk('sizefail'), mk('voidfail')
def OUTBUF(kind): return ('outbuf', kind)
def OUTPTR(var): return ('outptr', var)
def CSTR(v): return ('cstr', v)
def CINT(v): return ('cint', v)

W = 'w_'

SIMPLE = {'int': 'Int', 'bool': 'Bool', 'bytes': 'List UInt8', 'str': 'List Nat', 'none': 'Unit', 'rc': 'Rc', 'errno': 'Rc', 'cd': 'Py.Cd',
          'name': 'List Nat', 'world': 'Py.World', 'cell': 'Int', 'inptr': 'List UInt8', 'outbuf': 'Py.OutBuf', 'iconv': 'Py.Iconv'}

def lean_type(t):
    if t[0] in SIMPLE: return SIMPLE[t[0]]
    raise Untranslatable(f'no Lean type for {t}')

def join(a, b, node=None):
    if a == b: return a
    bad(node, f'incompatible types {a} and {b}')
def coerce(text, frm, to, node=None):
    if frm == to: return text
    bad(node, f'cannot use a value of type {frm} where {to} is expected')
def tuple_type(types):
    if not types: return 'Unit'
    if len(types) == 1: return atom(lean_type(types[0]))
    return '(' + ' × '.join(lean_type(t) for t in types) + ')'
class Types:
    NONE, INT = NONE, INT
    join = staticmethod(join); coerce = staticmethod(coerce); tuple_type = staticmethod(tuple_type)

class IconvStyle(Style):
    range_find = 'Py.rangeFind'
    try_finally = 'Py.tryFinally'
    def extra(self, node, ind):
        return render_extra(node, ind, self, render)

STYLE = IconvStyle('Py.Raise', 'PyKit.tryExcept', 'PyKit.forRange')
ERRNOS = {'E2BIG': '.e2big', 'EILSEQ': '.eilseq', 'EINVAL': '.einval'}

class NoWrites(dict):
    def get(self, k, d=None): return False

def dotted(e):
    try: return ast.unparse(e)
    except Exception: return ''

class Fn(WhileLoops, Stmts):
    T = Types
    CAUGHT = {}
    STATE = '#no-state'
    DUPLICATE_ON_RETURN = True
    GHOSTS = (W,)
    FUEL = 'fuel'
    style = STYLE
    lean_type = staticmethod(lean_type)

    def __init__(self, unit, fdef, ret_type, probing):
        self.u, self.f, self.name, self.pyname = unit, fdef, lname(fdef.name), fdef.name
        self.writes = False
        self.writes_map = NoWrites()
        self.ret_types = [] if probing else None
        self.ret_type = ret_type
        self.ntmp = 0
        self.aux_defs = []
        self.wl_init()
        self.out_cell = self.find_out_cell()
        # locals assigned exactly once, from a literal: folded
        counts = {}
        for n in ast.walk(fdef):
            if isinstance(n, ast.Assign):
                for t in n.targets:
                    for x in ast.walk(t):
                        if isinstance(x, ast.Name): counts.setdefault(x.id, []).append(n)
            elif isinstance(n, (ast.AugAssign, ast.For, ast.AnnAssign, ast.With, ast.NamedExpr)):
                for x in ast.walk(n.target if not isinstance(n, ast.With) else n):
                    if isinstance(x, ast.Name) and isinstance(x.ctx, ast.Store): counts.setdefault(x.id, []).append(None)
        self.folded = {}
        for v, ns in counts.items():
            if len(ns) == 1 and ns[0] is not None and len(ns[0].targets) == 1 and isinstance(ns[0].targets[0], ast.Name) and isinstance(ns[0].value, ast.Constant):
                c = ns[0].value.value
                if isinstance(c, str): self.folded[v] = CSTR(c)
                elif isinstance(c, int) and not isinstance(c, bool) and c >= 0: self.folded[v] = CINT(c)

    EXC_ASSERT = f'.error (.assertion, {W})'

    def note(self, msg): self.u.dropped.add(msg)
    def is_value(self, ty): return ty[0] not in ('cstr', 'cint', 'outptr', 'sizefail', 'voidfail')
    def loop_result_type(self): return f'Py.Res {atom(lean_type(self.ret_type))}' if self.ret_type else 'Py.Res Unit'
    def out_of_fuel(self, env): return f'.error (.outOfFuel, {W})'
    def finally_ok(self, env): return f'.ok {W}'
    def finally_param(self): return W

    def find_out_cell(self):
        """the name of the cell passed as `outbytesleft` to the conversion call (five non-None arguments)"""
        names = set()
        for n in ast.walk(self.f):
            if isinstance(n, ast.Call) and isinstance(n.func, ast.Name) and n.func.id == '_iconv' and len(n.args) == 5 and \
               not any(isinstance(a, ast.Constant) and a.value is None for a in n.args[1:3]):
                a = n.args[4]
                if isinstance(a, ast.Call) and dotted(a.func) == 'ctypes.byref' and len(a.args) == 1 and isinstance(a.args[0], ast.Name):
                    names.add(a.args[0].id)
        return names.pop() if len(names) == 1 else None

    # ---- results
    def ok(self, value_text, ty, env, node=None):
        if self.ret_types is not None:
            self.ret_types.append(ty)
            return ('raw', '.ok default')
        return ('raw', f'.ok ({coerce(value_text, ty, self.ret_type, node)}, {W})')

    def value(self, e, env, B):
        if isinstance(e, ast.Call) and isinstance(e.func, ast.Name) and e.func.id in self.u.aliases:
            text, ty = self.call_translated(e, env, B)
            return 'pure', text, ty, False
        t, ty = self.expr(e, env, B)
        return 'pure', t, ty, False

    def call_translated(self, e, env, B):
        """`_decode(input, encoding=encoding)`: a call of another translated function; binds (result, world)"""
        target = self.u.aliases[e.func.id]
        f = self.u.functions[target]
        if len(e.args) != 1 or len(e.keywords) != 1 or e.keywords[0].arg != 'encoding': bad(e, f'call of {e.func.id}')
        a, aty = self.expr(e.args[0], env, B)
        n, nty = self.expr(e.keywords[0].value, env, B)
        want = self.u.param_types[target]
        if (aty, nty) != (want[0], STR): bad(e, f'argument types of {e.func.id}')
        self.note(f'{self.pyname}: `{e.func.id}` is `{target}` (libc has iconv: `_iconv is not None`)')
        t = self.tmp()
        B.append(lambda rest, t=t: bind(f'({t}, {W})', f'{lname(target)} ic {atom(a)} {atom(n)} fuel {W}', rest))
        return t, self.u.ret_types[target]

    def raise_(self, s, env, B):
        x = s.exc
        if s.cause is not None or not isinstance(x, ast.Call) or not isinstance(x.func, ast.Name) or x.func.id in env: bad(s, f'raise {dotted(x)}')
        n = x.func.id
        if n == 'OSError' and len(x.args) == 2 and not x.keywords:
            t, ty = self.expr(x.args[0], env, B)
            if ty != ERRNO: bad(s, 'OSError of something other than an errno')
            if dotted(x.args[1]) != f'os.strerror({dotted(x.args[0])})': bad(s, 'OSError message')
            return f'.error (.os (Py.errnoNat {atom(t)}), {W})'
        if n in ('UnicodeDecodeError', 'UnicodeEncodeError') and len(x.args) == 5 and not x.keywords:
            want = BYTES if n == 'UnicodeDecodeError' else STR
            if self.u.kind.get(self.pyname) != ('decode' if n == 'UnicodeDecodeError' else 'encode'): bad(s, f'{n} in {self.pyname}')
            e0, t0 = self.expr(x.args[0], env, B)
            e1, t1 = self.expr(x.args[1], env, B)
            if t0 != STR or t1 != want or not isinstance(x.args[1], ast.Name) or x.args[1].id != self.f.args.args[0].arg: bad(s, f'{n}: encoding / object arguments')
            a, aty = self.expr(x.args[2], env, B)
            b, bty = self.expr(x.args[3], env, B)
            if aty != INT or bty != INT: bad(s, f'{n}: start / end')
            return f'.error (.unicode {atom(a)} {atom(b)}, {W})'
        if n == 'TypeError' and len(x.args) == 1: return f'.error (.type, {W})'
        if n == 'NotImplementedError' and len(x.args) == 1: return f'.error (.notImplemented, {W})'
        bad(s, f'raise {dotted(x)[:60]}')

    # ---- expressions
    def int_lit(self, e):
        if isinstance(e, ast.Constant) and isinstance(e.value, int) and not isinstance(e.value, bool): return e.value
        if isinstance(e, ast.UnaryOp) and isinstance(e.op, ast.USub) and isinstance(e.operand, ast.Constant) and isinstance(e.operand.value, int): return -e.operand.value
        return None

    def as_int(self, t, ty, node):
        if ty in (INT, CELL): return t
        if ty[0] == 'cint': return str(ty[1])
        bad(node, f'an int is needed, not {ty}')

    def positive(self, e, env):
        """is the divisor a positive constant"""
        v = self.int_lit(e)
        if v is not None: return v > 0
        if isinstance(e, ast.Name) and env.get(e.id, ('',))[0] == 'cint': return env[e.id][1] > 0
        return dotted(e) == 'ctypes.sizeof(ctypes.c_wchar)'

    def charset_name(self, e, env, B):
        """an argument of iconv_open: b'NAME' or bytes(name, 'ASCII')"""
        if isinstance(e, ast.Constant) and isinstance(e.value, bytes) and e.value.isascii():
            return f'(Py.lit "{e.value.decode("ascii")}")'
        if isinstance(e, ast.Call) and isinstance(e.func, ast.Name) and e.func.id == 'bytes' and 'bytes' not in env and len(e.args) == 2 and not e.keywords and \
           isinstance(e.args[1], ast.Constant) and e.args[1].value == 'ASCII':
            t, ty = self.expr(e.args[0], env, B)
            if ty == STR:
                self.note(f'{self.pyname}: `{dotted(e)}` is the name itself (a charset name is ASCII)')
                return t
            if ty[0] == 'cstr' and ty[1].isascii() and '"' not in ty[1] and '\\' not in ty[1]: return f'(Py.lit "{ty[1]}")'
        bad(e, 'charset name argument of iconv_open')

    def expr(self, e, env, B):
        v = self.int_lit(e)
        if v is not None: return (str(v) if v >= 0 else f'({v})'), INT
        if isinstance(e, ast.Constant):
            if e.value is None: return '()', NONE
            if isinstance(e.value, bool): return ('true' if e.value else 'false'), BOOL
            if e.value == '': return '[]', STR
            if e.value == b'': return '[]', BYTES
            if isinstance(e.value, str) and e.value.isascii() and '"' not in e.value and '\\' not in e.value: return f'(Py.lit "{e.value}")', STR
            bad(e, f'literal {e.value!r}')
        if isinstance(e, ast.Name):
            if e.id in env:
                ty = env[e.id]
                if ty[0] == 'cint': return str(ty[1]), INT
                if ty[0] in ('cstr', 'sizefail', 'voidfail'): return '#const', ty
                if ty[0] == 'outptr': return '#ptr', ty
                return lname(e.id), ty
            bad(e, f'unknown name {e.id}')
        if isinstance(e, ast.BinOp):
            op = type(e.op).__name__
            a, aty = self.expr(e.left, env, B)
            b, bty = self.expr(e.right, env, B)
            a, b = self.as_int(a, aty, e), self.as_int(b, bty, e)
            if op in ('Add', 'Sub', 'Mult'):
                return f'({atom(a)} {dict(Add="+", Sub="-", Mult="*")[op]} {atom(b)})', INT
            if op in ('FloorDiv', 'Mod'):
                if not self.positive(e.right, env): bad(e, '// or % by something other than a positive constant')
                return f'({atom(a)} {dict(FloorDiv="/", Mod="%")[op]} {atom(b)})', INT
            bad(e, f'operator {op}')
        if isinstance(e, ast.UnaryOp) and isinstance(e.op, ast.Not):
            return f'(!{atom(self.cond(e.operand, env, B))})', BOOL
        if isinstance(e, ast.Compare) and len(e.ops) == 1:
            return self.compare(e, env, B)
        if isinstance(e, ast.Attribute):
            d = dotted(e)
            if d == 'ctypes.c_size_t(-1).value': return '#const', SIZEFAIL
            if d == 'ctypes.c_void_p(-1).value': return '#const', VOIDFAIL
            if isinstance(e.value, ast.Name) and e.value.id == 'errno' and 'errno' not in env and e.attr in ERRNOS and self.u.imports_ok:
                return f'Rc{ERRNOS[e.attr]}', ERRNO
            if e.attr == 'value':
                t, ty = self.expr(e.value, env, B)
                if ty == CELL: return t, INT
            bad(e, f'attribute {d}')
        if isinstance(e, ast.Subscript):
            return self.subscript(e, env, B)
        if isinstance(e, ast.Call):
            return self.call(e, env, B)
        bad(e, f'expression {type(e).__name__}')

    def compare(self, e, env, B):
        op = type(e.ops[0]).__name__
        L, R = e.left, e.comparators[0]
        if op in ('In', 'NotIn') and isinstance(R, ast.Set):
            a, aty = self.expr(L, env, B)
            if aty != ERRNO: bad(e, 'membership of something other than an errno')
            items = []
            for x in R.elts:
                t, ty = self.expr(x, env, B)
                if ty != ERRNO: bad(e, 'set of non-errno')
                items.append(f'{atom(a)} == {t}')
            t = '(' + ' || '.join(items) + ')'
            return (t if op == 'In' else f'(!{t})'), BOOL
        a, aty = self.expr(L, env, B)
        b, bty = self.expr(R, env, B)
        neg = {'Eq': False, 'NotEq': True}.get(op)
        if neg is not None:
            for (x, xt), (y, yt) in (((a, aty), (b, bty)), ((b, bty), (a, aty))):
                if xt == RC and yt == SIZEFAIL: return (f'(!Py.failed {atom(x)})' if neg else f'Py.failed {atom(x)}'), BOOL
                if xt == CD and yt == VOIDFAIL: return (f'(!{atom(x)}.isMinus1)' if neg else f'{atom(x)}.isMinus1'), BOOL
            if aty == ERRNO and bty == ERRNO: return f'({atom(a)} {"!=" if neg else "=="} {atom(b)})', BOOL
            if (aty == STR and bty == STR): return f'({atom(a)} {"!=" if neg else "=="} {atom(b)})', BOOL
        if aty in (INT, CELL) or aty[0] == 'cint':
            a, b = self.as_int(a, aty, e), self.as_int(b, bty, e)
            sym = {'Eq': '==', 'NotEq': '!=', 'Lt': '<', 'LtE': '≤', 'Gt': '>', 'GtE': '≥'}.get(op)
            if sym is None: bad(e, f'comparison {op}')
            if op in ('Eq', 'NotEq'): return f'({atom(a)} {sym} {atom(b)})', BOOL
            return f'decide ({atom(a)} {sym} {atom(b)})', BOOL
        bad(e, f'comparison {dotted(e)[:60]}')

    def subscript(self, e, env, B):
        t, ty = self.expr(e.value, env, B)
        if isinstance(e.slice, ast.Slice):
            if e.slice.lower is not None or e.slice.step is not None or e.slice.upper is None: bad(e, 'slice other than x[:n]')
            n, nty = self.expr(e.slice.upper, env, B)
            n = self.as_int(n, nty, e)
            if ty == OUTBUF('s'): return f'(Py.bytesSlice {atom(t)} {atom(n)})', BYTES
            if ty == OUTBUF('u'): return self.hoist(B, f'Py.unicodeSlice {atom(t)} {atom(n)} {W}'), STR
            bad(e, f'slice of {ty}')
        i, ity = self.expr(e.slice, env, B)
        i = self.as_int(i, ity, e)
        if ty == BYTES: return self.hoist(B, f'Py.byteAt {atom(t)} {atom(i)} {W}'), INT
        bad(e, f'index into {ty}')

    def is_char_ptr_type(self, e):
        return dotted(e) == 'ctypes.POINTER(ctypes.c_char)'

    def call(self, e, env, B):
        d = dotted(e.func)
        if e.keywords and not (d == 'bytes'): bad(e, f'keyword arguments in {d}')
        if isinstance(e.func, ast.Name) and e.func.id in env: bad(e, f'call of a local {d}')
        args = e.args
        if d == 'len' and len(args) == 1:
            t, ty = self.expr(args[0], env, B)
            if ty in (BYTES, STR): return f'(Py.len {atom(t)})', INT
            bad(e, f'len of {ty}')
        if d == 'isinstance' and len(args) == 2 and isinstance(args[0], ast.Name) and isinstance(args[1], ast.Name):
            ty = env.get(args[0].id)
            cls = args[1].id
            if ty == CD and cls == 'int':
                self.note(f'{self.pyname}: `{dotted(e)}` holds (iconv_open does not return NULL)')
                return 'true', BOOL
            if ty in (BYTES, STR) and cls in ('bytes', 'str') and args[0].id in [a.arg for a in self.f.args.args]:
                r = (ty == BYTES) == (cls == 'bytes')
                self.note(f'{self.pyname}: `{dotted(e)}` is {r} by the type of the parameter')
                return ('true' if r else 'false'), BOOL
            bad(e, dotted(e))
        if d == 'bytes':
            if len(args) == 1 and len(e.keywords) == 1 and e.keywords[0].arg == 'encoding': enc = e.keywords[0].value
            elif len(args) == 2 and not e.keywords: enc = args[1]
            else: bad(e, dotted(e))
            t, ty = self.expr(args[0], env, B)
            _, ety = self.expr(enc, env, B)
            if ty == STR and ety == CSTR('UTF-32LE'):
                self.note(f'{self.pyname}: `{dotted(e)}` is Py.utf32le (a str without lone surrogates)')
                return f'(Py.utf32le {atom(t)})', BYTES
            bad(e, dotted(e))
        if not self.u.ctypes_ok: bad(e, f'{d}: the module-level ctypes declarations are not the expected ones')
        if d == 'ctypes.c_size_t' and len(args) == 1:
            t, ty = self.expr(args[0], env, B)
            return f'(Py.csize {atom(self.as_int(t, ty, e))})', CELL
        if d == 'ctypes.c_char_p' and len(args) == 1:
            t, ty = self.expr(args[0], env, B)
            if ty == BYTES: return t, INPTR
            bad(e, f'c_char_p of {ty}')
        if d == 'ctypes.cast' and len(args) == 2 and self.is_char_ptr_type(args[1]):
            return self.pointer_to(args[0], env, B, e)
        if d == 'ctypes.pointer' and len(args) == 1:
            return self.pointer_to(args[0], env, B, e)
        if d in ('ctypes.create_string_buffer', 'ctypes.create_unicode_buffer') and len(args) == 1:
            t, ty = self.expr(args[0], env, B)
            t = self.as_int(t, ty, e)
            if d.endswith('string_buffer'): return f'(Py.createStringBuffer {atom(t)})', OUTBUF('s')
            return f'(Py.createUnicodeBuffer {atom(t)})', OUTBUF('u')
        if d == 'ctypes.get_errno' and not args:
            return f'(Py.getErrno {W})', ERRNO
        if d == 'ctypes.sizeof' and len(args) == 1 and dotted(args[0]) == 'ctypes.c_wchar':
            return 'Py.sizeofWchar', INT
        bad(e, f'call {dotted(e)[:60]}')

    def pointer_to(self, x, env, B, node):
        if isinstance(x, ast.Name) and env.get(x.id, ('',))[0] == 'outbuf':
            if env.get('#written:' + x.id): bad(node, f'pointer to {x.id} after something was written to it')
            return '#ptr', OUTPTR(x.id)
        t, ty = self.expr(x, env, B)
        if ty == INPTR or ty[0] == 'outptr': return t, ty
        bad(node, f'pointer to {ty}')

    def cond(self, e, env, B):
        t, ty = self.expr(e, env, B)
        if ty == BOOL: return t
        bad(e, f'truth value of {ty}')

    # ---- the three C functions
    def c_call(self, e):
        if isinstance(e, ast.Call) and isinstance(e.func, ast.Name) and e.func.id in ('_iconv', '_iconv_open', '_iconv_close'): return e.func.id
        return None

    def is_none(self, a): return isinstance(a, ast.Constant) and a.value is None

    def byref(self, a, env):
        if isinstance(a, ast.Call) and dotted(a.func) == 'ctypes.byref' and len(a.args) == 1 and not a.keywords and isinstance(a.args[0], ast.Name) and env.get(a.args[0].id) == CELL:
            return a.args[0].id
        bad(a, 'a size argument of _iconv must be byref(<c_size_t cell>)')

    def extra_effects(self, stmts, env):
        out = set()
        for s in stmts:
            for n in ast.walk(s):
                if self.c_call(n):
                    out.add(W)
                    for a in n.args:
                        if isinstance(a, ast.Call) and dotted(a.func) == 'ctypes.byref' and len(a.args) == 1 and isinstance(a.args[0], ast.Name): out.add(a.args[0].id)
                        if isinstance(a, ast.Name) and env.get(a.id, ('',))[0] == 'outptr': out.add(env[a.id][1])
                elif isinstance(n, ast.Call) and dotted(n.func) == 'ctypes.get_errno':
                    pass
        return out

    def join_vars(self, blocks, env, live):
        names = set()
        for b in blocks: names |= assigned_names(b, self.writes_map) | self.extra_effects(b, env)
        live = set(live) | {W}
        for v in list(live):
            if env.get(v, ('',))[0] == 'outptr': live.add(env[v][1])
        return sorted(n for n in names if n in live and (n not in env or self.is_value(env[n])))

    def assign(self, target, value, s, env, go):
        if not isinstance(target, ast.Name): bad(s, 'assignment target')
        x = target.id
        if x == W: bad(s, f'a variable named {W}')
        B = []
        which = self.c_call(value)
        if which:
            if not self.u.ctypes_ok: bad(s, 'the module-level ctypes declarations are not the expected ones')
            if value.keywords: bad(s, 'keyword arguments')
            a = value.args
            if which == '_iconv_open' and len(a) == 2:
                to, frm = self.charset_name(a[0], env, B), self.charset_name(a[1], env, B)
                env2 = dict(env); env2[x] = CD
                return self.wrap(B, ('match', f'Py.iconvOpen ic {atom(to)} {atom(frm)} {W}', [(f'({lname(x)}, {W})', go(env2))]))
            if which == '_iconv_close' and len(a) == 1:
                cd, ty = self.expr(a[0], env, B)
                if ty != CD: bad(s, '_iconv_close of a non-descriptor')
                env2 = dict(env); env2[x] = INT
                return self.wrap(B, ('match', f'Py.iconvClose {cd} {W}', [(f'({lname(x)}, {W})', go(env2))]))
            if which == '_iconv' and len(a) == 5:
                cd, ty = self.expr(a[0], env, B)
                if ty != CD: bad(s, '_iconv on a non-descriptor')
                env2 = dict(env); env2[x] = RC
                if all(self.is_none(y) for y in a[1:]):
                    c = self.out_cell
                    if c is None or env.get(c) != CELL:
                        bad(s, 'the reset call must come after the out-count cell of the same iteration is created (the model keys a round by that count)')
                    return self.wrap(B, ('match', f'Py.iconvReset {cd} {lname(c)} {W}', [(f'({lname(x)}, {W})', go(env2))]))
                if not self.is_none(a[3]) and not self.is_none(a[4]):
                    oc = self.byref(a[4], env)
                    pt, pty = self.expr(a[3], env, B)
                    if pty[0] != 'outptr': bad(s, 'output pointer of _iconv')
                    ob = pty[1]
                    if env.get(ob, ('',))[0] != 'outbuf': bad(s, 'output pointer of _iconv: the buffer is gone')
                    env2['#written:' + ob] = True
                    if self.is_none(a[1]) and self.is_none(a[2]):
                        return self.wrap(B, ('match', f'Py.iconvFlush {cd} {lname(ob)} {lname(oc)} {W}', [(f'({lname(x)}, {lname(ob)}, {lname(oc)}, {W})', go(env2))]))
                    if not self.is_none(a[1]) and not self.is_none(a[2]):
                        ic = self.byref(a[2], env)
                        ip, ipty = self.expr(a[1], env, B)
                        if ipty != INPTR: bad(s, 'input pointer of _iconv')
                        if ic == oc: bad(s, 'the same cell for both counts')
                        return self.wrap(B, ('match', f'Py.iconvConv {cd} {atom(ip)} {lname(ic)} {lname(ob)} {lname(oc)} {W}',
                                             [(f'({lname(x)}, {lname(ic)}, {lname(ob)}, {lname(oc)}, {W})', go(env2))]))
            bad(s, f'call {dotted(value)[:70]}')
        if x in self.folded and isinstance(value, ast.Constant):
            env2 = dict(env); env2[x] = self.folded[x]
            return go(env2)
        if isinstance(value, ast.Call) and isinstance(value.func, ast.Name) and value.func.id in self.u.aliases:
            text, ty = self.call_translated(value, env, B)
        else:
            text, ty = self.expr(value, env, B)
        env2 = dict(env); env2[x] = ty
        if ty[0] == 'outbuf': env2.pop('#written:' + x, None)
        if not self.is_value(ty):
            if B: bad(s, 'hoisted computation in a constant')
            return go(env2)
        # `x = <hoisted partial computation>`: bind directly to x
        if B and getattr(B[-1], '__defaults__', None) and len(B[-1].__defaults__) == 2 and text == B[-1].__defaults__[0]:
            comp = B[-1].__defaults__[1]; B.pop()
            return self.wrap(B, bind(lname(x), comp, go(env2)))
        return self.wrap(B, ('let', lname(x), text, go(env2)))

    def call_stmt(self, c, s, env, go):
        bad(s, 'call statement')


class Unit:
    WANT_DECLS = [
        "_libc = ctypes.CDLL(None, use_errno=True)",
        "try:\n    _iconv_open = _libc.iconv_open\n    _iconv_close = _libc.iconv_close\n    _iconv = _libc.iconv\nexcept AttributeError:\n    _iconv = _iconv_open = _iconv_close = None\n"
        "else:\n    _iconv_open.argtypes = [ctypes.c_char_p, ctypes.c_char_p]\n    _iconv_open.restype = ctypes.c_void_p\n    _iconv_close.argtypes = [ctypes.c_void_p]\n"
        "    _iconv_close.restype = ctypes.c_int\n    _iconv.argtypes = [ctypes.c_void_p] + [ctypes.POINTER(ctypes.POINTER(ctypes.c_char)), ctypes.POINTER(ctypes.c_size_t)] * 2\n"
        "    _iconv.restype = ctypes.c_size_t",
    ]
    def __init__(self, repo):
        self.tree = ast.parse(open(os.path.join(repo, 'lib', 'iconv.py'), encoding='utf-8').read())
        self.functions = {n.name: n for n in self.tree.body if isinstance(n, ast.FunctionDef)}
        for n in ast.walk(self.tree):
            if isinstance(n, (ast.Global, ast.Nonlocal)): bad(n, 'global / nonlocal')
        top = [ast.unparse(n) for n in self.tree.body]
        self.ctypes_ok = all(w in top for w in self.WANT_DECLS)
        imports = [t for t in top if t.startswith(('import ', 'from '))]
        self.imports_ok = all(f'import {m}' in imports for m in ('ctypes', 'errno', 'os')) and not any(t.startswith('from ') for t in imports)
        # no other module-level binding of the names the translation gives a meaning to
        bound = {}
        for n in self.tree.body:
            for x in ast.walk(n) if not isinstance(n, ast.FunctionDef) else [n]:
                if isinstance(x, ast.Name) and isinstance(x.ctx, ast.Store): bound[x.id] = bound.get(x.id, 0) + 1
                if isinstance(x, ast.FunctionDef): bound[x.name] = bound.get(x.name, 0) + 1
        if bound.get('_libc', 0) != 1 or bound.get('_iconv', 0) != 2 or bound.get('_iconv_open', 0) != 2 or bound.get('_iconv_close', 0) != 2: self.ctypes_ok = False
        for m in ('ctypes', 'errno', 'os', 'len', 'bytes', 'isinstance', 'range', 'OSError', 'UnicodeDecodeError', 'UnicodeEncodeError', 'TypeError', 'NotImplementedError'):
            if m in bound: self.ctypes_ok = False
        self.aliases = {}
        for alias, dl, cli in (('_decode', '_decode_dl', '_decode_cli'), ('_encode', '_encode_dl', '_encode_cli')):
            want = f'{alias} = {dl} if _iconv is not None else {cli}'
            if want in top and bound.get(alias) == 1 and bound.get(dl) == 1: self.aliases[alias] = dl
        self.kind = {'_decode_dl': 'decode', '_encode_dl': 'encode', 'decode': 'decode', 'encode': 'encode'}
        self.param_types = {'_decode_dl': (BYTES, STR), '_encode_dl': (STR, STR), 'decode': (BYTES, STR, STR), 'encode': (STR, STR, STR)}
        self.ret_types = {}
        self.dropped = set()


def translate(u, name):
    f = u.functions.get(name)
    if f is None: raise Untranslatable(f'{name} not found')
    a = f.args
    if f.decorator_list or a.vararg or a.kwarg or a.posonlyargs: bad(f, f'signature of {name}')
    if name.endswith('_dl'):
        if len(a.args) != 1 or len(a.kwonlyargs) != 1 or a.kw_defaults != [None] or a.defaults or a.kwonlyargs[0].arg != 'encoding': bad(f, f'signature of {name}')
        params = [a.args[0].arg, 'encoding']
    else:
        if len(a.args) != 3 or a.kwonlyargs or len(a.defaults) != 2 or [x.arg for x in a.args[1:]] != ['encoding', 'errors']: bad(f, f'signature of {name}')
        if not (isinstance(a.defaults[1], ast.Constant) and a.defaults[1].value == 'strict'): bad(f, 'default of errors')
        params = [x.arg for x in a.args]
    ptypes = u.param_types[name]
    env = {p: t for p, t in zip(params, ptypes)}
    env[W] = WORLD
    if any(p in ('ic', 'fuel', W, 'fuel_') for p in params): bad(f, 'parameter name')
    for n in ast.walk(f):
        if isinstance(n, ast.Name) and n.id in ('ic', 'fuel', 'fuel_', W): bad(n, f'the name {n.id} is taken by the translation')
    def run(probe, rt=None):
        fn = Fn(u, f, rt, probe)
        return fn, fn.block(list(f.body), dict(env), fn.fall_off, set())
    fn, _ = run(True)
    rt = None
    for t in fn.ret_types: rt = t if rt is None else join(rt, t, f)
    want = STR if u.kind[name] == 'decode' else BYTES
    if rt != want: raise Untranslatable(f'{name} returns {rt}')
    u.ret_types[name] = rt
    fn, tree = run(False, rt)
    sig = ' '.join(f'({lname(p)} : {lean_type(t)})' for p, t in zip(params, ptypes))
    doc = f'`lib.iconv.{name}`'
    text = ''.join(d + '\n' for d in fn.aux_defs)
    text += (f'/-- {doc} -/\ndef {lname(name)} (ic : Py.Iconv) {sig} (fuel : Nat) ({W} : Py.World) : Py.Res {atom(lean_type(rt))} :=\n' +
             '\n'.join(render(tree, 1, STYLE)) + '\n')
    return text

HEADER = '''/-
GENERATED by tools/translate/iconv2lean.py from lib/iconv.py (`_decode_dl`, `_encode_dl`, `decode`, `encode`) — do not edit.
Regenerated from the repository's working tree on every check; `I18n/Props/C20Tie.lean` proves the definitions equal to the loop
model of `Model/Charset.lean` (`decodeDl`, `encodeDl`).  The target kit is `Model/CharsetPy.lean`.
-/
import I18n.Model.CharsetPy
set_option linter.unusedVariables false
namespace I18n.Generated.IconvDl
open I18n I18n.Charset

'''

def generate(repo):
    _mangled.clear()
    u = Unit(repo)
    out = [HEADER]
    for name in ('_decode_dl', '_encode_dl', 'decode', 'encode'):
        out.append(translate(u, name))
    out.append('/- Statements discharged statically by the translator:\n' + ''.join(f'  {d}\n' for d in sorted(u.dropped)) + '-/\n')
    out.append('end I18n.Generated.IconvDl\n')
    return '\n'.join(out)

def main():
    repo = sys.argv[1] if len(sys.argv) > 1 else '/repo'
    dest = sys.argv[2] if len(sys.argv) > 2 else os.path.join(os.path.dirname(os.path.abspath(__file__)), '..', '..', 'lean', 'I18n', 'Generated', 'IconvDl.lean')
    try:
        try:
            text = generate(repo)
        except (SyntaxError, KeyError, AttributeError, TypeError, IndexError, ValueError, AssertionError, RecursionError, OSError) as exc:
            raise Untranslatable(f'{type(exc).__name__} while translating: {exc}')
    except Untranslatable as exc:
        msg = str(exc).replace('"', "'").replace('\\', '/')
        text = HEADER + (f'-- UNTRANSLATABLE: {msg}\n'
                         '/-- deliberately does not compile: the current lib/iconv.py is outside the translator\'s subset (see above) -/\n'
                         'def untranslatable : Unit := the_current_source_of_lib_iconv_is_untranslatable\n'
                         'end I18n.Generated.IconvDl\n')
        print(f'untranslatable: {exc}', file=sys.stderr)
        old = open(dest, encoding='utf-8').read() if os.path.exists(dest) else None
        if old != text: open(dest, 'w', encoding='utf-8').write(text)
        sys.exit(3)
    old = open(dest, encoding='utf-8').read() if os.path.exists(dest) else None
    if old != text:
        open(dest, 'w', encoding='utf-8').write(text)
        print('changed')
    else:
        print('unchanged')

if __name__ == '__main__':
    main()
