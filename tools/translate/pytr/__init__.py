"""pytr: shared machinery of the Python→Lean translators (statement layer, output tree, syntactic analyses)."""
from .core import *          # noqa: F401,F403
from .core import _mangled   # noqa: F401
