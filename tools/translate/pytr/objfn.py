"""pytr.objfn — a typed expression / call layer over `pytr.core.Stmts` for code that works on strings, optionals, tuples and
small objects (records with methods).  First users: ling2lean.py (C19), gettextdate2lean.py (C18).

Everything is translated into `Except <err>`: every call of a translated function or method is a bind.  Types (tuples of strings):

  ('str',) List Char      ('int',) Int      ('bool',) Bool      ('none',) Unit (the value None)
  ('opt', t)  Option t    ('tuple', t1, …)  t1 × …              ('list', t) List t
  ('rec', name)           a record (a Lean structure): attributes are fields (`Unit.records[name]`: attr -> (field, type))

  x is None / is not None      decided statically when the type of x says so, else a `match`   (locals: flow typing by pytr.core;
                               attributes `obj.attr`: the attribute is read into a local alias first, see `if_`)
  a == b, a != b               `decide (a = b)` on str / int / bool / None / optionals / tuples of those (the smaller type is coerced);
                               on records: the translated `__eq__` (`__ne__` when defined, else its negation)
  obj.attr = e                 `let obj := { obj with field := e }`
  obj.method(args)             `match Cls.method obj args with | .ok (r, obj) => …` when the method assigns attributes (the receiver
                               must be a variable), `| .ok r =>` otherwise
  Cls(args), Cls(*t)           `Cls.__init__ args` (missing arguments: the defaults of the signature, which must be None)
  isinstance(x, Cls)           decided statically from the type of x (a record of that class), the dead branch is dropped and noted

A translator subclasses `ObjFn` (hooks: `prim_call`, `global_name`, `contains`, `subscript`, `raise_`) and fills a `Unit`.
"""
import ast
from .core import (Untranslatable, bad, lname, atom, render, bind, joinc, tuple_pat, Style, Stmts, _mangled, assigned_names, read_names,
                   terminates, contains)

def mk(*a): return tuple(a)
INT, BOOL, STR, NONE = mk('int'), mk('bool'), mk('str'), mk('none')
CHAR = mk('char')          # a one-character str where the code only ever has one character (`for i, ch in enumerate(s)`, Counter keys …)
ELL = mk('ell')            # the constant `...`
ELLINT = mk('ellint')      # an int or `...`
def OPT(t): return t if t[0] == 'opt' else ('opt', t)
def TUP(*ts): return ('tuple',) + tuple(ts)
def LIST(t): return ('list', t)
def REC(name): return ('rec', name)

class TypeSys:
    """type operations; `simple`: kind -> Lean type for the kinds of the domain; `recs`: record name -> Lean structure name"""
    NONE, INT = NONE, INT
    def __init__(self, simple=None, recs=None):
        self.simple = {'int': 'Int', 'bool': 'Bool', 'str': 'List Char', 'none': 'Unit', 'char': 'Char', 'ell': 'Unit', 'ellint': 'PyKit.EllInt'}
        self.simple.update(simple or {})
        self.recs = dict(recs or {})

    def lean_type(self, t):
        k = t[0]
        if k in self.simple: return self.simple[k]
        if k == 'opt': return f'Option {atom(self.lean_type(t[1]))}'
        if k == 'list': return f'List {atom(self.lean_type(t[1]))}'
        if k == 'tuple': return '(' + ' × '.join(self.lean_type(x) for x in t[1:]) + ')'
        if k == 'rec': return self.recs[t[1]]
        raise Untranslatable(f'no Lean type for {t}')

    def join(self, a, b, node=None):
        if a == b: return a
        if a == NONE: return OPT(b)
        if b == NONE: return OPT(a)
        if a[0] == 'opt' and a[1] == b: return a
        if b[0] == 'opt' and b[1] == a: return b
        if a[0] == 'tuple' and b[0] == 'tuple' and len(a) == len(b):
            return ('tuple',) + tuple(self.join(x, y, node) for x, y in zip(a[1:], b[1:]))
        if {a, b} <= {INT, ELL, ELLINT}: return ELLINT
        if a[0] == 'opt' and b in (ELL, ELLINT, INT) and a[1] in (INT, ELLINT, ELL): return OPT(ELLINT)
        if b[0] == 'opt' and a in (ELL, ELLINT, INT) and b[1] in (INT, ELLINT, ELL): return OPT(ELLINT)
        if a[0] == 'opt' and b[0] == 'opt': return OPT(self.join(a[1], b[1], node))
        bad(node, f'incompatible types {a} and {b}')

    def coerce(self, text, frm, to, node=None):
        if frm == to: return text
        if to == ELLINT:
            if frm == ELL: return 'PyKit.EllInt.ellipsis'
            if frm == INT: return f'(PyKit.EllInt.int {text})'
        if to[0] == 'opt':
            if frm == NONE: return 'none'
            if frm == to[1]: return f'(some {text})'
            if frm[0] == 'opt': return f'({atom(text)}.map (fun x => {self.coerce("x", frm[1], to[1], node)}))'
            return f'(some {self.coerce(text, frm, to[1], node)})'
        bad(node, f'cannot use a value of type {frm} where {to} is expected')

    def tuple_type(self, types):
        if not types: return 'Unit'
        if len(types) == 1: return atom(self.lean_type(types[0]))
        return '(' + ' × '.join(self.lean_type(t) for t in types) + ')'

    def comparable(self, t):
        k = t[0]
        if k in ('str', 'int', 'bool', 'none', 'char', 'lstr'): return True
        if k in ('opt', 'list'): return self.comparable(t[1])
        if k == 'tuple': return all(self.comparable(x) for x in t[1:])
        return False

def chars(s):
    """a str literal as a `List Char` term"""
    if s == '': return '([] : List Char)'
    if not s.isascii() or not s.isprintable() or '"' in s or '\\' in s: raise Untranslatable(f'str literal {s!r}')
    return f'"{s}".toList'

def char_lit(c):
    if c == "'": return "'\\''"
    if c == '\\': return "'\\\\'"
    if ' ' <= c <= '~': return f"'{c}'"
    return f'(Char.ofNat {ord(c)})'

def proj(t, i, n):
    """component i of an n-tuple term (right-nested pairs)"""
    if n == 1: return t
    return f'{t}' + '.2' * i + ('.1' if i < n - 1 else '')

class Sig:
    """a translated function or method: `params` [(python name, type, has a None default)] (without self), `ret` its result type (set
    when it has been translated), `writes`: a method that assigns attributes of self (then the Lean result is `(ret, self)` / `self`)"""
    def __init__(self, lean, params, node, rec=None, ret=None, writes=False, ctor=False):
        self.lean, self.params, self.node, self.rec, self.ret, self.writes, self.ctor = lean, params, node, rec, ret, writes, ctor

class Unit:
    """what a translator knows about the module it translates"""
    def __init__(self, T):
        self.T = T
        self.funcs = {}       # python name -> Sig
        self.methods = {}     # (record name, method name) -> Sig
        self.records = {}     # record name -> {attr: (Lean field, type)}
        self.classes = {}     # python class name -> record name
        self.dropped = set()
        self.emitted = []     # Lean texts in dependency order
        self.in_progress = []

    def ensure(self, sig, node=None):
        """translate `sig` now if it has not been yet (a callee is emitted before its caller)"""
        if sig.ret is not None: return
        if sig in self.in_progress: bad(node, f'recursion through {sig.lean}')
        self.in_progress.append(sig)
        text = self.translate_sig(sig)
        self.in_progress.pop()
        self.emitted.append(text)

    def translate_sig(self, sig):
        raise NotImplementedError

    def helper_def(self, rec, name):
        """the definition (FunctionDef, does it assign attributes of self) of a function (rec None) / method of the module that the
        translator has no declared signature for — such a helper is INLINED at its call sites, typed by the arguments of each call —
        or None"""
        return None

class ObjFn(Stmts):
    EXC_ASSERT = '.error .assertion'
    CAUGHT = {}

    def __init__(self, unit, name, writes=False, state='self', state_type=None):
        self.u, self.name, self.writes = unit, name, writes
        self.T = unit.T
        self.STATE = state if writes else '#no-state'
        self.state_type = state_type
        self.writes_map = {m: s.writes for (_, m), s in unit.methods.items()}
        self.ret_types, self.ret_type = None, None
        self.ntmp = 0
        self.quiet = 0

    def note(self, msg):
        if not self.quiet: self.u.dropped.add(msg)

    # ---------------- results
    def ok(self, value_text, ty, env, node=None):
        if self.ret_types is not None:
            self.ret_types.append(ty)
            return ('raw', '.ok default')
        v = self.T.coerce(value_text, ty, self.ret_type, node)
        if self.writes:
            v = self.STATE_L if self.ret_type == NONE else f'({v}, {self.STATE_L})'
        return ('raw', f'.ok {atom(v)}')

    def value(self, e, env, B):
        text, ty = self.expr(e, env, B)
        return 'pure', text, ty, False

    # ---------------- static truth
    def static_truth(self, e, env):
        """True / False when the test is decided by the types, else None"""
        if isinstance(e, ast.UnaryOp) and isinstance(e.op, ast.Not):
            v = self.static_truth(e.operand, env)
            return None if v is None else not v
        if isinstance(e, ast.Call) and isinstance(e.func, ast.Name) and e.func.id == 'isinstance' and 'isinstance' not in env and len(e.args) == 2 and not e.keywords:
            x, c = e.args
            if isinstance(x, ast.Name) and x.id in env and isinstance(c, ast.Name) and c.id in self.u.classes and c.id not in env:
                ty = env[x.id]
                if ty == REC(self.u.classes[c.id]): return True
            bad(e, 'isinstance that the types do not decide')
        if isinstance(e, ast.Compare) and len(e.ops) == 1 and isinstance(e.ops[0], (ast.Is, ast.IsNot)) and \
           isinstance(e.comparators[0], ast.Constant) and e.comparators[0].value is None and isinstance(e.left, ast.Name) and e.left.id in env:
            ty = env[e.left.id]
            is_not = isinstance(e.ops[0], ast.IsNot)
            if ty == NONE: return not is_not
            if ty[0] != 'opt': return is_not
        at = self.attr_none_test(e, env)
        if at:
            obj, attr, is_not = at
            _, fty = self.rec_attr(env[obj], attr, e)
            if fty[0] != 'opt' and fty != NONE: return is_not
        return None

    # ---------------- expressions
    def rec_attr(self, vty, attr, node):
        if vty[0] == 'rec' and attr in self.u.records.get(vty[1], {}):
            return self.u.records[vty[1]][attr]
        bad(node, f'attribute .{attr} of a value of type {vty}')

    def expr(self, e, env, B):
        if isinstance(e, ast.Constant):
            v = e.value
            if v is None: return '()', NONE
            if v is True: return 'true', BOOL
            if v is False: return 'false', BOOL
            if isinstance(v, int):
                it = self.T.simple['int']
                if v < 0 and it != 'Int': bad(e, f'negative literal {v}')
                return (f'({v} : {it})' if v >= 0 else f'(-{-v} : {it})'), INT
            if isinstance(v, str): return chars(v), STR
            if v is Ellipsis: return '()', ELL
            bad(e, f'literal {v!r}')
        if isinstance(e, ast.Name):
            if e.id in env: return self.lvar(e.id), env[e.id]
            return self.global_name(e, env, B)
        if isinstance(e, ast.Attribute):
            if isinstance(e.value, ast.Name) and e.value.id in env:
                alias = env.get(f'#alias:{e.value.id}.{e.attr}')
                if alias: return lname(alias), env[alias]
            vt, vty = self.expr(e.value, env, B)
            field, ty = self.rec_attr(vty, e.attr, e)
            return f'{atom(vt)}.{field}', ty
        if isinstance(e, ast.Tuple):
            if not e.elts: bad(e, 'empty tuple')
            items = [self.expr(x, env, B) for x in e.elts]
            if len(items) == 1: bad(e, 'one-element tuple')
            return '(' + ', '.join(t for t, _ in items) + ')', TUP(*[ty for _, ty in items])
        if isinstance(e, ast.List):
            if not e.elts: bad(e, 'empty list literal')
            leaves = [x for el in e.elts for x in (el.elts if isinstance(el, ast.Tuple) else [el])]
            if all(isinstance(x, ast.Constant) and isinstance(x.value, str) and len(x.value) == 1 for x in leaves):
                # a list of one-character literals (or of tuples of them): characters
                def one(el):
                    if isinstance(el, ast.Tuple): return '(' + ', '.join(char_lit(x.value) for x in el.elts) + ')', TUP(*[CHAR] * len(el.elts))
                    return char_lit(el.value), CHAR
                items = [one(el) for el in e.elts]
            else:
                items = [self.expr(x, env, B) for x in e.elts]
            ty = items[0][1]
            for _, t in items[1:]: ty = self.T.join(ty, t, e)
            return '[' + ', '.join(self.T.coerce(t, tt, ty, e) for t, tt in items) + ']', LIST(ty)
        if isinstance(e, ast.JoinedStr):
            parts = []
            for p in e.values:
                if isinstance(p, ast.Constant) and isinstance(p.value, str): parts.append(chars(p.value))
                elif isinstance(p, ast.FormattedValue) and p.conversion == -1 and p.format_spec is None:
                    parts.append(self.to_str(p.value, env, B))
                else: bad(e, 'f-string')
            if not parts: return chars(''), STR
            return '(' + ' ++ '.join(parts) + ')', STR
        if isinstance(e, ast.BinOp):
            op = type(e.op).__name__
            lt, lty = self.expr(e.left, env, B)
            rt, rty = self.expr(e.right, env, B)
            if lty == STR and rty == STR and op == 'Add': return f'({lt} ++ {rt})', STR
            if lty[0] == 'list' and rty[0] == 'list' and op == 'Add':
                ty = self.T.join(lty, rty, e) if lty != rty else lty
                return f'({self.T.coerce(lt, lty, ty, e)} ++ {self.T.coerce(rt, rty, ty, e)})', ty
            if lty == INT and rty == INT and op in ('Add', 'Sub', 'Mult'):
                return f'({lt} {dict(Add="+", Sub="-", Mult="*")[op]} {rt})', INT
            return self.binop(e, op, lt, lty, rt, rty, env, B)
        if isinstance(e, ast.UnaryOp) and isinstance(e.op, ast.Not):
            return f'(!{self.cond(e.operand, env, B)})', BOOL
        if isinstance(e, ast.BoolOp):
            parts = []
            for i, v in enumerate(e.values):
                st = self.static_truth(v, env)
                if st is not None:
                    parts.append('true' if st else 'false'); continue
                B2 = []
                parts.append(self.cond(v, env, B2))
                if B2:
                    if i > 0: bad(e, 'partial operation on the right of and/or')
                    B.extend(B2)
            return '(' + (' && ' if isinstance(e.op, ast.And) else ' || ').join(parts) + ')', BOOL
        if isinstance(e, ast.Compare):
            return self.compare(e, env, B)
        if isinstance(e, ast.Subscript):
            return self.subscript(e, env, B)
        if isinstance(e, ast.Call):
            return self.call(e, env, B)
        bad(e, f'expression {type(e).__name__}')

    def to_str(self, e, env, B):
        """`{e}` inside an f-string / str(e)"""
        t, ty = self.expr(e, env, B)
        if ty == STR: return t
        if ty[0] == 'rec' and (ty[1], '__str__') in self.u.methods:
            return self.call_sig(self.u.methods[(ty[1], '__str__')], t, None, [], e, env, B)[0]
        bad(e, f'str() of a value of type {ty}')

    def binop(self, e, op, lt, lty, rt, rty, env, B):
        bad(e, f'operator {op} on {lty}, {rty}')

    def global_name(self, e, env, B):
        bad(e, f'unknown name {e.id}')

    def subscript(self, e, env, B):
        bad(e, f'subscript {ast.unparse(e)[:40]}')

    def contains_(self, e, L, R, env, B):
        """`x in xs`: a character in a str / in a list of characters"""
        if isinstance(R, ast.Set) and R.elts and all(isinstance(x, ast.Constant) and isinstance(x.value, str) for x in R.elts):
            lt, lty = self.expr(L, env, B)
            if lty == STR: return '([' + ', '.join(chars(x.value) for x in R.elts) + f'].contains {atom(lt)})'
            bad(e, f'`in` a set of strs of a value of type {lty}')
        rt, rty = self.expr(R, env, B)
        if isinstance(L, ast.Constant) and isinstance(L.value, str) and len(L.value) == 1 and (rty == STR or rty == LIST(CHAR)):
            return f'({atom(rt)}.contains {char_lit(L.value)})'
        lt, lty = self.expr(L, env, B)
        if lty == CHAR and (rty == STR or rty == LIST(CHAR)): return f'({atom(rt)}.contains {atom(lt)})'
        bad(e, f'`in` between {lty} and {rty}')

    def prim_call(self, e, env, B):
        bad(e, f'call {ast.unparse(e)[:60]}')

    def compare(self, e, env, B):
        if len(e.ops) != 1: bad(e, 'chained comparison')
        op = type(e.ops[0]).__name__
        L, R = e.left, e.comparators[0]
        if op in ('Is', 'IsNot'):
            if not (isinstance(R, ast.Constant) and R.value is None): bad(e, '`is` with something other than None')
            lt, lty = self.expr(L, env, B)
            if lty == NONE: return ('true' if op == 'Is' else 'false'), BOOL
            if lty[0] != 'opt': return ('false' if op == 'Is' else 'true'), BOOL
            return (f'{atom(lt)}.isNone' if op == 'Is' else f'{atom(lt)}.isSome'), BOOL
        if op in ('In', 'NotIn'):
            t = self.contains_(e, L, R, env, B)
            return (t if op == 'In' else f'(!{t})'), BOOL
        def one_char(x): return isinstance(x, ast.Constant) and isinstance(x.value, str) and len(x.value) == 1
        lt, lty = (None, None) if one_char(L) else self.expr(L, env, B)
        rt, rty = (None, None) if one_char(R) else self.expr(R, env, B)
        # a one-character literal against a CHAR is a character
        if lt is None: lt, lty = (char_lit(L.value), CHAR) if rty in (CHAR, OPT(CHAR)) else (chars(L.value), STR)
        if rt is None: rt, rty = (char_lit(R.value), CHAR) if lty in (CHAR, OPT(CHAR)) else (chars(R.value), STR)
        if op in ('Eq', 'NotEq'):
            if lty[0] == 'rec' and lty == rty:
                eq = self.u.methods.get((lty[1], '__eq__'))
                ne = self.u.methods.get((lty[1], '__ne__'))
                if op == 'NotEq' and ne is not None:
                    return self.call_sig(ne, lt, None, [(rt, rty)], e, env, B)
                if eq is None: bad(e, f'== on {lty} without a translated __eq__')
                t, ty = self.call_sig(eq, lt, None, [(rt, rty)], e, env, B)
                if ty != BOOL: bad(e, '__eq__ does not return a bool')
                return (t if op == 'Eq' else f'(!{t})'), BOOL
            ty = self.T.join(lty, rty, e)
            if not self.T.comparable(ty): bad(e, f'== between {lty} and {rty}')
            lt, rt = self.T.coerce(lt, lty, ty, e), self.T.coerce(rt, rty, ty, e)
            if ty == NONE: return ('true' if op == 'Eq' else 'false'), BOOL
            return f'(decide ({lt} {"=" if op == "Eq" else "≠"} {rt}))', BOOL
        if lty == OPT(INT) and rty == INT: lt, lty = self.hoist(B, f'{self.OPT_INT} {atom(lt)}'), INT      # TypeError for None
        if rty == OPT(INT) and lty == INT: rt, rty = self.hoist(B, f'{self.OPT_INT} {atom(rt)}'), INT
        if lty == INT and rty == INT:
            return f'(decide ({lt} {dict(Lt="<", LtE="≤", Gt=">", GtE="≥")[op]} {rt}))', BOOL
        bad(e, f'comparison {op} between {lty} and {rty}')

    OPT_INT = 'PyKit.intOfOpt'

    def cond(self, e, env, B):
        st = self.static_truth(e, env)
        if st is not None: return 'true' if st else 'false'
        text, ty = self.expr(e, env, B)
        if ty == BOOL: return text
        if ty == STR or ty[0] == 'list': return f'(!{atom(text)}.isEmpty)'
        if ty == OPT(BOOL): return f'(decide ({text} = some true))'
        if ty == OPT(STR): return f'(match {text} with | some x => !x.isEmpty | none => false)'
        if ty[0] == 'opt' and ty[1][0] == 'rec' and not self.falsy_record(ty[1]): return f'{atom(text)}.isSome'
        if ty == NONE: return 'false'
        t = self.truth(text, ty)
        if t is not None: return t
        bad(e, f'truth value of {ty}')

    def truth(self, text, ty):
        return None

    def falsy_record(self, ty):
        """can an instance of the record be falsy (does its class define __bool__ / __len__)?"""
        return any((ty[1], m) in self.u.methods_defined for m in ('__bool__', '__len__')) if hasattr(self.u, 'methods_defined') else True

    # ---------------- calls
    def args_for(self, sig, args, keywords, node, env, B):
        """[(text, type)] positional + keywords -> Lean argument texts in the order of the parameters"""
        given = {}
        for (p, pty, has_default), a in zip(sig.params, args):
            given[p] = a
        if len(args) > len(sig.params): bad(node, 'too many arguments')
        for k, v in keywords:
            if k in given or k not in [p for p, _, _ in sig.params]: bad(node, f'keyword argument {k}')
            given[k] = v
        out = []
        for p, pty, has_default in sig.params:
            if p in given:
                t, ty = given[p]
                out.append(atom(self.T.coerce(t, ty, pty, node)))
            elif has_default:
                out.append(atom(self.T.coerce('()', NONE, pty, node)))
            else:
                bad(node, f'argument {p} missing')
        return out

    def call_sig(self, sig, recv_text, recv_var, args, node, env, B, keywords=()):
        """a call of a translated function / method; recv_var: the Python variable holding the receiver (for methods that write)"""
        if sig.ret is None: self.u.ensure(sig, node)
        a = self.args_for(sig, args, list(keywords), node, env, B)
        comp = ' '.join([sig.lean] + ([atom(recv_text)] if recv_text is not None else []) + a)
        if sig.writes:
            if recv_var is None: bad(node, f'{sig.lean} assigns attributes: the receiver must be a variable')
            rv = self.lvar(recv_var)
            if sig.ret == NONE:
                self.hoist(B, comp, pat=rv)
                return '()', NONE
            t = self.tmp()
            self.hoist(B, comp, pat=f'({t}, {rv})')
            return t, sig.ret
        return self.hoist(B, comp), sig.ret

    def inline_call(self, helper, rec, recv_text, recv_var, args, kws, node, B):
        """a call of a helper without a declared signature: its body, translated with the parameter types of THIS call, in place of
        the call (`match (show Except ε τ from let p := a; …body…) with | .ok r => …`)"""
        fnode, writes = helper
        a = fnode.args
        if fnode.decorator_list or a.vararg or a.kwarg or a.posonlyargs or a.kwonlyargs: bad(node, f'signature of the helper {fnode.name}')
        pnames = [x.arg for x in a.args]
        if rec:
            if not pnames or pnames[0] != 'self': bad(node, f'the helper {fnode.name} is not an ordinary method')
            pnames = pnames[1:]
        n_def = len(a.defaults)
        if not all(isinstance(d, ast.Constant) and d.value is None for d in a.defaults): bad(node, f'defaults of the helper {fnode.name}')
        given = dict(zip(pnames, args))
        if len(args) > len(pnames): bad(node, f'call of the helper {fnode.name}: too many arguments')
        for k, v in kws:
            if k in given or k not in pnames: bad(node, f'call of the helper {fnode.name}: keyword {k}')
            given[k] = v
        for i, pn in enumerate(pnames):
            if pn not in given:
                if i < len(pnames) - n_def: bad(node, f'call of the helper {fnode.name}: argument {pn} missing')
                given[pn] = ('()', NONE)
        for n in ast.walk(fnode):
            if isinstance(n, (ast.Global, ast.Nonlocal, ast.Lambda, ast.Yield, ast.YieldFrom, ast.Await, ast.Delete)) or \
               (isinstance(n, (ast.FunctionDef, ast.ClassDef)) and n is not fnode):
                bad(n, f'{type(n).__name__} in {fnode.name}')
        if fnode in self.u.in_progress: bad(node, f'recursion through {fnode.name}')
        self.u.in_progress.append(fnode)
        cenv = {pn: given[pn][1] for pn in pnames}
        if rec: cenv['self'] = REC(rec)
        def run(probe, rt=None):
            fn = type(self)(self.u, (f'{rec}.' if rec else '') + fnode.name, writes=writes)
            fn.fnode = fnode
            fn.ntmp = self.ntmp + len(pnames)
            fn.quiet = self.quiet + (1 if probe else 0)
            if probe: fn.ret_types = []
            else: fn.ret_type = rt
            return fn, fn.block(list(fnode.body), dict(cenv), fn.fall_off, set())
        fn, _ = run(True)
        rt = None
        for t in fn.ret_types: rt = t if rt is None else self.T.join(rt, t, fnode)
        rt = rt or NONE
        # the arguments are evaluated in the caller's scope first
        temps = []
        for pn in pnames:
            t = self.tmp()
            B.append(lambda rest, t=t, text=given[pn][0]: ('let', t, text, rest))
            temps.append(t)
        fn, tree = run(False, rt)
        self.ntmp = max(self.ntmp, fn.ntmp)
        self.u.in_progress.pop()
        for pn, t in reversed(list(zip(pnames, temps))):
            tree = ('let', lname(pn), t, tree)
        if rec and recv_text != 'self':
            tree = ('let', 'self', recv_text, tree)
        recty = self.T.lean_type(REC(rec)) if rec else None
        if writes:
            if recv_var is None: bad(node, f'{fnode.name} assigns attributes: the receiver must be a variable')
            rv = self.lvar(recv_var)
            if rt == NONE:
                B.append(lambda rest, tree=tree, rv=rv: joinc(rv, tree, atom(recty), rest))
                return '()', NONE
            t = self.tmp()
            B.append(lambda rest, tree=tree, rv=rv, t=t: joinc(f'({t}, {rv})', tree, f'({self.T.lean_type(rt)} × {recty})', rest))
            return t, rt
        t = self.tmp()
        B.append(lambda rest, tree=tree, t=t: joinc(t, tree, atom(self.T.lean_type(rt)), rest))
        return t, rt

    def call_args(self, e, env, B):
        """positional arguments (a `*t` of a tuple-typed value is spread) and keywords"""
        args = []
        for a in e.args:
            if isinstance(a, ast.Starred):
                t, ty = self.expr(a.value, env, B)
                if ty[0] != 'tuple': bad(e, f'* of a value of type {ty}')
                n = len(ty) - 1
                if not t.replace('_', 'a').isalnum():
                    v = self.tmp()
                    B.append(lambda rest, v=v, t=t: ('let', v, t, rest))
                    t = v
                args += [(proj(t, i, n), ty[1 + i]) for i in range(n)]
            else:
                args.append(self.expr(a, env, B))
        kws = []
        for k in e.keywords:
            if k.arg is None: bad(e, '**kwargs')
            kws.append((k.arg, self.expr(k.value, env, B)))
        return args, kws

    def call(self, e, env, B):
        f = e.func
        if isinstance(f, ast.Name) and f.id not in env:
            if f.id == 'isinstance':
                st = self.static_truth(e, env)
                return ('true' if st else 'false'), BOOL
            if f.id == 'len' and len(e.args) == 1 and not e.keywords and not isinstance(e.args[0], ast.Starred):
                t, ty = self.expr(e.args[0], env, B)
                if ty != STR and ty[0] != 'list': bad(e, f'len of {ty}')
                return f'({atom(t)}.length : {self.T.simple["int"]})', INT
            if f.id == 'str' and len(e.args) == 1 and not e.keywords and not isinstance(e.args[0], ast.Starred):
                return self.to_str(e.args[0], env, B), STR
            if f.id in self.u.funcs:
                args, kws = self.call_args(e, env, B)
                return self.call_sig(self.u.funcs[f.id], None, None, args, e, env, B, kws)
            if self.u.helper_def(None, f.id):
                args, kws = self.call_args(e, env, B)
                return self.inline_call(self.u.helper_def(None, f.id), None, None, None, args, kws, e, B)
            if f.id in self.u.classes:
                rec = self.u.classes[f.id]
                sig = self.u.methods.get((rec, '__init__'))
                if sig is None: bad(e, f'{f.id}() without a translated __init__')
                args, kws = self.call_args(e, env, B)
                return self.call_sig(sig, None, None, args, e, env, B, kws)
            return self.prim_call(e, env, B)
        if isinstance(f, ast.Attribute):
            # a method of a record
            recv = f.value
            if isinstance(recv, ast.Name) and recv.id in env and env[recv.id][0] == 'rec':
                rec = env[recv.id][1]
                sig = self.u.methods.get((rec, f.attr))
                if sig is not None:
                    args, kws = self.call_args(e, env, B)
                    return self.call_sig(sig, self.lvar(recv.id), recv.id, args, e, env, B, kws)
                if self.u.helper_def(rec, f.attr):
                    args, kws = self.call_args(e, env, B)
                    return self.inline_call(self.u.helper_def(rec, f.attr), rec, self.lvar(recv.id), recv.id, args, kws, e, B)
        return self.prim_call(e, env, B)

    # ---------------- statements
    def block(self, stmts, env, k, live):
        if stmts and isinstance(stmts[0], ast.Continue):
            if not self.loop_final: bad(stmts[0], '`continue` outside a translated loop')
            return self.loop_final[-1](env)
        if stmts and isinstance(stmts[0], ast.AugAssign) and isinstance(stmts[0].target, ast.Attribute):
            # obj.attr op= e   is   obj.attr = obj.attr op e
            s0 = stmts[0]
            load = ast.copy_location(ast.Attribute(value=s0.target.value, attr=s0.target.attr, ctx=ast.Load()), s0)
            val = ast.copy_location(ast.BinOp(left=load, op=s0.op, right=s0.value), s0)
            return self.block([ast.copy_location(ast.Assign(targets=[s0.target], value=val), s0)] + list(stmts[1:]), env, k, live)
        if stmts and isinstance(stmts[0], ast.Assert) and self.static_truth(stmts[0].test, env) is True:
            self.note(f'{self.name} line {stmts[0].lineno}: `assert {ast.unparse(stmts[0].test)}` holds by typing')
            return self.block(stmts[1:], env, k, live)
        return super().block(stmts, env, k, live)

    def drop_aliases(self, env, var):
        return {k: v for k, v in env.items() if not k.startswith(f'#alias:{var}.')}

    def assign(self, target, value, s, env, go):
        B = []
        if isinstance(target, ast.Name):
            x = target.id
            if x == self.STATE: bad(s, 'assignment to self')
            if isinstance(value, ast.Constant) and isinstance(value.value, str) and len(value.value) == 1 and env.get(x) in (CHAR, OPT(CHAR)):
                text, ty = char_lit(value.value), CHAR          # a variable that holds characters keeps holding characters
            else:
                text, ty = self.expr(value, env, B)
            env2 = self.drop_aliases(env, x); env2[x] = ty
            if B and getattr(B[-1], '__defaults__', None) and len(B[-1].__defaults__) == 2 and text == B[-1].__defaults__[0]:
                comp = B[-1].__defaults__[1]; B.pop()      # x = <call>: bind the name directly
                return self.wrap(B, bind(lname(x), comp, go(env2)))
            return self.wrap(B, ('let', lname(x), text, go(env2)))
        if isinstance(target, ast.Attribute) and isinstance(target.value, ast.Name) and target.value.id in env and env[target.value.id][0] == 'rec':
            obj = target.value.id
            field, fty = self.rec_attr(env[obj], target.attr, s)
            text, ty = self.expr(value, env, B)
            text = self.T.coerce(text, ty, fty, s)
            env2 = {k: v for k, v in env.items() if k != f'#alias:{obj}.{target.attr}'}
            o = self.lvar(obj)
            return self.wrap(B, ('let', o, f'{{ {o} with {field} := {text} }}', go(env2)))
        if isinstance(target, (ast.Tuple, ast.List)) and all(isinstance(x, ast.Name) for x in target.elts) and len(target.elts) > 1:
            text, ty = self.expr(value, env, B)
            if ty[0] != 'tuple' or len(ty) - 1 != len(target.elts): bad(s, f'unpacking a value of type {ty}')
            env2 = dict(env)
            for x, t in zip(target.elts, ty[1:]):
                env2 = self.drop_aliases(env2, x.id); env2[x.id] = t
            pat = '(' + ', '.join(lname(x.id) for x in target.elts) + ')'
            return self.wrap(B, ('let', pat, text, go(env2)))
        return self.assign_other(target, value, s, env, go)

    def assign_other(self, target, value, s, env, go):
        if isinstance(target, (ast.List, ast.Tuple)) and len(target.elts) == 1 and isinstance(target.elts[0], ast.Name):
            # [x] = xs: ValueError unless xs has exactly one element
            B = []
            text, ty = self.expr(value, env, B)
            if ty[0] != 'list': bad(s, f'unpacking a value of type {ty}')
            x = target.elts[0].id
            env2 = self.drop_aliases(env, x); env2[x] = ty[1]
            return self.wrap(B, ('match', text, [(f'[{lname(x)}]', go(env2)), ('_', ('raw', f'.error {self.EXC_VALUE}'))]))
        bad(s, f'assignment target {ast.unparse(target)}')

    EXC_VALUE = '.valueError'

    def try_(self, s, env, go, live):
        """on top of pytr.core: `except C as exc:` when the handler is a single `raise` (exc is message material);
        `try: …; return e` is `try: …; ret_value = e` followed by `return ret_value` (a `return` does not raise)"""
        if len(s.handlers) == 1 and not s.orelse and not s.finalbody:
            h = s.handlers[0]
            changed = False
            body, after = list(s.body), []
            if h.name is not None and len(h.body) == 1 and isinstance(h.body[0], ast.Raise):
                h = ast.copy_location(ast.ExceptHandler(type=h.type, name=None, body=h.body), h); changed = True
            if body and isinstance(body[-1], ast.Return) and body[-1].value is not None and not contains(body[:-1] + list(h.body), (ast.Return,)):
                r = body[-1]
                name = 'ret_value'
                if name in env or name in assigned_names([self.fnode]): bad(s, f'the name {name} is taken')
                body[-1] = ast.copy_location(ast.Assign(targets=[ast.copy_location(ast.Name(id=name, ctx=ast.Store()), r)], value=r.value), r)
                after = [ast.copy_location(ast.Return(value=ast.copy_location(ast.Name(id=name, ctx=ast.Load()), r)), r)]
                changed = True
            if changed:
                s2 = ast.copy_location(ast.Try(body=body, handlers=[h], orelse=[], finalbody=[]), s)
                if after:
                    return self.try_core(s2, env, lambda env2: self.block(after, env2, go, live), live | {'ret_value'})
                return self.try_core(s2, env, go, live)
        return self.try_core(s, env, go, live)

    def try_cps(self, s, env, go, live):
        """`try: A except C1: H1 except C2: H2 [else: E]` followed by the rest R, where every handler ends in raise / continue:
        `PyKit.tryElse A' [(C1, H1'), (C2, H2')] (fun vars => E'; R')` — the handlers are in tail position"""
        for h in s.handlers:
            if not isinstance(h.type, (ast.Name, ast.Attribute)) or self.caught_of(h.type) is None: bad(s, f'except clause {ast.unparse(h.type) if h.type else ""}')
            if h.name is not None:
                # `as exc`: only as message material of a raise
                for n in ast.walk(ast.Module(body=h.body, type_ignores=[])):
                    if isinstance(n, ast.Name) and n.id == h.name and not any(isinstance(r, ast.Raise) and any(x is n for x in ast.walk(r)) for r in ast.walk(ast.Module(body=h.body, type_ignores=[]))):
                        bad(s, f'{h.name} is used outside a raise')
        if contains(s.body, (ast.Return, ast.Continue, ast.Break)): bad(s, '`return` / `continue` inside the protected block')
        rest_live = read_names(s.orelse) | live
        vars_ = self.join_vars([s.body], env, rest_live)
        if self.STATE in vars_ and False: pass
        ends = []
        def probe(env2):
            ends.append(env2); return ('raw', '.ok default')
        saved = self.ntmp
        self._seq(s.body, dict(env), probe, set(vars_))
        self.ntmp = saved
        types = []
        for v in vars_:
            ty = None
            for en in ends:
                if v not in en: bad(s, f'{v} may be unbound after the protected block')
                ty = en[v] if ty is None else self.T.join(ty, en[v], s)
            types.append(ty if ty is not None else env.get(v, self.T.NONE))
        def final(env2):
            return ('raw', '.ok ' + tuple_pat([self.T.coerce(self.lvar(v), env2[v], t, s) for v, t in zip(vars_, types)]))
        body = self._seq(s.body, dict(env), final, set(vars_))
        handlers = [(self.caught_of(h.type), self._seq(h.body, dict(env), None, live)) for h in s.handlers]
        env2 = dict(env)
        for v, t in zip(vars_, types): env2[v] = t
        rest = self.block(list(s.orelse), env2, go, live)
        return ('trycps', body, self.T.tuple_type(types), handlers, tuple_pat([self.lvar(v) for v in vars_]), rest)

    def caught_of(self, t):
        """the Lean predicate of an `except <class>` clause, or None"""
        name = ast.unparse(t)
        return self.CAUGHT.get(name)

    def try_core(self, s, env, go, live):
        if not s.finalbody and s.handlers and all(self.terminates(h.body) for h in s.handlers) and \
           (s.orelse or any(contains(h.body, (ast.Continue,)) for h in s.handlers)):
            return self.try_cps(s, env, go, live)
        return self.try_core0(s, env, go, live)

    def try_core0(self, s, env, go, live):
        """pytr.core's `try_`, except that the protected block may assign attributes of the state when the handler ends in `raise`
        (then the state at the time of the exception is never looked at)"""
        if s.orelse: bad(s, 'try/else')
        if s.finalbody: return self.try_finally(s, env, go, live)
        if len(s.handlers) > 1 and all(terminates(h.body) for h in s.handlers):
            # try: A except C1: raise … except C2: raise …   is   try: (try: A except C1: raise …) except C2: raise …
            # (a handler's own exception is not caught by a later clause of the same statement: the classes must differ)
            names = [ast.unparse(h.type) if h.type else '' for h in s.handlers]
            if len(set(names)) != len(names): bad(s, 'two except clauses for one class')
            for h in s.handlers:
                for n in ast.walk(ast.Module(body=h.body, type_ignores=[])):
                    if isinstance(n, ast.Raise) and n.exc is not None:
                        x = n.exc.func if isinstance(n.exc, ast.Call) else n.exc
                        if isinstance(x, ast.Name) and x.id in names: bad(s, 'a handler raises a class another clause catches')
            inner = ast.copy_location(ast.Try(body=s.body, handlers=[s.handlers[0]], orelse=[], finalbody=[]), s)
            outer = ast.copy_location(ast.Try(body=[inner], handlers=list(s.handlers[1:]), orelse=[], finalbody=[]), s)
            return self.try_(outer, env, go, live)
        if len(s.handlers) != 1: bad(s, 'several except clauses')
        h = s.handlers[0]
        if h.name is not None or not isinstance(h.type, ast.Name) or h.type.id not in self.CAUGHT: bad(s, f'except clause {ast.unparse(h.type) if h.type else ""}')
        if contains(s.body + h.body, (ast.Return,)): bad(s, '`return` inside try')
        vars_ = self.join_vars([s.body, h.body], env, live)
        if self.STATE in vars_ and not terminates(h.body): bad(s, 'attribute assignment inside try (state at the time of the exception)')
        brs = [lambda k: self._seq(s.body, dict(env), k, set(vars_)), lambda k: self._seq(h.body, dict(env), k, set(vars_))]
        trees, types, views = self.run_join(brs, env, vars_, s)
        env2 = dict(env)
        for v, t in zip(vars_, types): env2[v] = t
        env2.update(views)
        ty = self.T.tuple_type(types)
        return joinc(tuple_pat([self.lvar(v) for v in vars_]), ('tryexpr', trees[0], self.CAUGHT[h.type.id], trees[1], ty), ty, go(env2))

    # ---- which variables does a loop carry from one iteration to the next?
    @staticmethod
    def _ends(stmts):
        for st in stmts:
            if isinstance(st, (ast.Raise, ast.Return, ast.Continue, ast.Break)): return True
            if isinstance(st, ast.If) and st.orelse and ObjFn._ends(st.body) and ObjFn._ends(st.orelse): return True
        return False

    @staticmethod
    def rbw(stmts, written=frozenset()):
        """(names that may be read before the statements themselves assign them, names definitely assigned when control falls
        off the end) — statement by statement, so that a variable assigned and then read inside one iteration of a nested loop is
        not taken for a loop-carried one"""
        reads, written = set(), set(written)
        def names(e):
            return {n.id for n in ast.walk(e) if isinstance(n, ast.Name) and isinstance(n.ctx, ast.Load)} if e is not None else set()
        def targets(t):
            out = set()
            for n in ast.walk(t):
                if isinstance(n, ast.Name) and isinstance(n.ctx, ast.Store): out.add(n.id)
            return out
        for st in stmts:
            if isinstance(st, ast.Assign):
                reads |= names(st.value) - written
                for t in st.targets:
                    if isinstance(t, ast.Name): pass
                    else: reads |= {n.id for n in ast.walk(t) if isinstance(n, ast.Name) and isinstance(n.ctx, ast.Load)} - written
                for t in st.targets:
                    if isinstance(t, (ast.Name, ast.Tuple, ast.List)): written |= targets(t)
            elif isinstance(st, ast.AugAssign):
                reads |= (names(st.value) | names(st.target) | targets(st.target)) - written
            elif isinstance(st, ast.If):
                reads |= names(st.test) - written
                r1, w1 = ObjFn.rbw(st.body, written)
                r2, w2 = ObjFn.rbw(st.orelse, written)
                reads |= r1 | r2
                e1, e2 = ObjFn._ends(st.body), ObjFn._ends(st.orelse)
                written = (w2 if e1 and not e2 else w1 if e2 and not e1 else (w1 & w2))
            elif isinstance(st, ast.For):
                reads |= names(st.iter) - written
                r1, _ = ObjFn.rbw(st.body, written | targets(st.target))
                reads |= r1
            elif isinstance(st, ast.Try):
                r1, w1 = ObjFn.rbw(st.body, written)
                reads |= r1
                for h in st.handlers:
                    rh, _ = ObjFn.rbw(h.body, written)
                    reads |= rh
                r2, w2 = ObjFn.rbw(st.orelse, w1)
                reads |= r2
                if all(ObjFn._ends(h.body) for h in st.handlers) and not st.finalbody: written = w2
            else:
                reads |= names(st) - written
        return reads, written

    def loop_vars(self, s, env, live, targets):
        assigned = assigned_names(s.body, self.writes_map)
        carried = self.rbw(s.body, frozenset(targets))[0] | live
        vars_ = sorted(v for v in assigned if v in carried and v not in targets)
        for v in vars_:
            if v not in env: bad(s, f'{v} is assigned in the loop and used outside one iteration but not bound before the loop')
        for t in targets:
            if t in live and t in env: bad(s, 'loop variable used after the loop')
        return vars_

    # ---- for loops over lists (no break / continue / return inside)
    def for_(self, s, env, go, live):
        if s.orelse: bad(s, 'for/else')
        if contains(s.body, (ast.Return, ast.Break)): bad(s, 'return/break inside for')
        B = []
        xs, xty = self.expr(s.iter, env, B)
        if xty[0] != 'list': bad(s, f'for over a value of type {xty}')
        ety = xty[1]
        tg = s.target
        if isinstance(tg, ast.Name):
            targets, ttypes, epat = [tg.id], [ety], lname(tg.id)
        elif isinstance(tg, ast.Tuple) and all(isinstance(x, ast.Name) for x in tg.elts) and ety[0] == 'tuple' and len(ety) - 1 == len(tg.elts):
            targets, ttypes = [x.id for x in tg.elts], list(ety[1:])
            epat = '(' + ', '.join(lname(x) for x in targets) + ')'
        else:
            bad(s, 'loop target')
        vars_ = self.loop_vars(s, env, live, targets)
        vars_ = sorted(set(vars_) | (set(self.join_vars([s.body], env, live | set(vars_))) - set(targets)))
        # whatever the rest of the function reads and an iteration may assign is carried by the loop too
        vars_ = sorted(set(vars_) | {v for v in assigned_names(s.body, self.writes_map) if v in live and v in env and v not in targets})
        for v in vars_:
            if v not in env: bad(s, f'{v} is assigned in the loop but not bound before it')
        types = [env[v] for v in vars_]
        env_body = dict(env)
        for x, t in zip(targets, ttypes): env_body[x] = t
        def probe_final(env2):
            return ('raw', '.ok default')
        self.loop_final = tuple(self.loop_final) + (probe_final,)
        try:
            self.check_loop_types(s, env_body, vars_, types)
        finally:
            self.loop_final = self.loop_final[:-1]
        def final(env2):
            return ('raw', '.ok ' + tuple_pat([self.T.coerce(self.lvar(v), env2[v], t, s) for v, t in zip(vars_, types)]))
        self.loop_final = tuple(self.loop_final) + (final,)
        try:
            body = self._seq(s.body, env_body, final, set(vars_))
        finally:
            self.loop_final = self.loop_final[:-1]
        pat = tuple_pat([self.lvar(v) for v in vars_])
        node = ('foreach', 'PyKit.forEach', atom(xs), epat, pat, body, pat)
        return self.wrap(B, joinc(pat, node, self.T.tuple_type(types), go(dict(env))))

    def call_stmt(self, c, s, env, go):
        B = []
        f = c.func
        env2 = env
        if isinstance(f, ast.Attribute) and isinstance(f.value, ast.Name) and f.value.id in env and env[f.value.id][0] == 'rec':
            sig = self.u.methods.get((env[f.value.id][1], f.attr))
            if sig is not None and sig.writes: env2 = self.drop_aliases(env, f.value.id)
        self.expr(c, env, B)            # the value is discarded; the binds stay
        return self.wrap(B, go(env2))

    def join_vars(self, blocks, env, live):
        names = set(super().join_vars(blocks, env, live))
        # receivers of calls of methods that assign attributes (in any position)
        for b in blocks:
            for st in b:
                for n in ast.walk(st):
                    if isinstance(n, ast.Call) and isinstance(n.func, ast.Attribute) and isinstance(n.func.value, ast.Name):
                        v = n.func.value.id
                        if v in env and env[v][0] == 'rec':
                            sig = self.u.methods.get((env[v][1], n.func.attr))
                            if sig is not None and sig.writes and (v in live or v == self.STATE): names.add(v)
        return sorted(names)

    # ---- `continue`: ends the iteration with the loop-carried variables as they are (the innermost loop)
    loop_final = ()

    def terminates(self, stmts):
        """every path through the statements ends in raise / return / continue"""
        for s in stmts:
            if isinstance(s, (ast.Raise, ast.Return)): return True
            if isinstance(s, ast.Continue) and self.loop_final: return True
            if isinstance(s, ast.If) and s.orelse and self.terminates(s.body) and self.terminates(s.orelse): return True
            if isinstance(s, ast.Try) and not s.finalbody and not s.orelse and self.terminates(s.body) and all(self.terminates(h.body) for h in s.handlers):
                return True
        return False

    def if_core(self, s, env, go, live):
        """pytr.core's `if_` with `self.terminates` (a branch that ends in `continue` takes no part in the join either)"""
        B = []
        nt = self.none_test(s.test, env)
        def mk(then_tree, else_tree):
            if nt:
                x, is_not = nt
                ty = env[x]
                if ty == self.T.NONE: return else_tree if is_not else then_tree
                if ty[0] != 'opt': return then_tree if is_not else else_tree
                none_t, some_t = (else_tree, then_tree) if is_not else (then_tree, else_tree)
                return ('match', lname(x), [('none', none_t), (f'some {lname(x)}', some_t)])
            return ('if', c, then_tree, else_tree)
        e_then, e_else = dict(env), dict(env)
        if nt and env[nt[0]][0] == 'opt':
            (e_then if nt[1] else e_else)[nt[0]] = env[nt[0]][1]
        static = None
        if nt:
            ty = env[nt[0]]
            if ty == self.T.NONE: static = not nt[1]
            elif ty[0] != 'opt': static = nt[1]
            c = None
        else:
            c = self.cond(s.test, env, B)
        if static is not None:
            self.note(f'{self.name} line {s.lineno}: `{ast.unparse(s.test)}` is {static} by typing; the other branch is dropped')
            return self.block(list(s.body if static else s.orelse), env, go, live)
        t_then, t_else = self.terminates(s.body), self.terminates(s.orelse)
        if t_then and t_else:
            return self.wrap(B, mk(self._seq(s.body, e_then, None, live), self._seq(s.orelse, e_else, None, live)))
        if t_then:
            return self.wrap(B, mk(self._seq(s.body, e_then, None, live), self._seq(s.orelse, e_else, go, live)))
        if t_else:
            return self.wrap(B, mk(self._seq(s.body, e_then, go, live), self._seq(s.orelse, e_else, None, live)))
        if contains(s.body + s.orelse, (ast.Return, ast.Break, ast.Continue)):
            if not self.DUPLICATE_ON_RETURN: bad(s, '`return` / `continue` on some but not all paths of a branch')
            return self.wrap(B, mk(self._seq(s.body, e_then, go, live), self._seq(s.orelse, e_else, go, live)))
        vars_ = self.join_vars([s.body, s.orelse], env, live)
        brs = [lambda k: self._seq(s.body, e_then, k, set(vars_)), lambda k: self._seq(s.orelse, e_else, k, set(vars_))]
        trees, types, views = self.run_join(brs, env, vars_, s)
        env2 = dict(env)
        for v, t in zip(vars_, types): env2[v] = t
        env2.update(views)
        return self.wrap(B, joinc(tuple_pat([self.lvar(v) for v in vars_]), mk(trees[0], trees[1]), self.T.tuple_type(types), go(env2)))

    def attr_none_test(self, e, env):
        """(object variable, attribute, is_not) if e is `<variable>.<attr> is [not] None` for a record-typed variable"""
        if isinstance(e, ast.Compare) and len(e.ops) == 1 and isinstance(e.ops[0], (ast.Is, ast.IsNot)) and \
           isinstance(e.comparators[0], ast.Constant) and e.comparators[0].value is None and isinstance(e.left, ast.Attribute) and \
           isinstance(e.left.value, ast.Name) and e.left.value.id in env and env[e.left.value.id][0] == 'rec':
            return e.left.value.id, e.left.attr, isinstance(e.ops[0], ast.IsNot)
        return None

    def is_narrowing(self, e, env):
        nt = self.none_test(e, env)
        return (nt is not None and env[nt[0]][0] == 'opt') or self.attr_none_test(e, env) is not None

    def if_(self, s, env, go, live):
        t = s.test
        if isinstance(t, ast.BoolOp) and isinstance(t.op, ast.And) and any(self.is_narrowing(v, env) for v in t.values) and s.orelse is not None:
            # `if A and B: X else: Y` is `if A: (if B: X else: Y) else: Y` — so that `x is not None` narrows the type of x in X
            # (Y is translated once per level)
            first, more = t.values[0], t.values[1:]
            rest = more[0] if len(more) == 1 else ast.copy_location(ast.BoolOp(op=ast.And(), values=more), t)
            inner = ast.copy_location(ast.If(test=rest, body=s.body, orelse=s.orelse), s)
            outer = ast.copy_location(ast.If(test=first, body=[inner], orelse=s.orelse), s)
            return self.if_(outer, env, go, live)
        st = self.static_truth(s.test, env)
        if st is not None:
            self.note(f'{self.name} line {s.lineno}: `{ast.unparse(s.test)}` is {st} by typing; the other branch is dropped')
            return self.block(list(s.body if st else s.orelse), env, go, live)
        at = self.attr_none_test(s.test, env)
        if at:
            # `if obj.attr is None:` — read the attribute into an alias variable and test that: inside the branches the alias stands
            # for the attribute (with its narrowed type) until the attribute or the object is assigned
            obj, attr, is_not = at
            field, fty = self.rec_attr(env[obj], attr, s)
            if fty[0] == 'opt' and not env.get(f'#alias:{obj}.{attr}'):
                alias = f'{obj}_{attr}'
                if alias in env or alias in assigned_names([self.fnode]) or alias in read_names([self.fnode]): bad(s, f'the name {alias} is taken')
                test = ast.copy_location(ast.Compare(left=ast.copy_location(ast.Name(id=alias, ctx=ast.Load()), s), ops=s.test.ops, comparators=s.test.comparators), s.test)
                s2 = ast.copy_location(ast.If(test=test, body=s.body, orelse=s.orelse), s)
                env1 = dict(env); env1[alias] = fty; env1[f'#alias:{obj}.{attr}'] = alias
                keep = self.terminates(s.body) != self.terminates(s.orelse)      # exactly one branch continues: its view of the attribute stays valid
                def go2(env2):
                    if keep: return go(env2)
                    env3 = {k: v for k, v in env2.items() if k != alias and k != f'#alias:{obj}.{attr}'}
                    return go(env3)
                return ('let', lname(alias), f'{self.lvar(obj)}.{field}', self.if_core(s2, env1, go2, live))
        return self.if_core(s, env, go, live)

class ObjStyle(Style):
    """`binds=True`: sequencing is printed as `Except.bind c (fun x => rest)` instead of `match c with | .error e => .error e | .ok x =>
    rest` — the same term up to unfolding `Except.bind`, but lemmas about `Except.bind` (congruence, `bind_ok`) then apply syntactically,
    so the equality proofs can go stage by stage"""
    def __init__(self, err, try_fn, for_fn, binds=False):
        super().__init__(err, try_fn, for_fn)
        self.binds = binds

    def extra(self, node, ind):
        pad = '  ' * ind
        if node[0] == 'foreach':
            _, fn, xs, epat, spat, body, init = node
            return [pad + f'{fn} {xs} (fun {epat} {spat} =>'] + render(body, ind + 2, self) + [pad + f'  ) {init}']
        if node[0] == 'trycps':
            _, body, ty, handlers, pat, rest = node
            out = [pad + 'PyKit.tryElse (show Except ' + self.err + ' ' + ty + ' from'] + render(body, ind + 2, self) + [pad + '  ) [']
            for i, (caught, h) in enumerate(handlers):
                out += [pad + f'    ({caught},'] + render(h, ind + 3, self) + [pad + '    )' + (',' if i < len(handlers) - 1 else '')]
            out += [pad + f'  ] (fun {pat} =>'] + render(rest, ind + 1, self) + [pad + ')']
            return out
        if node[0] == 'xbind':
            _, pat, comp, rest = node
            return [pad + f'Except.bind ({comp}) (fun {pat} =>'] + render(rest, ind + 1, self) + [pad + ')']
        if node[0] == 'xjoin':
            _, pat, comp, ty, rest = node
            return ([pad + 'Except.bind (show Except ' + self.err + ' ' + ty + ' from'] + render(comp, ind + 2, self) + [pad + f'  ) (fun {pat} =>'] +
                    render(rest, ind + 1, self) + [pad + ')'])
        raise AssertionError(node[0])

def to_binds(node):
    """the output tree with every `bind` / `join` node turned into its `Except.bind` form"""
    k = node[0]
    if k == 'raw': return node
    if k == 'let': return ('let', node[1], node[2], to_binds(node[3]))
    if k == 'bind': return ('xbind', node[1] if node[1] != '_' else '_', node[2], to_binds(node[3]))
    if k == 'if': return ('if', node[1], to_binds(node[2]), to_binds(node[3]))
    if k == 'match': return ('match', node[1], [(p, to_binds(b)) for p, b in node[2]])
    if k == 'join': return ('xjoin', node[1], to_binds(node[2]), node[3], to_binds(node[4]))
    if k == 'tryexpr': return ('tryexpr', to_binds(node[1]), node[2], to_binds(node[3]), node[4])
    if k == 'forexpr': return ('forexpr', node[1], node[2], node[3], to_binds(node[4]), node[5])
    if k == 'foreach': return ('foreach', node[1], node[2], node[3], node[4], to_binds(node[5]), node[6])
    if k == 'trycps': return ('trycps', to_binds(node[1]), node[2], [(c, to_binds(h)) for c, h in node[3]], node[4], to_binds(node[5]))
    raise AssertionError(k)

# ----------------------------------------------------------------------------- driver for one function

def writes_attrs(fnode, methods_writing):
    """does the method assign attributes of self (directly or through a method that does)?"""
    for n in ast.walk(fnode):
        if isinstance(n, ast.Attribute) and isinstance(n.ctx, ast.Store) and isinstance(n.value, ast.Name) and n.value.id == 'self':
            return True
        if isinstance(n, ast.Call) and isinstance(n.func, ast.Attribute) and isinstance(n.func.value, ast.Name) and n.func.value.id == 'self' and \
           n.func.attr in methods_writing:
            return True
    return False

def translate(unit, cls, sig, doc, style, fn_class=ObjFn, extra_env=None, state_name='self', extra_params='', prelude=()):
    """Lean text of one function / method; sets sig.ret"""
    T = unit.T
    f = sig.node
    a = f.args
    if f.decorator_list: bad(f, f'decorated function {f.name}')
    if a.vararg or a.kwarg or a.posonlyargs: bad(f, f'signature of {f.name}')
    names = [x.arg for x in a.args] + [x.arg for x in a.kwonlyargs]
    want = (['self'] if sig.rec else []) + [p for p, _, _ in sig.params]
    if names != want: bad(f, f'parameters of {f.name}: {names}, expected {want}')
    defaults = list(a.defaults) + [d for d in a.kw_defaults if d is not None]
    n_def = sum(1 for _, _, d in sig.params if d)
    if len(defaults) != n_def or not all(isinstance(d, ast.Constant) and d.value is None for d in defaults) or \
       any(d for _, _, d in sig.params[:len(sig.params) - n_def]):
        bad(f, f'defaults of {f.name}')
    env = {p: t for p, t, _ in sig.params}
    if sig.rec: env['self'] = REC(sig.rec)
    if extra_env: env.update(extra_env)
    for n in ast.walk(f):
        if isinstance(n, (ast.Global, ast.Nonlocal, ast.Lambda, ast.Yield, ast.YieldFrom, ast.Await, ast.Delete)) or \
           (isinstance(n, (ast.FunctionDef, ast.ClassDef)) and n is not f):
            bad(n, f'{type(n).__name__} in {f.name}')
    def run(probe, rt=None):
        fn = fn_class(unit, sig.lean, writes=sig.writes)
        fn.fnode = f
        if probe: fn.ret_types = []
        else: fn.ret_type = rt
        return fn, fn.block(list(f.body), dict(env), fn.fall_off, set())
    fn, _ = run(True)
    rt = None
    for t in fn.ret_types: rt = t if rt is None else T.join(rt, t, f)
    rt = rt or NONE
    if sig.ctor and rt != NONE: bad(f, '__init__ returns a value')
    fn, tree = run(False, rt)
    sig.ret = REC(sig.rec) if sig.ctor else rt
    recty = T.lean_type(REC(sig.rec)) if sig.rec else None
    if sig.ctor: res = recty
    elif sig.writes: res = recty if rt == NONE else f'({T.lean_type(rt)} × {recty})'
    else: res = T.lean_type(rt)
    params = ''.join(f' ({lname(p)} : {T.lean_type(t)})' for p, t, _ in sig.params)
    head = '' if (sig.ctor or not sig.rec) else f' ({state_name} : {recty})'
    if getattr(style, 'binds', False): tree = to_binds(tree)
    lines = ['  ' + l for l in prelude] + render(tree, 1, style)
    if sig.ctor:
        lines = [f'  let self : {recty} := default'] + lines
    text = f'/-- {doc} -/\ndef {sig.lean}{extra_params}{head}{params} : Except {style.err} {atom(res)} :=\n' + '\n'.join(lines) + '\n'
    if sig.ctor:
        sig.writes = False          # for callers: a constructor returns the object
    return text
