"""pytr.whileloop — `while True:` loops, search loops and `try … finally` (added for lib/iconv.py `_decode_dl` / `_encode_dl`).

Mix `WhileLoops` in BEFORE `Stmts`:  class Fn(WhileLoops, Stmts).

  while True: A                      (last statement of its block, no `break` of its own, no `else`)
        a Lean function of its own, structurally recursive on fuel:
            def <fn>_loop <free variables> : Nat → <loop-carried variables> → <result of fn>
              | 0, … => <out of fuel>
              | fuel_ + 1, … => A'
        `continue` and the end of A are the recursive call with the current values of the carried variables; `return`/`raise` inside
        A leave the function.  Carried: assigned in A and possibly read in A before A assigns them (`may_read_first`, flow-sensitive),
        plus the translator's ghost variables (GHOSTS).
  for i in range(a, b):              (a search loop: the body is exactly `if c: break`, c without effects on variables)
      if c: break                        match <RANGE_FIND> a b (fun i => c') with
  else: E                                | some i => rest   | none => E'; rest           (joined on the variables rest reads)
  try: A finally: F                  (last statement of its block; A leaves the function on every path)
        <TRY_FINALLY> (A') (fun <world> => F')      F' ends in finally_ok(env): the world it leaves

The translator supplies: GHOSTS (names always carried), FUEL (Lean name of the function's fuel parameter), loop_result_type() (Lean
text), out_of_fuel(env) (Lean text), finally_ok(env), lean_type(ty), aux_defs (list the loop functions are appended to), RANGE_FIND,
TRY_FINALLY, finally_param() (Lean binder of the finalizer), and sets DUPLICATE_ON_RETURN = True.
"""
import ast
from .core import bad, lname, atom, tuple_pat, joinc, bind, assigned_names, read_names


def own_breaks(stmts):
    """`break` statements that belong to the loop whose body is `stmts` (not to a nested loop)"""
    out = []
    def walk(n):
        if isinstance(n, ast.Break): out.append(n)
        elif isinstance(n, (ast.For, ast.While)):
            for x in n.orelse: walk(x)
        elif isinstance(n, (ast.FunctionDef, ast.Lambda, ast.ClassDef)):
            return
        else:
            for x in ast.iter_child_nodes(n): walk(x)
    for s in stmts: walk(s)
    return out


def _loads(node):
    return {n.id for n in ast.walk(node) if isinstance(n, ast.Name) and isinstance(n.ctx, ast.Load)}


def _targets(t):
    if isinstance(t, ast.Name): return {t.id}
    if isinstance(t, (ast.Tuple, ast.List)): return set().union(*[_targets(x) for x in t.elts]) if t.elts else set()
    return set()


def may_read_first(stmts, written=frozenset()):
    """(names possibly read before the block itself has assigned them, names assigned on every path that falls through)"""
    written = set(written)
    out = set()
    for s in stmts:
        if isinstance(s, ast.Assign):
            out |= _loads(s.value) - written
            for t in s.targets:
                if not isinstance(t, (ast.Name, ast.Tuple, ast.List)): out |= _loads(t) - written
            for t in s.targets: written |= _targets(t)
        elif isinstance(s, ast.AugAssign):
            out |= (_loads(s.value) | _loads(s.target) | _targets(s.target)) - written
            written |= _targets(s.target)
        elif isinstance(s, ast.If):
            out |= _loads(s.test) - written
            o1, w1 = may_read_first(s.body, written)
            o2, w2 = may_read_first(s.orelse, written)
            out |= o1 | o2
            t1, t2 = _leaves(s.body), _leaves(s.orelse)
            if t1 and t2: return out, written          # nothing after it is reached
            written = w2 if t1 else w1 if t2 else (w1 & w2)
        elif isinstance(s, ast.For):
            out |= _loads(s.iter) - written
            o1, _ = may_read_first(s.body, written | _targets(s.target))
            o2, w2 = may_read_first(s.orelse, written)
            out |= o1 | o2
            # after the loop: a path that left by `break` has the target, a path that ran to the end has what `else:` assigns
            written = (written | (_targets(s.target) & w2)) if own_breaks(s.body) else w2
        elif isinstance(s, ast.While):
            out |= _loads(s.test) - written
            o1, _ = may_read_first(s.body, written)
            out |= o1
        elif isinstance(s, (ast.Raise, ast.Return, ast.Continue, ast.Break)):
            out |= _loads(s) - written
            return out, written
        else:
            out |= _loads(s) - written
    return out, written


def _leaves(stmts):
    """every path through the statements ends in raise/return/continue/break"""
    for s in stmts:
        if isinstance(s, (ast.Raise, ast.Return, ast.Continue, ast.Break)): return True
        if isinstance(s, ast.If) and s.orelse and _leaves(s.body) and _leaves(s.orelse): return True
    return False


class WhileLoops:
    GHOSTS = ()
    FUEL = 'fuel'
    RANGE_FIND = 'PyKit.rangeFind'
    TRY_FINALLY = 'PyKit.tryFinally'

    def wl_init(self):
        self.wl_stack = []
        self.wl_count = 0

    # ---- dispatch
    def block(self, stmts, env, k, live):
        if stmts and isinstance(stmts[0], ast.Try) and stmts[0].finalbody:
            return self.try_finally_last(stmts[0], stmts[1:], env, k, live)
        return super().block(stmts, env, k, live)

    def other_stmt(self, s, rest, env, k, live):
        if isinstance(s, ast.While):
            return self.while_true(s, rest, env, k, live)
        if isinstance(s, ast.Continue) and self.wl_stack:
            return self.wl_stack[-1](env, s)
        return super().other_stmt(s, rest, env, k, live)

    def extra_effects(self, stmts, env):
        """names the statements assign through calls (pointers, cells): supplied by the translator"""
        return set()

    # ---- while True
    def while_true(self, s, rest, env, k, live):
        if not (isinstance(s.test, ast.Constant) and s.test.value is True): bad(s, 'while loop other than `while True:`')
        if s.orelse: bad(s, 'while/else')
        if own_breaks(s.body): bad(s, '`break` out of `while True:`')
        if rest: bad(rest[0], 'statements after a `while True:` without `break` (unreachable)')
        if self.wl_stack: bad(s, 'nested `while True:`')
        assigned = assigned_names(s.body, self.writes_map) | self.extra_effects(s.body, env)
        first, _ = may_read_first(s.body)
        carried = sorted(v for v in assigned if v in first and v not in self.GHOSTS)
        for v in carried:
            if v not in env: bad(s, f'{v} may be read in the loop before it is assigned')
        carried += [g for g in self.GHOSTS if g in env]
        reads = read_names(s.body) | self.extra_effects(s.body, env)
        free = sorted(v for v in env if not v.startswith('#') and v in reads and v not in carried and self.is_value(env[v]))
        self.wl_count += 1
        fname = f'{self.name}_loop' + ('' if self.wl_count == 1 else str(self.wl_count))
        types = [env[v] for v in carried]
        def call(fuel):
            def cont(env2, node=None):
                for v, t in zip(carried, types):
                    if env2.get(v) != t: bad(node or s, f'type of {v} changes in the loop')
                return ('raw', ' '.join([fname] + [lname(v) for v in free] + [fuel] + [self.lvar(v) for v in carried]))
            return cont
        env_body = {v: t for v, t in env.items() if v.startswith('#') or v in free or v in carried or not self.is_value(t)}
        self.wl_stack.append(call('fuel_'))
        try:
            body = self.block(list(s.body), env_body, call('fuel_'), set(carried))
        finally:
            self.wl_stack.pop()
        from .core import render
        params = ''.join(f' ({lname(v)} : {self.lean_type(env[v])})' for v in free)
        sig = ' → '.join(['Nat'] + [atom(self.lean_type(t)) for t in types] + [self.loop_result_type()])
        pats = ', '.join(self.lvar(v) for v in carried)
        text = (f'/-- the `while True:` loop of `{self.pyname}` (line {s.lineno}); carried: {", ".join(carried)} -/\n'
                f'def {fname}{params} : {sig}\n'
                f'  | 0, {pats} => {self.out_of_fuel(env_body)}\n'
                f'  | fuel_ + 1, {pats} =>\n' + '\n'.join(render(body, 2, self.style)) + '\n')
        self.aux_defs.append(text)
        return call(self.FUEL)(env)

    def is_value(self, ty):
        """does a variable of this type exist in the Lean text (constants folded by the translator do not)"""
        return True

    # ---- search loop
    def search_loop(self, s):
        it = s.iter
        if not (isinstance(s.target, ast.Name) and isinstance(it, ast.Call) and isinstance(it.func, ast.Name) and it.func.id == 'range' and
                len(it.args) == 2 and not it.keywords): return False
        if len(s.body) != 1 or not isinstance(s.body[0], ast.If): return False
        i = s.body[0]
        return not i.orelse and len(i.body) == 1 and isinstance(i.body[0], ast.Break)

    def for_(self, s, env, go, live):
        if not self.search_loop(s):
            return super().for_(s, env, go, live)
        x = s.target.id
        B = []
        lo, lty = self.expr(s.iter.args[0], env, B)
        hi, hty = self.expr(s.iter.args[1], env, B)
        if lty != self.T.INT or hty != self.T.INT: bad(s, 'range of a non-int')
        env_c = dict(env); env_c[x] = self.T.INT
        Bc = []
        c = self.cond(s.body[0].test, env_c, Bc)
        cond_tree = self.wrap(Bc, ('raw', f'.ok {atom(c)}'))
        top = set()
        for st in s.orelse:
            if isinstance(st, ast.Assign): top |= set().union(*[_targets(t) for t in st.targets])
        if x in live and x not in top: bad(s, f'{x} is read after the loop but `else:` does not assign it')
        vars_ = sorted(set(self.join_vars([s.orelse], env, live)) | ({x} if x in live else set()))
        found = self.tmp()
        env_some = dict(env); env_some[x] = self.T.INT
        brs = [lambda k: k(env_some), lambda k: self._seq(s.orelse, dict(env), k, set(vars_))]
        trees, types, views = self.run_join(brs, env, vars_, s)
        env2 = dict(env)
        for v, t in zip(vars_, types): env2[v] = t
        env2.update(views)
        m = ('match', found, [(f'some {lname(x)}', trees[0]), ('none', trees[1])])
        rest = joinc(tuple_pat([self.lvar(v) for v in vars_]), m, self.T.tuple_type(types), go(env2))
        return self.wrap(B, ('rangefind', found, atom(lo), atom(hi), lname(x), cond_tree, rest))

    # ---- try … finally as the last statement
    def try_finally_last(self, s, rest, env, k, live):
        if s.handlers or s.orelse: bad(s, 'try/except/finally')
        if rest: bad(rest[0], 'statements after try/finally')
        for n in s.finalbody:
            for x in ast.walk(n):
                if isinstance(x, (ast.Return, ast.Break, ast.Continue)): bad(x, 'return/break/continue inside finally')
        def fell(env2): bad(s, 'the body of try/finally may fall through')
        body = self.block(list(s.body), dict(env), fell, set())
        fin = self.block(list(s.finalbody), dict(env), lambda env2: ('raw', self.finally_ok(env2)), set())
        return ('tryfinally', body, self.finally_param(), fin)


def render_extra(node, ind, st, render):
    """the output-tree nodes of this module; call from Style.extra"""
    pad = '  ' * ind
    k = node[0]
    if k == 'rangefind':
        _, found, lo, hi, ivar, cond, rest = node
        return ([pad + f'match {st.range_find} {lo} {hi} (fun {ivar} =>'] + render(cond, ind + 2, st) + [pad + '  ) with',
                pad + '| .error e => .error e', pad + f'| .ok {found} =>'] + render(rest, ind + 1, st))
    if k == 'tryfinally':
        _, body, param, fin = node
        return ([pad + f'{st.try_finally} ('] + render(body, ind + 2, st) + [pad + f'  ) (fun {param} =>'] + render(fin, ind + 2, st) + [pad + '  )'])
    raise AssertionError(k)
