"""pytr.core — the reusable part of the Python→Lean translators of /verif (first user: mo2lean.py).

A shallow, typed, statement-by-statement translation in continuation style:

  x = e ; rest                 let x := e; rest            (partial e:  match e with | .error e => .error e | .ok x => rest)
  if c: A else: B ; rest       a branch that always raises/returns takes no part in the join; otherwise
                               match (show Except ε τ from if c then A' else B') with | .error e => .error e | .ok vars => rest
                               (vars = the variables assigned in A/B that are read later; types joined)
  if x is None / is not None   match x with | none => … | some x => …      (flow typing)
  assert c                     if c then rest else <AssertionError>
  try: A except C: H           <kit>.tryExcept A' <caught C> H'
  for i in range(n): A         <kit>.forRange n (fun i vars => A') vars

What is NOT here and is supplied by each translator (a subclass of `Stmts`): the types of its domain, the translation of
expressions, assignments, calls, `raise`, `with`.  Anything a translator cannot follow raises `Untranslatable`.
"""
import ast


class Untranslatable(Exception):
    pass

def bad(node, why):
    line = getattr(node, 'lineno', '?')
    raise Untranslatable(f'line {line}: {why}')

RESERVED = {'at', 'end', 'from', 'if', 'then', 'else', 'match', 'with', 'do', 'let', 'have', 'fun', 'in', 'instance', 'structure', 'def',
            'theorem', 'open', 'namespace', 'section', 'variable', 'import', 'where', 'deriving', 'class', 'show', 'by', 'mutual', 'macro',
            'syntax', 'notation', 'prefix', 'infix', 'infixl', 'infixr', 'postfix', 'out', 'msgPrefix', 'local', 'private', 'protected', 'partial', 'unsafe', 'universe', 'example', 'abbrev', 'inductive',
            'extends', 'for', 'unless', 'try', 'catch', 'finally', 'mut', 'break', 'continue', 'return', 'nomatch', 'nofun', 'Type', 'Sort',
            'Prop', 'db', 'Mo', 'e', 'Self', 'fileContents', 'Parser', 'begin', 'using', 'exact', 'calc', 'this', 'suffices', 'obtain', 'true', 'false', 'none', 'some'}

_mangled = {}

def lname(name):
    if not all(c.isalnum() or c == '_' for c in name) or not name.isascii():
        raise Untranslatable(f'identifier {name!r}')
    m = name + '_' if (name in RESERVED or name.startswith('tmp') or name == '_') else name
    if _mangled.setdefault(m, name) != name:
        raise Untranslatable(f'identifiers {name!r} and {_mangled[m]!r} would both become `{m}`')
    return m

def atom(t):
    """parenthesise unless already atomic"""
    if t.replace('_', 'a').replace('.', 'a').isalnum(): return t
    if (t[0], t[-1]) in (('(', ')'), ('[', ']')):
        depth = 0
        for i, c in enumerate(t):
            if c in '([': depth += 1
            elif c in ')]':
                depth -= 1
                if depth == 0 and i != len(t) - 1: break
        else:
            return t
    return f'({t})'

class Style:
    """how the tree is printed: the Lean exception type and the names of the kit combinators"""
    def __init__(self, err, try_fn, for_fn):
        self.err, self.try_fn, self.for_fn = err, try_fn, for_fn
    def extra(self, node, ind):
        raise AssertionError(node[0])


def render(node, ind, st):
    """node: ('raw', text) | ('let', name, expr, rest) | ('bind', pat, comp, rest) | ('if', cond, a, b)
            | ('match', scrut, [(pat, body)]) | ('join', pat, comp_tree, type, rest)"""
    pad = '  ' * ind
    k = node[0]
    if k == 'raw':
        return [pad + node[1]]
    if k == 'let':
        return [pad + f'let {node[1]} := {node[2]}'] + render(node[3], ind, st)
    if k == 'bind':
        _, pat, comp, rest = node
        return [pad + f'match {comp} with', pad + '| .error e => .error e', pad + f'| .ok {pat} =>'] + render(rest, ind + 1, st)
    if k == 'if':
        _, cond, a, b = node
        return [pad + f'if {cond} then'] + render(a, ind + 1, st) + [pad + 'else'] + render(b, ind + 1, st)
    if k == 'match':
        out = [pad + f'match {node[1]} with']
        for pat, body in node[2]:
            out += [pad + f'| {pat} =>'] + render(body, ind + 1, st)
        return out
    if k == 'join':
        _, pat, comp, ty, rest = node
        return ([pad + 'match (show Except ' + st.err + ' ' + ty + ' from'] + render(comp, ind + 2, st) + [pad + '  ) with',
                pad + '| .error e => .error e', pad + f'| .ok {pat} =>'] + render(rest, ind + 1, st))
    if k == 'tryexpr':
        _, body, caught, handler, ty = node
        return ([pad + st.try_fn + ' (show Except ' + st.err + ' ' + ty + ' from'] + render(body, ind + 2, st) + [pad + f'  ) {caught} ('] +
                render(handler, ind + 2, st) + [pad + '  )'])
    if k == 'forexpr':
        _, pat, n, ivar, body, init = node
        return [pad + f'{st.for_fn} {n} (fun {ivar} {pat} =>'] + render(body, ind + 2, st) + [pad + f'  ) {init}']
    return st.extra(node, ind)

def bind(pat, comp, rest):
    """match comp with | .error e => .error e | .ok pat => rest     (and   … | .ok pat => .ok pat   is   comp)"""
    if rest == ('raw', f'.ok {pat}') and pat != '_':
        return ('raw', comp)
    return ('bind', pat, comp, rest)

def joinc(pat, comp, ty, rest):
    if rest == ('raw', f'.ok {pat}'):
        return comp
    return ('join', pat, comp, ty, rest)

def tuple_pat(names):
    if not names: return '()'
    if len(names) == 1: return names[0]
    return '(' + ', '.join(names) + ')'

# ----------------------------------------------------------------------------- syntactic helpers

def is_self_attr(node, name=None):
    return isinstance(node, ast.Attribute) and isinstance(node.value, ast.Name) and node.value.id == 'self' and (name is None or node.attr == name)

def assigned_names(stmts, writes=None):
    """names (and 'self') assigned anywhere in the statements; writes: method name -> does it assign attributes"""
    out = set()
    w = (lambda m: True) if writes is None else (lambda m: writes.get(m, True))
    def target(t):
        if isinstance(t, ast.Name): out.add(t.id)
        elif isinstance(t, (ast.Tuple, ast.List)):
            for x in t.elts: target(x)
        elif isinstance(t, ast.Starred): target(t.value)
        elif isinstance(t, ast.Attribute):
            root = t
            while isinstance(root, ast.Attribute): root = root.value
            if isinstance(root, ast.Name): out.add(root.id)
        elif isinstance(t, ast.Subscript):          # d[k] = v
            root = t.value
            while isinstance(root, (ast.Attribute, ast.Subscript)): root = root.value
            if isinstance(root, ast.Name): out.add(root.id)
    for s in stmts:
        for n in ast.walk(s):
            if isinstance(n, ast.Assign):
                for t in n.targets: target(t)
            elif isinstance(n, (ast.AugAssign, ast.AnnAssign)):
                target(n.target)
            elif isinstance(n, ast.For):
                target(n.target)
            elif isinstance(n, ast.With):
                for it in n.items:
                    if it.optional_vars is not None: target(it.optional_vars)
            elif isinstance(n, ast.Expr) and isinstance(n.value, ast.Call) and isinstance(n.value.func, ast.Attribute):
                f = n.value.func          # mutating method call statements: x.update(...), self.instance.append(...), self._m(...)
                root = f.value
                while isinstance(root, ast.Attribute): root = root.value
                if is_self_attr(f):
                    if w(f.attr): out.add('self')
                elif isinstance(root, ast.Name): out.add(root.id)
            elif isinstance(n, ast.Call) and is_self_attr(n.func):
                if w(n.func.attr): out.add('self')
    return out

def read_names(stmts):
    out = set()
    for s in stmts:
        for n in ast.walk(s):
            if isinstance(n, ast.Name) and isinstance(n.ctx, ast.Load):
                out.add(n.id)
    return out

def read_before_write(stmts):
    """names that may be read in the block before the block itself assigns them (top-level, conservative)"""
    written, out = set(), set()
    for s in stmts:
        out |= read_names([s]) - written
        if isinstance(s, ast.Assign) and all(isinstance(t, ast.Name) for t in s.targets):
            written |= {t.id for t in s.targets}
    return out

TERMINATORS = [ast.Raise, ast.Return]      # pytr.loops adds ast.Continue / ast.Break for translators that follow them

def terminates(stmts):
    """every path through the statements ends in raise/return (or another statement listed in TERMINATORS)"""
    for s in stmts:
        if isinstance(s, tuple(TERMINATORS)):
            return True
        if isinstance(s, ast.If) and s.orelse and terminates(s.body) and terminates(s.orelse):
            return True
        if isinstance(s, ast.Try) and not s.finalbody and not s.orelse and terminates(s.body) and all(terminates(h.body) for h in s.handlers):
            return True
    return False

def contains(stmts, kinds):
    return any(isinstance(n, kinds) for s in stmts for n in ast.walk(s))

def escapes(stmts):
    """do the statements contain a `return`, or a `break` / `continue` that belongs to an ENCLOSING loop (not to a loop nested in them)?"""
    def walk(n, in_loop):
        if isinstance(n, ast.Return): return True
        if isinstance(n, (ast.Break, ast.Continue)): return not in_loop
        if isinstance(n, (ast.FunctionDef, ast.Lambda)): return False
        if isinstance(n, (ast.For, ast.While)):
            return any(walk(c, True) for c in n.body) or any(walk(c, in_loop) for c in n.orelse)
        return any(walk(c, in_loop) for c in ast.iter_child_nodes(n))
    return any(walk(s, False) for s in stmts)

# ----------------------------------------------------------------------------- statements

class Stmts:
    """Statement layer.  A translator subclasses this and provides
         T            type operations: NONE, INT, join(a, b, node), coerce(text, frm, to, node), tuple_type(types)
         STATE        Python name of the threaded state variable (`self`), STATE_L its Lean name; self.writes: is it assigned here
         writes_map   method name -> does the method assign state (for `assigned_names`)
         EXC_ASSERT   Lean text of the AssertionError outcome;  CAUGHT: exception class name -> Lean predicate
         note(msg)    record a statement discharged statically
         expr, cond, value, assign, call_stmt, raise_, with_, try_finally, ok   (domain specific)"""
    STATE = 'self'
    STATE_L = 'self'
    CAUGHT = {}
    DUPLICATE_ON_RETURN = False     # `return` on some paths of a non-terminating branch: copy the continuation into both branches

    def lvar(self, v):
        """Lean name of a Python variable"""
        return self.STATE_L if v == self.STATE else lname(v)

    def tmp(self):
        self.ntmp += 1
        return f'tmp{self.ntmp}'

    def wrap(self, B, tree):
        for b in reversed(B):
            tree = b(tree)
        return tree

    def hoist(self, B, comp, pat=None):
        t = pat or self.tmp()
        B.append(lambda rest, t=t, comp=comp: bind(t, comp, rest))
        return t

    def fall_off(self, env):
        return self.ok('()', self.T.NONE, env)

    def none_test(self, e, env):
        """(name, is_not) if e is `<local name> is [not] None`"""
        if isinstance(e, ast.Compare) and len(e.ops) == 1 and isinstance(e.ops[0], (ast.Is, ast.IsNot)) and \
           isinstance(e.comparators[0], ast.Constant) and e.comparators[0].value is None and isinstance(e.left, ast.Name) and e.left.id in env:
            return e.left.id, isinstance(e.ops[0], ast.IsNot)
        return None

    def state_pat(self, t, w, ty):
        """pattern binding the result of a call that may thread the state"""
        if not w: return t
        return f'({t}, {self.STATE_L})' if ty != self.T.NONE else self.STATE_L

    def block(self, stmts, env, k, live):
        """stmts in env, then the continuation k(env) -> tree.  live: names read by the continuation."""
        if not stmts:
            return k(env)
        s, rest = stmts[0], stmts[1:]
        live_rest = self.live_after(rest, live)
        go = lambda env2: self.block(rest, env2, k, live)
        B = []
        if isinstance(s, ast.Pass):
            return go(env)
        if isinstance(s, ast.Expr) and isinstance(s.value, ast.Constant):
            return go(env)
        if isinstance(s, ast.Return):
            if s.value is None: return self.ok('()', self.T.NONE, env, s)
            kind, text, ty, w = self.value(s.value, env, B)
            if kind == 'comp':
                t = self.tmp()
                B.append(lambda r, t=t, text=text, w=w, ty=ty: bind(self.state_pat(t, w, ty), text, r))
                text = t if not (w and ty == self.T.NONE) else '()'
            return self.wrap(B, self.ok(text, ty, env, s))
        if isinstance(s, ast.Raise):
            return self.wrap(B, ('raw', self.raise_(s, env, B)))
        if isinstance(s, ast.Assert):
            nt = self.none_test(s.test, env)
            if nt and nt[1] and env[nt[0]][0] == 'opt':
                x = nt[0]
                env2 = dict(env); env2[x] = env[x][1]
                return ('match', lname(x), [('none', ('raw', self.EXC_ASSERT)), (f'some {lname(x)}', go(env2))])
            c = self.cond(s.test, env, B)
            return self.wrap(B, ('if', c, go(env), ('raw', self.EXC_ASSERT)))
        if isinstance(s, ast.Assign):
            if len(s.targets) != 1: return self.assign_chain(s, env, go)
            return self.assign(s.targets[0], s.value, s, env, go)
        if isinstance(s, ast.AugAssign) and isinstance(s.target, ast.Name):
            # x op= e   is   x = x op e
            load = ast.copy_location(ast.Name(id=s.target.id, ctx=ast.Load()), s)
            val = ast.copy_location(ast.BinOp(left=load, op=s.op, right=s.value), s)
            return self.assign(s.target, val, s, env, go)
        if isinstance(s, ast.Expr) and isinstance(s.value, ast.Call):
            return self.call_stmt(s.value, s, env, go)
        if isinstance(s, ast.If):
            return self.if_(s, env, go, live_rest)
        if isinstance(s, ast.Try):
            return self.try_(s, env, go, live_rest)
        if isinstance(s, ast.For):
            return self.for_(s, env, go, live_rest)
        if isinstance(s, ast.With):
            return self.with_(s, env, go)
        return self.other_stmt(s, rest, env, k, live)

    def live_after(self, rest, live):
        """names the statements `rest` followed by a continuation reading `live` may read (default: every name read anywhere in rest)"""
        return read_names(rest) | live | ({self.STATE} if self.writes else set())

    def assign_chain(self, s, env, go):
        """a = b = <value without partial operations>"""
        B = []
        t, ty = self.expr(s.value, env, B)
        if B or not all(isinstance(x, ast.Name) for x in s.targets): bad(s, 'multiple assignment targets')
        env2 = dict(env)
        names = [x.id for x in s.targets]
        for n in names: env2[n] = ty
        tree = go(env2)
        for n in reversed(names):
            tree = ('let', lname(n), t, tree)
        return tree

    def other_stmt(self, s, rest, env, k, live):
        bad(s, f'statement {type(s).__name__}')

    def with_(self, s, env, go):
        bad(s, 'with')

    def try_finally(self, s, env, go, live):
        bad(s, 'try/finally')

    # ---- joins
    def join_vars(self, blocks, env, live):
        """variables assigned in the blocks that the continuation reads"""
        names = set()
        for b in blocks: names |= assigned_names(b, self.writes_map)
        return sorted(n for n in names if n in live)

    def run_join(self, branches, env, vars_, node):
        """branches: list of functions (k -> tree).  Two passes: collect the types of vars_ at the end of every branch that
        falls through, then emit with coercions.  -> (trees, types, auxiliary facts) or raises"""
        ends = []
        def probe(env2):
            ends.append(env2)
            return ('raw', '.ok default')
        saved = self.ntmp
        for br in branches: br(probe)
        self.ntmp = saved
        types = []
        for v in vars_:
            ty = None
            for en in ends:
                if v not in en: bad(node, f'{v} may be unbound after this statement')
                ty = en[v] if ty is None else self.T.join(ty, en[v], node)
            if ty is None: ty = env.get(v, self.T.NONE)
            types.append(ty)
        def final(env2):
            vals = [self.T.coerce(self.lvar(v), env2[v], t, node) for v, t in zip(vars_, types)]
            return ('raw', '.ok ' + tuple_pat(vals))
        trees = [br(final) for br in branches]
        views = {}
        for v in vars_:
            views['#view:' + v] = all(en.get('#view:' + v, False) for en in ends) if ends else False
        return trees, types, views

    def if_(self, s, env, go, live):
        B = []
        nt = self.none_test(s.test, env)
        def mk(then_tree, else_tree):
            if nt:
                x, is_not = nt
                ty = env[x]
                if ty == self.T.NONE: return else_tree if is_not else then_tree
                if ty[0] != 'opt': return then_tree if is_not else else_tree
                none_t, some_t = (else_tree, then_tree) if is_not else (then_tree, else_tree)
                return ('match', lname(x), [('none', none_t), (f'some {lname(x)}', some_t)])
            return ('if', c, then_tree, else_tree)
        def envs():
            e_then, e_else = dict(env), dict(env)
            if nt and env[nt[0]][0] == 'opt':
                x, is_not = nt
                (e_then if is_not else e_else)[x] = env[x][1]
            return e_then, e_else
        static = None
        if nt:
            ty = env[nt[0]]
            if ty == self.T.NONE: static = not nt[1]
            elif ty[0] != 'opt': static = nt[1]
            c = None
        else:
            c = self.cond(s.test, env, B)
        e_then, e_else = envs()
        if static is not None:
            # `x is None` decided by the type of x: only one branch exists
            self.note(f'{self.name} line {s.lineno}: `{ast.unparse(s.test)}` is {static} by typing; the other branch is dropped')
            body = s.body if static else s.orelse
            return self.block(list(body), env, go, live)
        t_then, t_else = terminates(s.body), terminates(s.orelse)
        if t_then and t_else:
            return self.wrap(B, mk(self._seq(s.body, e_then, None, live), self._seq(s.orelse, e_else, None, live)))
        if t_then:
            return self.wrap(B, mk(self._seq(s.body, e_then, None, live), self._seq(s.orelse, e_else, go, live)))
        if t_else:
            return self.wrap(B, mk(self._seq(s.body, e_then, go, live), self._seq(s.orelse, e_else, None, live)))
        if escapes(s.body + s.orelse):
            if not self.DUPLICATE_ON_RETURN:
                bad(s, '`return` on some but not all paths of a branch')
            # no join: the rest of the block is translated once per branch
            return self.wrap(B, mk(self._seq(s.body, e_then, go, live), self._seq(s.orelse, e_else, go, live)))
        vars_ = self.join_vars([s.body, s.orelse], env, live)
        brs = [lambda k: self._seq(s.body, e_then, k, set(vars_)), lambda k: self._seq(s.orelse, e_else, k, set(vars_))]
        trees, types, views = self.run_join(brs, env, vars_, s)
        env2 = dict(env)
        for v, t in zip(vars_, types): env2[v] = t
        env2.update(views)
        return self.wrap(B, joinc(tuple_pat([self.lvar(v) for v in vars_]), mk(trees[0], trees[1]), self.T.tuple_type(types), go(env2)))

    def _seq(self, stmts, env, k, live):
        """a nested block; k=None: the block terminates by itself"""
        if k is None:
            def k(env2): raise AssertionError('fell through a terminating block')
        return self.block(list(stmts), env, k, live)

    def try_(self, s, env, go, live):
        if s.orelse: bad(s, 'try/else')
        if s.finalbody:
            return self.try_finally(s, env, go, live)
        if len(s.handlers) != 1: bad(s, 'several except clauses')
        h = s.handlers[0]
        if h.name is not None or not isinstance(h.type, ast.Name) or h.type.id not in self.CAUGHT: bad(s, f'except clause {ast.unparse(h.type) if h.type else ""}')
        if contains(s.body + h.body, (ast.Return,)): bad(s, '`return` inside try')
        vars_ = self.join_vars([s.body, h.body], env, live)
        if self.STATE in vars_: bad(s, 'attribute assignment inside try (state at the time of the exception)')
        brs = [lambda k: self._seq(s.body, dict(env), k, set(vars_)), lambda k: self._seq(h.body, dict(env), k, set(vars_))]
        trees, types, views = self.run_join(brs, env, vars_, s)
        env2 = dict(env)
        for v, t in zip(vars_, types): env2[v] = t
        env2.update(views)
        ty = self.T.tuple_type(types)
        return joinc(tuple_pat([self.lvar(v) for v in vars_]), ('tryexpr', trees[0], self.CAUGHT[h.type.id], trees[1], ty), ty, go(env2))

    def loop_vars(self, s, env, live, targets):
        """the loop-carried variables of `for …: body` (assigned in the body and read in a later iteration or after the loop)"""
        assigned = assigned_names(s.body, self.writes_map)
        carried = read_before_write(s.body) | live
        nested = set()          # targets of nested loops: written before read in every iteration of their own loop
        for n in s.body:
            for x in ast.walk(n):
                if isinstance(x, ast.For):
                    nested |= {t.id for t in ast.walk(x.target) if isinstance(t, ast.Name)}
        vars_ = sorted(v for v in assigned if v in carried and v not in targets and not (v in nested and v not in live))
        for v in vars_:
            if v not in env: bad(s, f'{v} is assigned in the loop and used outside one iteration but not bound before the loop')
        for t in targets:
            # (a loop variable read after the loop without being bound before it is an unknown identifier in the output: the build fails)
            if t in live and t in env: bad(s, 'loop variable used after the loop')
        return vars_

    def check_loop_types(self, s, env_body, vars_, types):
        ends = []
        def probe(env2):
            ends.append(env2); return ('raw', '.ok default')
        saved = self.ntmp
        self._seq(s.body, env_body, probe, set(vars_))
        self.ntmp = saved
        for en in ends:
            for v, t in zip(vars_, types):
                if self.T.join(t, en[v], s) != t: bad(s, f'type of {v} changes in the loop')

    def for_(self, s, env, go, live):
        """`for i in range(n)` (one argument), no break/continue/return inside"""
        if s.orelse: bad(s, 'for/else')
        if contains(s.body, (ast.Return, ast.Break, ast.Continue)): bad(s, 'return/break/continue inside for')
        it = s.iter
        if not (isinstance(it, ast.Call) and isinstance(it.func, ast.Name) and it.func.id == 'range' and len(it.args) == 1 and not it.keywords and isinstance(s.target, ast.Name)):
            bad(s, 'for loop other than `for i in range(n)`')
        B = []
        n, nty = self.expr(it.args[0], env, B)
        if nty != self.T.INT: bad(s, 'range of a non-int')
        ivar = s.target.id
        if ivar in assigned_names(s.body, self.writes_map): bad(s, 'loop variable assigned in the body')
        vars_ = self.loop_vars(s, env, live, [ivar])
        types = [env[v] for v in vars_]
        env_body = dict(env); env_body[ivar] = self.T.INT
        self.check_loop_types(s, env_body, vars_, types)
        def final(env2):
            return ('raw', '.ok ' + tuple_pat([self.T.coerce(self.lvar(v), env2[v], t, s) for v, t in zip(vars_, types)]))
        body = self._seq(s.body, env_body, final, set(vars_))
        pat = tuple_pat([self.lvar(v) for v in vars_])
        return self.wrap(B, joinc(pat, ('forexpr', pat, atom(n), lname(ivar), body, pat), self.T.tuple_type(types), go(dict(env))))
