"""pytr.trystate — `try: BODY except C1: H1 except C2: H2 …` where BODY assigns variables (or emits output) that the handlers or the code
after the statement read: the handlers see the state AT THE TIME OF THE EXCEPTION (added for check_plurals: the 200-value window loop).

Mix `TryState` in before `Loops` and `Stmts`:  class Fn(TryState, Loops, Stmts).  The translator supplies
    CAUGHT_CLASS      exception class name -> Lean term of the exception type (compared with `=`; the type has DecidableEq)
    lean_type(t)      Lean text of a type

Translation (χ: the snapshot variables = assigned in BODY and read by a handler or later; τ: the variables the statement delivers):

    match (show Except ε τ from
        match (show Except ε (PyKit.TryEnd ε χ τ) from BODY') with
        | .error e => .error e
        | .ok (.raised e snap) => if e = C1 then H1' else if e = C2 then H2' else .error e
        | .ok (.done r) => .ok r) with
    | .error e => .error e
    | .ok vars => rest

BODY' is the ordinary translation of BODY in which every point where an exception can arise (`| .error e => .error e` of a partial
operation, a `raise`) yields `.ok (.raised e (the snapshot variables, as they are bound there))` instead; inside a `for` of BODY the
iteration yields `.ok (.ret (e, snapshot))` and the loop statement passes it on (such loops are always translated with PyKit.forEachCtl).
A nested block that delivers its variables through a join (`if` with two live branches, a nested loop without break) is opaque: the
snapshot is taken where the block ends, which is only right if the block does not assign a snapshot variable before a point where it can
raise — otherwise Untranslatable.
"""
import ast, re
from .core import bad, tuple_pat, joinc, contains, assigned_names, read_names
from .loops import reads_before_writes

class TryState:
    CAUGHT_CLASS = {}

    def try_state(self, s, env, go, live):
        if s.orelse or s.finalbody: bad(s, 'try/else, try/finally')
        if contains(s.body, (ast.Return,)): bad(s, '`return` inside try')
        classes = []
        for h in s.handlers:
            if h.name is not None or not isinstance(h.type, ast.Name) or h.type.id not in self.CAUGHT_CLASS or h.type.id in env:
                bad(s, f'except clause {ast.unparse(h.type) if h.type else ""}')
            classes.append(self.CAUGHT_CLASS[h.type.id])
        assigned = assigned_names(s.body, self.writes_map)
        handler_reads = set()
        for h in s.handlers: handler_reads |= reads_before_writes(h.body)[0] | ({self.STATE} if self.writes else set())
        snap = sorted(v for v in assigned if v in handler_reads or v in live)
        jvars = self.join_vars([s.body] + [h.body for h in s.handlers], env, live)
        self.try_depth = getattr(self, 'try_depth', 0) + 1
        self.seen_targets = getattr(self, 'seen_targets', {})
        try:
            # the types of the snapshot variables: as before the statement, or (for a loop variable of BODY) as bound by its loop
            def probe(env2): return ('raw', '.ok default')
            saved = self.ntmp
            q = getattr(self, 'quiet', 0); self.quiet = q + 1
            self._seq(s.body, dict(env), probe, set(jvars))
            self.quiet = q
            self.ntmp = saved
            stypes = []
            for v in snap:
                if v in env: stypes.append(env[v])
                elif v in self.seen_targets: stypes.append(self.seen_targets[v])
                else: bad(s, f'{v} is assigned in the try body, read by a handler, and not bound before the statement')
            env_h = {k: t for k, t in env.items() if k not in assigned}
            for v, t in zip(snap, stypes): env_h[v] = t
            brs = [lambda k: self._seq(s.body, dict(env), k, set(jvars))]
            for h in s.handlers:
                brs.append(lambda k, h=h: self._seq(h.body, dict(env_h), k, set(jvars)))
            # run_join: probe (types of the delivered variables), then the final trees ending in `.ok <delivered>`
            trees, types, views = self.run_join(brs, env, jvars, s)
        finally:
            self.try_depth -= 1
        snap_pat = tuple_pat([self.lvar(v) for v in snap])
        chi = self.T.tuple_type(stypes)
        tau = self.T.tuple_type(types)
        body = self._spine(self._done(trees[0]), snap_pat, chi, 'try', [self.lvar(v) for v in snap], s)
        dispatch = ('raw', '.error e')
        for c, t in reversed(list(zip(classes, trees[1:]))):
            dispatch = ('if', f'e = {c}', t, dispatch)
        env2 = dict(env)
        for v, t in zip(jvars, types): env2[v] = t
        env2.update(views)
        node = ('matchtry', body, chi, tau, snap_pat, dispatch)
        return joinc(tuple_pat([self.lvar(v) for v in jvars]), node, tau, go(env2))

    def _done(self, tree):
        """the normal ends of BODY (`.ok <delivered>` leaves produced by run_join's final continuation) become `.ok (.done …)`"""
        k = tree[0]
        if k == 'raw':
            t = tree[1]
            if t.startswith('.ok '): return ('raw', f'.ok (.done {self._atom(t[4:])})')
            return tree
        if k == 'let': return ('let', tree[1], tree[2], self._done(tree[3]))
        if k == 'bind': return ('bind', tree[1], tree[2], self._done(tree[3]))
        if k == 'if': return ('if', tree[1], self._done(tree[2]), self._done(tree[3]))
        if k == 'match': return ('match', tree[1], [(p, self._done(b)) for p, b in tree[2]])
        if k == 'join': return ('join', tree[1], tree[2], tree[3], self._done(tree[4]))
        if k == 'matchctl':
            _, node, ret, spat, a, b = tree
            return ('matchctl', node, ret, spat, self._done(a), self._done(b))
        bad(None, f'try body: {k}')

    @staticmethod
    def _atom(t):
        from .core import atom
        return atom(t)

    def _spine(self, tree, snap_pat, chi, mode, snap_names, node):
        """rewrite the points of `tree` (whose leaves have the type of the try body, or of a loop iteration inside it) where an exception arises"""
        raised = (lambda e: f'.ok (.raised {e} {snap_pat})') if mode == 'try' else (lambda e: f'.ok (.ret ({e}, {snap_pat}))')
        rec = lambda t, m=mode: self._spine(t, snap_pat, chi, m, snap_names, node)
        k = tree[0]
        if k == 'raw':
            t = tree[1]
            if t.startswith('.error '): return ('raw', raised(self._atom(t[7:])))
            return tree
        if k == 'let': return ('let', tree[1], tree[2], rec(tree[3]))
        if k == 'bind': return ('bindx', tree[1], tree[2], raised('e'), rec(tree[3]))
        if k == 'if': return ('if', tree[1], rec(tree[2]), rec(tree[3]))
        if k == 'match': return ('match', tree[1], [(p, rec(b)) for p, b in tree[2]])
        if k == 'join':
            self._opaque_ok(tree[2], snap_names, node)
            return ('joinx', tree[1], tree[2], tree[3], raised('e'), rec(tree[4]))
        if k == 'matchctl':
            _, loop, ret, spat, a, b = tree
            if ret is not None or loop[0] != 'foreach': bad(node, '`return` in a loop inside try')
            _, fn, xs, epat, lpat, body, init = loop
            fn2 = fn.split(' (ρ')[0] + f' (ρ := {self.STYLE_ERR} × {chi})'
            loop2 = ('foreach', fn2, xs, epat, lpat, rec(body, 'loop'), init)
            passed = '.ok (.raised r.1 r.2)' if mode == 'try' else '.ok (.ret r)'
            return ('matchctl', loop2, ('raw', passed), spat, rec(a), rec(b))
        bad(node, f'try body: {k}')

    def _opaque_ok(self, comp, snap_names, node):
        """a nested computation whose exceptions surface at its end: it must not assign a snapshot variable if it can raise"""
        raises, binds = [False], [False]
        pat = re.compile(r'\b(' + '|'.join(re.escape(n) for n in snap_names) + r')\b') if snap_names else None
        def names_in(p):
            return bool(pat and pat.search(p))
        def walk(t):
            k = t[0]
            if k == 'raw':
                if t[1].startswith('.error '): raises[0] = True
            elif k == 'let':
                if names_in(t[1]): binds[0] = True
                walk(t[3])
            elif k in ('bind', 'bindx'):
                raises[0] = True
                if names_in(t[1]): binds[0] = True
                walk(t[-1])
            elif k == 'if': walk(t[2]); walk(t[3])
            elif k == 'match':
                for p, b in t[2]:
                    walk(b)
            elif k in ('join', 'joinx'):
                raises_before = raises[0]
                walk(t[2]); walk(t[-1])
                if names_in(t[1]): binds[0] = True
            elif k == 'foreach':
                if names_in(t[4]): binds[0] = True
                walk(t[5])
            elif k == 'matchctl':
                walk(t[1]); walk(t[4]); walk(t[5])
                if t[2] is not None: walk(t[2])
            elif k == 'matchret':
                walk(t[1]); walk(t[2]); walk(t[4])
            else:
                raises[0] = binds[0] = True
        walk(comp)
        if raises[0] and binds[0]:
            bad(node, 'a nested block of the try body assigns a variable the handlers read and can raise (state at the time of the exception)')

def render_try(node, ind, st, render):
    """the tree nodes of this module; call from Style.extra"""
    pad = '  ' * ind
    k = node[0]
    if k == 'bindx':
        _, pat, comp, err, rest = node
        return [pad + f'match {comp} with', pad + f'| .error e => {err}', pad + f'| .ok {pat} =>'] + render(rest, ind + 1, st)
    if k == 'joinx':
        _, pat, comp, ty, err, rest = node
        return ([pad + 'match (show Except ' + st.err + ' ' + ty + ' from'] + render(comp, ind + 2, st) + [pad + '  ) with',
                pad + f'| .error e => {err}', pad + f'| .ok {pat} =>'] + render(rest, ind + 1, st))
    if k == 'matchtry':
        _, body, chi, tau, snap_pat, dispatch = node
        return ([pad + f'match (show Except {st.err} (PyKit.TryEnd {st.err} {chi} {tau}) from'] + render(body, ind + 2, st) + [pad + '  ) with',
                pad + '| .error e => .error e', pad + f'| .ok (.raised e {snap_pat}) =>'] + render(dispatch, ind + 1, st) +
                [pad + '| .ok (.done r) => .ok r'])
    return None
