"""pytr.loops — `for` over lists with `continue`, `break`, `return` and `else` (added for check_message / check_plurals / format_range).

Mix `Loops` in BEFORE `Stmts`:  class Fn(Loops, Stmts).  The translator supplies
    iter_spec(it, env, B) -> (Lean text of the list iterated, element type)      what `for … in <it>` runs over
    elem_pattern(target, ety, env) -> (Python target names, their types, Lean pattern)
and the kit names FOR_EACH / FOR_EACH_RET / FOR_EACH_CTL (PyKit.forEach, PyKit.forEachRet, PyKit.forEachCtl).

  for x in xs: A                                  forEach xs (fun x vars => A') vars                    (vars = loop-carried variables)
      continue                                    the end of the body: .ok vars        (with `return` in the loop: .ok (.inr vars))
  for x in xs: A   with `return e` inside         forEachRet …: `.inl r` leaves the function with r, `.inr vars` goes on
  for x in xs: A [else: E]  with `break` inside   forEachCtl …: the body yields .next vars | .brk vars | .ret r; the loop yields
                                                  .exhausted vars (then E runs) | .broke vars (E is skipped) | .ret r
"""
import ast
from . import core
from .core import bad, lname, atom, tuple_pat, joinc, contains, assigned_names

for _t in (ast.Continue, ast.Break):
    if _t not in core.TERMINATORS: core.TERMINATORS.append(_t)

def _names_stored(t, out):
    if isinstance(t, ast.Name): out.add(t.id)
    elif isinstance(t, (ast.Tuple, ast.List)):
        for x in t.elts: _names_stored(x, out)
    elif isinstance(t, ast.Starred): _names_stored(t.value, out)

def reads_before_writes(stmts, defined=frozenset()):
    """(names that may be read before the block assigns them, names definitely assigned when the block completes normally — None if it never does).
    Path-sensitive over if / try / with; loops are treated conservatively."""
    defined = set(defined)
    rbw = set()
    def reads(e):
        if e is None: return set()
        out = {n.id for n in ast.walk(e) if isinstance(n, ast.Name) and isinstance(n.ctx, ast.Load)}
        for c in ast.walk(e):           # names bound by a comprehension are its own
            if isinstance(c, (ast.ListComp, ast.SetComp, ast.GeneratorExp, ast.DictComp)):
                for g in c.generators:
                    bound = set(); _names_stored(g.target, bound)
                    out -= bound
        return out
    for s in stmts:
        if isinstance(s, ast.Assign):
            rbw |= reads(s.value) - defined
            for t in s.targets:
                if not isinstance(t, (ast.Name, ast.Tuple, ast.List)): rbw |= reads(t) - defined
                _names_stored(t, defined)
        elif isinstance(s, ast.AugAssign):
            rbw |= (reads(s.value) | reads(s.target) | ({s.target.id} if isinstance(s.target, ast.Name) else set())) - defined
        elif isinstance(s, ast.If):
            rbw |= reads(s.test) - defined
            r1, d1 = reads_before_writes(s.body, defined)
            r2, d2 = reads_before_writes(s.orelse, defined)
            rbw |= r1 | r2
            if d1 is None and d2 is None: return rbw, None
            defined = d2 if d1 is None else (d1 if d2 is None else d1 & d2)
        elif isinstance(s, ast.Try):
            r1, d1 = reads_before_writes(s.body, defined)
            rbw |= r1
            outs = [d1]
            for h in s.handlers:
                r, d = reads_before_writes(h.body, defined)
                rbw |= r; outs.append(d)
            outs = [o for o in outs if o is not None]
            if not outs: return rbw, None
            d = outs[0]
            for o in outs[1:]: d = d & o
            defined = d
            if s.finalbody:
                r, d = reads_before_writes(s.finalbody, defined); rbw |= r
                if d is None: return rbw, None
                defined = d
        elif isinstance(s, (ast.For, ast.While)):
            rbw |= reads(getattr(s, 'iter', None) or getattr(s, 'test', None)) - defined
            inner = set(defined)
            if isinstance(s, ast.For): _names_stored(s.target, inner)
            r, _ = reads_before_writes(s.body, inner); rbw |= r
            r, _ = reads_before_writes(s.orelse, defined); rbw |= r
        elif isinstance(s, (ast.Return, ast.Raise, ast.Continue, ast.Break)):
            for c in ast.iter_child_nodes(s): rbw |= reads(c) - defined
            return rbw, None
        else:
            rbw |= reads(s) - defined
    return rbw, defined

class Loops:
    def loop_vars(self, s, env, live, targets):
        """the loop-carried variables (as Stmts.loop_vars, with a path-sensitive reads-before-writes analysis of the body)"""
        assigned = assigned_names(s.body, self.writes_map)
        pre = set()
        for t in targets: pre.add(t)
        carried = reads_before_writes(s.body, pre)[0] | live
        vars_ = sorted(v for v in assigned if v in carried and v not in targets)
        for v in vars_:
            if v not in env: bad(s, f'{v} is assigned in the loop and used outside one iteration but not bound before the loop')
        for t in targets:
            if t in live and t in env: bad(s, 'loop variable used after the loop')
        return vars_

    FOR_EACH, FOR_EACH_RET, FOR_EACH_CTL = 'PyKit.forEach', 'PyKit.forEachRet', 'PyKit.forEachCtl'

    def loop_init(self):
        self.loops = []          # innermost last: {'cont': env -> tree, 'brk': env -> tree or None}
        self.depth = 0           # nesting of loops that may leave the function (`return` inside)

    # ---- results inside loops
    def loop_ok(self, v):
        """`.ok v` of a `return` at the current nesting"""
        if not self.loops: return f'.ok {atom(v)}'
        kind = self.loops[-1]['kind']
        if kind == 'ret': return f'.ok (.inl {atom(v)})'
        if kind == 'ctl': return f'.ok (.ret {atom(v)})'
        bad(None, '`return` inside a loop that was translated without one')

    def other_stmt(self, s, rest, env, k, live):
        if isinstance(s, ast.Continue) and self.loops:
            return self.loops[-1]['cont'](env)
        if isinstance(s, ast.Break) and self.loops and self.loops[-1]['brk'] is not None:
            return self.loops[-1]['brk'](env)
        return super().other_stmt(s, rest, env, k, live)

    def own_loop_contains(self, stmts, kinds):
        """do the statements contain one of `kinds` that belongs to THIS loop (not to a nested one)?"""
        def walk(n):
            if isinstance(n, kinds): return True
            if isinstance(n, (ast.For, ast.While)): return any(walk(c) for c in n.orelse)
            if isinstance(n, (ast.FunctionDef, ast.Lambda)): return False
            return any(walk(c) for c in ast.iter_child_nodes(n))
        return any(walk(s) for s in stmts)

    def for_iter(self, s, env, go, live):
        has_brk = self.own_loop_contains(s.body, (ast.Break,))
        if s.orelse and not has_brk: bad(s, 'for/else without break')
        B = []
        xs, ety = self.iter_spec(s.iter, env, B)
        targets, ttypes, epat = self.elem_pattern(s.target, ety, env)
        has_ret = contains(s.body, (ast.Return,))
        in_try = getattr(self, 'try_depth', 0) > 0      # pytr.trystate: an exception leaves the loop with the state of that moment
        if in_try and has_ret: bad(s, '`return` in a loop inside try')
        kind = 'ctl' if (has_brk or in_try) else ('ret' if has_ret else 'plain')
        if hasattr(self, 'seen_targets'):
            for x, t in zip(targets, ttypes): self.seen_targets[x] = t
        live_else = core.read_names(s.orelse) | live
        vars_ = self.loop_vars(s, env, live_else, targets)
        types = [env[v] for v in vars_]
        def body_env(types):
            eb = dict(env)
            for v, t in zip(vars_, types): eb[v] = t
            for x, t in zip(targets, ttypes): eb[x] = t
            return eb
        def state(env2, types):
            return tuple_pat([self.T.coerce(self.lvar(v), env2[v], t, s) for v, t in zip(vars_, types)])
        wrap_next = {'plain': '.ok {}', 'ret': '.ok (.inr {})', 'ctl': '.ok (.next {})'}[kind]
        if has_ret: self.depth += 1
        try:
            # types of the loop-carried variables: least fixpoint of the joins at the end of the body / at continue / at break
            self.quiet = getattr(self, 'quiet', 0) + 1
            saved_rt = self.ret_types
            for _ in range(6):
                ends = []
                def probe(env2):
                    ends.append(env2); return ('raw', '.ok default')
                saved = self.ntmp
                self.ret_types = [] if saved_rt is None else saved_rt
                self.loops.append({'kind': kind, 'cont': probe, 'brk': probe if kind == 'ctl' else None})
                try:
                    self._seq(s.body, body_env(types), probe, set(vars_))
                finally:
                    self.loops.pop()
                self.ntmp = saved
                new = list(types)
                for en in ends:
                    new = [self.T.join(t, en[v], s) for v, t in zip(vars_, new)]
                if new == types: break
                types = new
            else:
                bad(s, 'types of the loop variables do not stabilise')
            self.ret_types = saved_rt
            self.quiet -= 1
            final = lambda env2: ('raw', wrap_next.format(atom(state(env2, types))))
            brk = (lambda env2: ('raw', f'.ok (.brk {atom(state(env2, types))})')) if kind == 'ctl' else None
            self.loops.append({'kind': kind, 'cont': final, 'brk': brk})
            try:
                body = self._seq(s.body, body_env(types), final, set(vars_))
            finally:
                self.loops.pop()
        finally:
            if has_ret: self.depth -= 1
        pat = tuple_pat([self.lvar(v) for v in vars_])
        init = tuple_pat([self.T.coerce(self.lvar(v), env[v], t, s) for v, t in zip(vars_, types)])
        env2 = dict(env)
        for v, t in zip(vars_, types): env2[v] = t
        if kind == 'plain':
            node = ('foreach', self.FOR_EACH, xs, epat, pat, body, atom(init))
            return self.wrap(B, joinc(pat, node, self.T.tuple_type(types), go(env2)))
        ret = ('raw', self.loop_ok('r')) if (has_ret and True) else ('raw', '.error default')
        if kind == 'ret':
            node = ('foreach', self.FOR_EACH_RET, xs, epat, pat, body, atom(init))
            return self.wrap(B, ('matchret', node, ret, pat, go(env2)))
        node = ('foreach', self.FOR_EACH_CTL + ('' if has_ret else ' (ρ := Empty)'), xs, epat, pat, body, atom(init))
        after_else = self._seq(s.orelse, env2, go, live) if s.orelse else go(env2)
        return self.wrap(B, ('matchctl', node, ret if has_ret else None, pat, after_else, go(env2)))

def render_loops(node, ind, st, render):
    """the tree nodes of this module; call from Style.extra"""
    pad = '  ' * ind
    k = node[0]
    if k == 'foreach':
        _, fn, xs, epat, spat, body, init = node
        return [pad + f'{fn} {xs} (fun {epat} {spat} =>'] + render(body, ind + 2, st) + [pad + f'  ) {init}']
    if k == 'matchret':
        _, comp, ret, spat, rest = node
        return ([pad + 'match ('] + render(comp, ind + 2, st) + [pad + '  ) with', pad + '| .error e => .error e',
                pad + '| .ok (.inl r) =>'] + render(ret, ind + 1, st) + [pad + f'| .ok (.inr {spat}) =>'] + render(rest, ind + 1, st))
    if k == 'matchctl':
        _, comp, ret, spat, after_else, after_break = node
        out = [pad + 'match ('] + render(comp, ind + 2, st) + [pad + '  ) with', pad + '| .error e => .error e']
        out += [pad + '| .ok (.ret r) =>'] + (render(ret, ind + 1, st) if ret is not None else [pad + '  nomatch r'])
        out += [pad + f'| .ok (.exhausted {spat}) =>'] + render(after_else, ind + 1, st)
        out += [pad + f'| .ok (.broke {spat}) =>'] + render(after_break, ind + 1, st)
        return out
    return None
