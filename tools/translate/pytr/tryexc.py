"""pytr.tryexc — `try: A except C1 [as n]: H1 except C2: H2 … [else: E]` with `return` / `raise` / bare `raise` anywhere (no finally).
`else: E` runs when A fell through, outside the handlers' reach: it is the start of the `.inr` arm.

Mix `TryExcept` in BEFORE `Stmts`:  class Fn(TryExcept, Stmts).

    match (show Except ε (ρ ⊕ τ) from A') with         A' : `return r` is `.ok (.inl r)`, falling off the end `.ok (.inr vars)`
    | .ok (.inl r) => <return r>                         (vars: assigned in A and read afterwards; ρ the function's result type)
    | .ok (.inr vars) => rest
    | .error exc_ =>
      if C1 exc_ then H1' else if C2 exc_ then H2' else .error exc_       a handler that falls through goes on with rest (copied);
                                                                          bare `raise` in a handler is `.error exc_`; `as n` binds n

A handler must not read a variable the body assigns (the state at the time of the exception is not kept).
The translator supplies CAUGHT (class name -> Lean predicate on the exception), EXC_TYPE (type tag of a bound exception),
result_lean_type() (Lean text of ρ), and its `ok()` must emit `.ok (.inl v)` while `self.try_depth > 0`.
"""
import ast
from .core import bad, lname, tuple_pat, assigned_names, read_names


class TryExcept:
    EXC_VAR = 'exc_'

    def te_init(self):
        self.try_depth = 0
        self.handler_exc = []

    def try_(self, s, env, go, live):
        if s.finalbody:
            return super().try_(s, env, go, live)
        for h in s.handlers:
            if not (isinstance(h.type, ast.Name) and h.type.id in self.CAUGHT): bad(s, f'except clause {ast.unparse(h.type) if h.type else ""}')
        assigned = {n.id for st in s.body for n in ast.walk(st) if isinstance(n, ast.Name) and isinstance(n.ctx, ast.Store)}
        for h in s.handlers:
            clash = assigned & read_names(h.body)
            if clash: bad(h, f'the handler reads {sorted(clash)}, assigned in the try body')
        vars_ = self.join_vars([s.body], env, set(live) | read_names(s.orelse))
        # the body: returns are `.inl`, the end is `.inr vars`
        ends = []
        def fall(env2):
            ends.append(env2)
            for v in vars_:
                if v not in env2: bad(s, f'{v} may be unbound after the try body')
            return ('raw', '.ok (.inr ' + tuple_pat([self.lvar(v) for v in vars_]) + ')')
        self.try_depth += 1
        try:
            body = self._seq(s.body, dict(env), fall, set(vars_))
        finally:
            self.try_depth -= 1
        types = []
        for v in vars_:
            ty = None
            for en in ends:
                ty = en[v] if ty is None else self.T.join(ty, en[v], s)
            types.append(ty if ty is not None else env.get(v, self.T.NONE))
        env2 = dict(env)
        for v, t in zip(vars_, types): env2[v] = t
        r = self.tmp()
        has_return = any(isinstance(n, ast.Return) for st in s.body for n in ast.walk(st))
        returned = self.ok(r, self.ret_type_tag(), env, s) if has_return else ('raw', self.unreachable())
        rest = (self._seq(s.orelse, env2, go, live) if s.orelse else go(env2)) if ends else ('raw', self.unreachable())
        handlers = []
        for h in s.handlers:
            env_h = dict(env)
            if h.name is not None: env_h[h.name] = self.EXC_TYPE
            self.handler_exc.append(h.name)
            try:
                tree = self._seq(h.body, env_h, go, live)
            finally:
                self.handler_exc.pop()
            handlers.append((f'{self.CAUGHT[h.type.id]} {self.EXC_VAR}', h.name, tree))
        return ('tryx', body, self.result_lean_type(), self.T.tuple_type(types), r, returned, tuple_pat([self.lvar(v) for v in vars_]), rest, handlers)

    def ret_type_tag(self):
        return self.ret_type

    def unreachable(self):
        """the arm for a body that cannot fall through"""
        return f'.error {self.EXC_UNREACHABLE}'


def render_extra(node, ind, st, render):
    pad = '  ' * ind
    k = node[0]
    if k == 'tryx':
        _, body, rho, tau, r, returned, pat, rest, handlers = node
        out = [pad + f'match (show Except {st.err} ({rho} ⊕ {tau}) from'] + render(body, ind + 2, st) + [pad + '  ) with']
        out += [pad + f'| .ok (.inl {r}) =>'] + render(returned, ind + 1, st)
        out += [pad + f'| .ok (.inr {pat}) =>'] + render(rest, ind + 1, st)
        out += [pad + '| .error exc_ =>']
        p2 = pad + '  '
        depth = 0
        for cond, name, tree in handlers:
            out += [p2 + '  ' * depth + f'if {cond} then']
            if name is not None: out += [p2 + '  ' * (depth + 1) + f'let {lname(name)} := exc_']
            out += render(tree, ind + 2 + depth, st)
            out += [p2 + '  ' * depth + 'else']
            depth += 1
        out += [p2 + '  ' * depth + '.error exc_']
        return out
    raise AssertionError(k)
