#!/usr/bin/env python3
"""checkload2lean: regenerate lean/I18n/Generated/CheckLoad.lean from the CURRENT source of lib/check/__init__.py `Checker.check` —
its control flow and exceptions: `os.stat`, the extension dispatch, the loader call with the `UnicodeDecodeError` retry, the handlers of the
two nested `try` statements, the `finally` clause, and the ordered calls of the `check_*` stages.  `Props/C01Tie.lean` proves the regenerated
function equal, for ALL arguments, to the hand-written `Check.check` (Model/Check.lean) that C01, C03, C09 and C17 rest on.

The method is executed symbolically, in continuation style with three continuations (fall through / `return` / exception), over a finite
abstraction; every point where the outside world decides becomes a `match` / `if` of the output, everything else is decided here:

  os.stat(self.path)               `if statOk then … else <an OSError with errno is raised here>`
  the extension                    `if self.options.file_type is None: extension = … else: extension = …` (texts pinned) makes `extension` the parameter
                                   `ext : Check.Ext`; the first test on it opens `match ext with | .po | .pot | .mo | .other`; `== '.po'`, `== '.pot'`,
                                   `in {'.mo', '.gmo'}` are the only tests followed
  file = constructor(self.path)    `match load false with | .ok file => … | .error <k> => <k is raised here>` for the six kinds of `Check.LoadErr`;
  … encoding='ISO-8859-1')         `load true`; any other argument list is untranslatable; the constructor / is_template / is_binary chosen for the
                                   extension are checked (po: pofile; pot: pofile, template; mo: mofile, binary)
  exceptions                       a raised kind meets `except C` by the class table below (UnicodeDecodeError < UnicodeError < ValueError; moparser.SyntaxError;
                                   OSError incl. FileNotFoundError only for … nothing: a narrowed class does not match); `exc.errno is not None` holds for
                                   osErrno / the stat failure, `message.startswith('Syntax error in po file ')` (message = str(exc)) for poSyntax; bare `raise`
                                   re-raises; `finally` runs on every way out, before the pending return / exception goes on
  flags                            is_template, is_binary, broken_encoding hold True / False / an exception object (truthy)
  self.tag(name, …)                appends the `Check.Line` of the five tags `check` itself emits (arguments are not followed)
  the stages                       from the first `self.check_*(ctx)` on, the rest of the body must be stage calls (and `if broken_encoding: ctx.encoding = None`),
                                   outside any `try`: `Check.afterLoad <lines so far> stages (init file <broken_encoding>)`; their names, in order, are the
                                   regenerated constant `stageOrder`
  anything else without a tag call / return / raise / try / tracked assignment inside is local computation and is skipped (listed at the end of the output)

Anything else raises Untranslatable: exit 3, marker file that does not compile, dependent obligations broken.
"""
import ast, os, sys

class Untranslatable(Exception): pass
def bad(node, why): raise Untranslatable(f'line {getattr(node, "lineno", "?")}: {why}')

KINDS = ['unicodeDecode', 'moSyntax', 'osErrno', 'poSyntax', 'osOther', 'other']
CLASSES = {     # exception kind -> the classes an `except` clause may name to catch it
    'unicodeDecode': {'UnicodeDecodeError', 'UnicodeError', 'ValueError', 'Exception', 'BaseException'},
    'moSyntax': {'polib4us.moparser.SyntaxError', 'Exception', 'BaseException'},
    'osErrno': {'OSError', 'Exception', 'BaseException'},
    'poSyntax': {'OSError', 'Exception', 'BaseException'},
    'osOther': {'OSError', 'Exception', 'BaseException'},
    'other': {'BaseException'},
    'statErr': {'OSError', 'Exception', 'BaseException'},
}
LINES = {'os-error': 'osError', 'unknown-file-type': 'unknownFileType', 'invalid-mo-file': 'invalidMoFile',
         'syntax-error-in-po-file': 'syntaxErrorInPoFile', 'broken-encoding': 'brokenEncoding'}
FLAGS = ('is_template', 'is_binary', 'broken_encoding')
TRACKED = set(FLAGS) | {'constructor', 'file', 'extension'}
EXT_PIN = ("if self.options.file_type is None:\n    extension = os.path.splitext(self.path)[-1]\nelse:\n    extension = '.' + self.options.file_type")

def is_call(e, text): return isinstance(e, ast.Call) and ast.unparse(e.func) == text
def is_stage(s): return isinstance(s, ast.Expr) and isinstance(s.value, ast.Call) and ast.unparse(s.value.func).startswith('self.check_') and \
    ast.unparse(s.value).endswith('(ctx)')

def has_effect(node):
    for n in ast.walk(node):
        if isinstance(n, (ast.Return, ast.Raise, ast.Try, ast.With, ast.While, ast.For, ast.Yield, ast.Await)): return True
        if isinstance(n, ast.Call):
            f = ast.unparse(n.func)
            if f in ('self.tag', 'os.stat', 'constructor') or f.startswith('self.check_') or f.startswith('polib.'): return True
        if isinstance(n, ast.Name) and isinstance(n.ctx, (ast.Store, ast.Del)) and n.id in TRACKED: return True
    return False

class Tr:
    def __init__(self):
        self.skipped = []
        self.stage_order = None

    def lines(self, env): return '[' + ', '.join('.' + l for l in env['lines']) + ']'

    def truth(self, v, node):
        if v in (True, False): return v
        if isinstance(v, tuple) and v[0] == 'exc': return True
        bad(node, 'truth value of an unknown flag')

    def evaluate(self, t, env):
        """the static value of a test, or None if it is not one this translator follows"""
        if isinstance(t, ast.Name) and t.id in FLAGS and t.id in env: return self.truth(env[t.id], t)
        if isinstance(t, ast.UnaryOp) and isinstance(t.op, ast.Not):
            v = self.evaluate(t.operand, env)
            return None if v is None else (not v)
        if isinstance(t, ast.Compare) and len(t.ops) == 1 and isinstance(t.left, ast.Name) and t.left.id == 'extension':
            cls = env.get('extension')
            if cls is None: bad(t, 'extension tested before it is set')
            c = t.comparators[0]
            if isinstance(t.ops[0], ast.Eq) and isinstance(c, ast.Constant) and c.value in ('.po', '.pot'):
                return ('ext', c.value[1:]) if cls == 'param' else cls == c.value[1:]
            if isinstance(t.ops[0], ast.In) and isinstance(c, ast.Set) and sorted(getattr(x, 'value', None) for x in c.elts) == ['.gmo', '.mo']:
                return ('ext', 'mo') if cls == 'param' else cls == 'mo'
            bad(t, f'test on the extension: {ast.unparse(t)}')
        src = ast.unparse(t)
        h = env.get('handler')
        if h and src == f'{h[0]}.errno is not None':
            if h[1] in ('osErrno', 'statErr'): return True
            if h[1] in ('poSyntax', 'osOther'): return False
            bad(t, f'.errno of {h[1]}')
        if h and src == "message.startswith('Syntax error in po file ')" and env.get('message') == h[0]:
            if h[1] == 'poSyntax': return True
            if h[1] == 'osOther': return False
            bad(t, f'message test of {h[1]}')
        return None

    def run(self, stmts, env, kn, kr, kx):
        if not stmts: return kn(env)
        s, rest = stmts[0], list(stmts[1:])
        cont = lambda env2: self.run(rest, env2, kn, kr, kx)
        if is_stage(s):
            return self.stages([s] + rest, env)
        if isinstance(s, ast.Return):
            if s.value is not None: bad(s, 'return of a value')
            return kr(env)
        if isinstance(s, ast.Raise):
            if s.exc is None and s.cause is None and env.get('handler'): return kx(env, env['handler'][1])
            bad(s, 'raise')
        if isinstance(s, ast.Expr) and is_call(s.value, 'self.tag'):
            a = s.value.args
            if not a or not isinstance(a[0], ast.Constant) or a[0].value not in LINES: bad(s, 'self.tag of a tag check() is not known to emit')
            if any(has_effect(x) for x in a[1:]): bad(s, 'tag arguments')
            env2 = dict(env); env2['lines'] = env['lines'] + [LINES[a[0].value]]
            return cont(env2)
        if isinstance(s, ast.Expr) and is_call(s.value, 'os.stat'):
            if ast.unparse(s.value) != 'os.stat(self.path)': bad(s, 'os.stat arguments')
            return f'(if statOk then {cont(env)} else {kx(env, "statErr")})'
        if isinstance(s, ast.Assign) and len(s.targets) == 1 and isinstance(s.targets[0], ast.Name):
            x, v = s.targets[0].id, s.value
            if x in FLAGS:
                env2 = dict(env)
                if isinstance(v, ast.Constant) and v.value in (True, False): env2[x] = v.value
                elif isinstance(v, ast.Name) and env.get('handler') and v.id == env['handler'][0]: env2[x] = ('exc', env['handler'][1])
                else: bad(s, f'value of {x}')
                return cont(env2)
            if x == 'constructor':
                t = ast.unparse(v)
                if t not in ('polib.pofile', 'polib.mofile'): bad(s, 'constructor')
                env2 = dict(env); env2['constructor'] = t
                return cont(env2)
            if x == 'file':
                return self.load(s, env, cont, kx)
            if x == 'message' and env.get('handler') and ast.unparse(v) == f'str({env["handler"][0]})':
                env2 = dict(env); env2['message'] = env['handler'][0]
                self.skip(s)
                return cont(env2)
            if x == 'message' and not has_effect(s):
                self.skip(s)
                return cont(env)      # (after the test on it: the text no longer matters)
        if isinstance(s, ast.If):
            if ast.unparse(s) == EXT_PIN:
                env2 = dict(env); env2['extension'] = 'param'
                return cont(env2)
            v = self.evaluate(s.test, env)
            if isinstance(v, tuple) and v[0] == 'ext':
                arms = []
                for cls in ('po', 'pot', 'mo', 'other'):
                    env2 = dict(env); env2['extension'] = cls
                    arms.append(f'| .{cls} => {self.run([s] + rest, env2, kn, kr, kx)}')
                return '(match ext with ' + ' '.join(arms) + ')'
            if v is True: return self.run(list(s.body) + rest, env, kn, kr, kx)
            if v is False: return self.run(list(s.orelse) + rest, env, kn, kr, kx)
            if not has_effect(s):
                self.skip(s)
                return cont(env)
            bad(s, f'test that is not followed: {ast.unparse(s.test)}')
        if isinstance(s, ast.Try):
            return self.try_(s, env, cont, kr, kx)
        if not has_effect(s):
            self.skip(s)
            return cont(env)
        bad(s, f'statement {ast.unparse(s)[:50]}')

    def skip(self, s):
        t = f'line {s.lineno}: {ast.unparse(s).splitlines()[0][:90]}'
        if t not in self.skipped: self.skipped.append(t)

    def load(self, s, env, cont, kx):
        src = ast.unparse(s.value)
        retry = {'constructor(self.path)': 'false', "constructor(self.path, encoding='ISO-8859-1')": 'true'}.get(src)
        if retry is None: bad(s, f'loader call {src}')
        cls = env.get('extension')
        want = {'po': ('polib.pofile', False, False), 'pot': ('polib.pofile', True, False), 'mo': ('polib.mofile', False, True)}.get(cls)
        if want is None: bad(s, 'loader call for an unclassified extension')
        got = (env.get('constructor'), env.get('is_template'), env.get('is_binary'))
        if got != want: bad(s, f'for extension class {cls}: constructor / is_template / is_binary are {got}')
        env2 = dict(env); env2['file'] = True
        arms = [f'| .ok file => {cont(env2)}'] + [f'| .error .{k} => {kx(env, k)}' for k in KINDS]
        return f'(match load {retry} with ' + ' '.join(arms) + ')'

    def try_(self, s, env, cont, kr, kx):
        if s.orelse: bad(s, 'try/else')
        no = lambda *a: bad(s, 'return / raise inside finally')
        def fin(env2, then):
            return self.run(list(s.finalbody), env2, then, no, no)
        def handle(env2, x):
            for h in s.handlers:
                cname = ast.unparse(h.type) if h.type is not None else 'BaseException'
                if cname not in set().union(*CLASSES.values()) | {'FileNotFoundError', 'PermissionError', 'UnicodeEncodeError', 'KeyError', 'IOError'}:
                    bad(h, f'except {cname}')
                if cname == 'IOError': cname = 'OSError'
                if cname in CLASSES[x]:
                    env3 = dict(env2); env3['handler'] = (h.name, x); env3.pop('message', None)
                    return self.run(list(h.body), env3, lambda e: fin(self.leave(e, env2), cont), lambda e: fin(self.leave(e, env2), kr),
                                    lambda e, y: fin(self.leave(e, env2), lambda e2: kx(e2, y)))
            return fin(env2, lambda e: kx(e, x))
        return self.run(list(s.body), env, lambda e: fin(e, cont), lambda e: fin(e, kr), handle)

    def leave(self, env_inner, env_outer):
        """leaving a handler: its exception name goes out of scope"""
        e = dict(env_inner)
        if 'handler' in env_outer: e['handler'] = env_outer['handler']
        else: e.pop('handler', None)
        e.pop('message', None)
        return e

    def stages(self, stmts, env):
        if env.get('handler') or not env.get('file'): bad(stmts[0], 'stage call before the file is loaded')
        names = []
        for s in stmts:
            if is_stage(s): names.append(ast.unparse(s.value.func)[5:])
            elif ast.unparse(s) == 'if broken_encoding:\n    ctx.encoding = None': self.skip(s)
            elif isinstance(s, ast.Pass): pass
            else: bad(s, 'statement among the stage calls')
        if self.stage_order is not None and self.stage_order != names: bad(stmts[0], 'stage order differs between paths')
        self.stage_order = names
        b = 'true' if self.truth(env.get('broken_encoding', False), stmts[0]) else 'false'
        return f'Check.afterLoad {self.lines(env)} stages (init file {b})'

HEADER = '''/-
GENERATED by tools/translate/checkload2lean.py from lib/check/__init__.py (`Checker.check`: control flow and exceptions) — do not edit.
Regenerated from the repository's working tree on every check; `I18n/Props/C01Tie.lean` proves the definition equal to the model
`Check.check` (Model/Check.lean) for all arguments, and pins `stageOrder`.
-/
import I18n.Model.Check
set_option linter.unusedVariables false
namespace I18n.Generated.CheckLoad
open I18n I18n.Check

'''

def generate(repo):
    tree = ast.parse(open(os.path.join(repo, 'lib/check/__init__.py'), encoding='utf-8').read())
    cls = [n for n in tree.body if isinstance(n, ast.ClassDef) and n.name == 'Checker']
    if len(cls) != 1: raise Untranslatable('class Checker not found')
    fs = [n for n in cls[0].body if isinstance(n, ast.FunctionDef) and n.name == 'check']
    if len(fs) != 1: raise Untranslatable('Checker.check not found')
    f = fs[0]
    if f.decorator_list or [a.arg for a in f.args.args] != ['self']: bad(f, 'signature of check')
    tr = Tr()
    top = lambda unc: (lambda env, *a: f'⟨{tr.lines(env)}, {unc}⟩')
    body = tr.run(list(f.body), {'lines': []}, top('false'), top('false'), top('true'))
    if tr.stage_order is None: raise Untranslatable('no stage call is reached')
    out = [HEADER]
    out.append('/-- `Checker.check()`: `statOk`: did `os.stat(self.path)` succeed; `ext`: the class of the extension / `--file-type`; `load false` / `load true`: the loader\n'
               '    call and its ISO-8859-1 retry; `init file broken`: the `ctx` the stages start from; `stages`: the `check_*` methods in `stageOrder` -/\n'
               'def check {F σ τ : Type} (statOk : Bool) (ext : Ext) (load : Bool → Except LoadErr F) (init : F → Bool → σ)\n'
               '    (stages : List (Stage σ τ)) : Run τ :=\n  ' + body + '\n')
    out.append('/-- the stage methods in the order `check` calls them -/\ndef stageOrder : List String := [' + ', '.join(f'"{n}"' for n in tr.stage_order) + ']\n')
    out.append('/- Local computation skipped by the translator (no tag call, return, raise, try or tracked assignment inside):\n' +
               ''.join(f'  {t}\n' for t in tr.skipped) + '-/\n')
    out.append('end I18n.Generated.CheckLoad\n')
    return '\n'.join(out)

def main():
    repo = sys.argv[1] if len(sys.argv) > 1 else '/repo'
    dest = sys.argv[2] if len(sys.argv) > 2 else os.path.join(os.path.dirname(os.path.abspath(__file__)), '..', '..', 'lean', 'I18n', 'Generated', 'CheckLoad.lean')
    try:
        try:
            text = generate(repo)
        except (SyntaxError, KeyError, AttributeError, TypeError, IndexError, ValueError, AssertionError, RecursionError, OSError) as exc:
            raise Untranslatable(f'{type(exc).__name__} while translating: {exc}')
    except Untranslatable as exc:
        msg = str(exc).replace('"', "'").replace('\\', '/')
        text = HEADER + (f'-- UNTRANSLATABLE: {msg}\n'
                         '/-- deliberately does not compile: the current source is outside the translator\'s subset (see above) -/\n'
                         'def untranslatable : Unit := the_current_source_of_Checker_check_is_untranslatable\n'
                         'end I18n.Generated.CheckLoad\n')
        print(f'untranslatable: {exc}', file=sys.stderr)
        old = open(dest, encoding='utf-8').read() if os.path.exists(dest) else None
        if old != text: open(dest, 'w', encoding='utf-8').write(text)
        sys.exit(3)
    old = open(dest, encoding='utf-8').read() if os.path.exists(dest) else None
    if old != text:
        open(dest, 'w', encoding='utf-8').write(text)
        print('changed')
    else:
        print('unchanged')

if __name__ == '__main__':
    main()
