#!/usr/bin/env python3
"""gettextdate2lean: regenerate lean/I18n/Generated/GettextDate.lean from the CURRENT source of lib/gettext.py:

  fix_date_format(s, *, tz_hint=None)      parse_date(s)

(the date normaliser of property C18).  `Props/C18Tie.lean` proves both regenerated functions equal, for ALL inputs, to the hand-written
model the theorems of C18 are about (`Date.fix`, `Date.parseCanon`).  Statement layer: tools/translate/pytr (core + objfn).
What is specific here — the trusted base of this tie (kit: lean/I18n/Model/DatePy.lean, namespace `I18n.Date.Py`):

  the regexes    `_parse_date(s)` is `Py.parseDateMatch s`: `none` for None, else `match.groups()` = (date, time, zhour, zminute, zabbr) —
                 the model's scanner `Date.parseDate` on BOTH sides of the equality (tied to the `sre_parse` tree of the live pattern by
                 C18's `regex_pin`, `parse_date_regex`, `regex_groups`); the truth value of `_search_for_date_boilerplate(s)` is
                 `Date.hasBoilerplate s` (`boilerplate_regex`).  Required here: each name is assigned once, `re.compile(…).match` / `.search`.
                 `re.fullmatch('[+-][0-9]{4}', h)` (this pattern text, no flags) is `Py.hintSyntax h`.
  the calendar   `datetime.datetime.strptime(s, '%Y-%m-%d %H:%M%z')` is `Py.strptimeCanon s` = the model's calendar primitive
                 `Date.parseCanon` (`ValueError` for `none`) on both sides: exact on the 21-character texts the groups of the regex
                 assemble (C18: `parse_canon_iff`, the `date-calendar` stream); `strptime(h, '%z')` is `Py.strptimeZ h`: on `[+-]dddd` the
                 range test (minutes < 60, offset < 24 h), elsewhere the kit answers `outsideKit` (never equal to a model outcome).
  the table      `_timezones[k]` is `Py.timezonesGet k` (`KeyError` for an absent key) over the table dumped by date2lean.py; required:
                 `_timezones = _read_timezones()` is its only assignment.
  str            `s.strip()` is `Date.strip` (`str.isspace` as dumped), `len(s)` the number of code points, f-strings concatenations.
  exceptions     `DateSyntaxError(Exception)`, `BoilerplateDate(DateSyntaxError)` (hierarchy checked), `ValueError`, `AssertionError`,
                 `KeyError` are `Py.DErr` values; `except ValueError` catches `.valueError` only.

Anything else raises Untranslatable: exit 3, marker file that does not compile, dependent obligations broken.
"""
import ast, os, sys
sys.path.insert(0, os.path.dirname(os.path.abspath(__file__)))
from pytr import Untranslatable, bad, lname, atom, Style, _mangled
from pytr.objfn import (TypeSys, Unit, ObjFn, Sig, translate, INT, BOOL, STR, NONE, OPT, TUP, LIST, REC, chars)

OSTR = OPT(STR)
GROUPS = TUP(STR, STR, OSTR, OSTR, OSTR)
STAMP = ('stamp',)
T = TypeSys(simple={'stamp': 'Date.Stamp'})
STYLE = Style('Date.Py.DErr', 'PyKit.tryExcept', 'PyKit.forRange')
K = 'I18n.Date.Py'

RAISES = {'DateSyntaxError': '.syntax', 'BoilerplateDate': '.boilerplate', 'ValueError': '.valueError'}
HIERARCHY = {'DateSyntaxError': 'Exception', 'BoilerplateDate': 'DateSyntaxError'}
HINT_PATTERN = '[+-][0-9]{4}'
FUNCS = [('parse_date', [('s', STR, False)]), ('fix_date_format', [('s', STR, False), ('tz_hint', OSTR, True)])]

class Fn(ObjFn):
    EXC_ASSERT = '.error .assertion'
    EXC_VALUE = '.valueError'
    CAUGHT = {'ValueError': '(fun e => e == .valueError)'}

    def raise_(self, s, env, B):
        x = s.exc
        if isinstance(x, ast.Call) and not x.keywords: x = x.func          # arguments are message material
        if s.cause is None and isinstance(x, ast.Name) and x.id in RAISES and x.id not in env and self.u.errors_ok:
            return f'.error {RAISES[x.id]}'
        bad(s, f'raise {ast.unparse(s.exc) if s.exc else ""}')

    def subscript(self, e, env, B):
        if isinstance(e.value, ast.Name) and e.value.id == '_timezones' and '_timezones' not in env and self.u.table_ok and not isinstance(e.slice, ast.Slice):
            t, ty = self.expr(e.slice, env, B)
            if ty != STR: bad(e, f'_timezones[…] with a key of type {ty}')
            return self.hoist(B, f'{K}.timezonesGet {atom(t)}'), LIST(STR)
        bad(e, f'subscript {ast.unparse(e)[:40]}')

    def prim_call(self, e, env, B):
        f = e.func
        name = ast.unparse(f)
        args = e.args
        if e.keywords or any(isinstance(a, ast.Starred) for a in args): bad(e, f'call {ast.unparse(e)[:60]}')
        def str_arg(a):
            t, ty = self.expr(a, env, B)
            if ty != STR: bad(e, f'{name} of a value of type {ty}')
            return atom(t)
        if isinstance(f, ast.Name) and f.id not in env:
            if f.id == '_parse_date' and self.u.regex_ok['_parse_date'] and len(args) == 1:
                return f'({K}.parseDateMatch {str_arg(args[0])})', OPT(GROUPS)
            if f.id == '_search_for_date_boilerplate' and self.u.regex_ok['_search_for_date_boilerplate'] and len(args) == 1:
                return f'(Date.hasBoilerplate {str_arg(args[0])})', BOOL          # only its truth value
        if name == 're.fullmatch' and 're' not in env and len(args) == 2 and isinstance(args[0], ast.Constant) and args[0].value == HINT_PATTERN:
            return f'({K}.hintSyntax {str_arg(args[1])})', BOOL                     # only its truth value
        if name == 'datetime.datetime.strptime' and 'datetime' not in env and self.u.datetime_ok and len(args) == 2 and isinstance(args[1], ast.Constant):
            if args[1].value == '%z':
                return self.hoist(B, f'{K}.strptimeZ {str_arg(args[0])}'), NONE        # only whether it raises
            if args[1].value == '%Y-%m-%d %H:%M%z':
                return self.hoist(B, f'{K}.strptimeCanon {str_arg(args[0])}'), STAMP
        if isinstance(f, ast.Attribute):
            if not (isinstance(f.value, ast.Name) and f.value.id not in env):
                vt, vty = self.expr(f.value, env, B)
                if vty == GROUPS and f.attr == 'groups' and not args: return vt, GROUPS
                if vty == STR and f.attr == 'strip' and not args: return f'(Date.strip {atom(vt)})', STR
                bad(e, f'method .{f.attr} of a value of type {vty}')
        bad(e, f'call {ast.unparse(e)[:60]}')

    def call(self, e, env, B):
        # a method of a local str / match object
        f = e.func
        if isinstance(f, ast.Attribute) and isinstance(f.value, ast.Name) and f.value.id in env:
            return self.prim_call_local(e, env, B)
        return super().call(e, env, B)

    def prim_call_local(self, e, env, B):
        f = e.func
        vt, vty = self.expr(f.value, env, B)
        if e.keywords or e.args: bad(e, f'call {ast.unparse(e)[:60]}')
        if vty == GROUPS and f.attr == 'groups': return vt, GROUPS
        if vty == STR and f.attr == 'strip': return f'(Date.strip {atom(vt)})', STR
        bad(e, f'method .{f.attr} of a value of type {vty}')

class DateUnit(Unit):
    def __init__(self, repo):
        super().__init__(T)
        self.tree = ast.parse(open(os.path.join(repo, 'lib', 'gettext.py'), encoding='utf-8').read())
        body = self.tree.body
        self.fdefs = {}
        for n in body:
            if isinstance(n, ast.FunctionDef):
                if n.name in self.fdefs: raise Untranslatable(f'{n.name} is defined twice')
                self.fdefs[n.name] = n
        cdefs = {n.name: n for n in body if isinstance(n, ast.ClassDef)}
        for n in ast.walk(self.tree):
            if isinstance(n, (ast.Global, ast.Nonlocal)): bad(n, 'global / nonlocal')
        stores = {}
        for n in ast.walk(self.tree):
            if isinstance(n, ast.Name) and isinstance(n.ctx, (ast.Store, ast.Del)): stores[n.id] = stores.get(n.id, 0) + 1
        imports = {}
        for n in ast.walk(self.tree):
            if isinstance(n, ast.Import):
                for a in n.names: imports.setdefault(a.asname or a.name.split('.')[0], []).append(a.name)
            elif isinstance(n, ast.ImportFrom):
                for a in n.names: imports.setdefault(a.asname or a.name, []).append(f'{n.module}.{a.name}')
        def once(name): return stores.get(name, 0) == 1
        self.regex_ok = {'_parse_date': False, '_search_for_date_boilerplate': False}
        self.table_ok = False
        for n in body:
            if isinstance(n, ast.Assign) and len(n.targets) == 1 and isinstance(n.targets[0], ast.Name):
                t, v = n.targets[0].id, n.value
                want = {'_parse_date': 'match', '_search_for_date_boilerplate': 'search'}.get(t)
                if want:
                    self.regex_ok[t] = (once(t) and isinstance(v, ast.Attribute) and v.attr == want and isinstance(v.value, ast.Call) and
                                        ast.unparse(v.value.func) == 're.compile')
                if t == '_timezones':
                    self.table_ok = once(t) and ast.unparse(v) == '_read_timezones()'
        for name in ['re', 'datetime', 'parse_date', 'fix_date_format', 'len'] + list(HIERARCHY) + list(RAISES):
            if stores.get(name, 0) > 0: raise Untranslatable(f'{name} is re-bound')
        self.datetime_ok = imports.get('datetime') == ['datetime'] and imports.get('re') == ['re']
        def plain_exc(name, base):
            c = cdefs.get(name)
            return c is not None and [ast.unparse(b) for b in c.bases] == [base] and all(isinstance(s, ast.Pass) for s in c.body) and not c.decorator_list and not c.keywords
        self.errors_ok = all(plain_exc(n, b) for n, b in HIERARCHY.items())

    # module-level helpers without a declared signature: inlined at their call sites
    def helper_def(self, rec, name):
        if rec is None and name in self.fdefs and name not in self.funcs and name not in ('_read_timezones', 'parse_plural_forms', 'parse_plural_expression'):
            return (self.fdefs[name], False)
        return None

def generate(repo):
    _mangled.clear()
    u = DateUnit(repo)
    out = [HEADER]
    for name, params in FUNCS:
        if name not in u.fdefs: raise Untranslatable(f'{name} not found')
        u.funcs[name] = Sig(name, params, u.fdefs[name])
    def translate_sig(sig):
        return translate(u, None, sig, f'`lib.gettext.{sig.node.name}`', STYLE, fn_class=Fn)
    u.translate_sig = translate_sig
    for name, _ in FUNCS: u.ensure(u.funcs[name])
    if u.funcs['parse_date'].ret != STAMP: raise Untranslatable(f'parse_date returns {u.funcs["parse_date"].ret}')
    if u.funcs['fix_date_format'].ret != STR: raise Untranslatable(f'fix_date_format returns {u.funcs["fix_date_format"].ret}')
    out += u.emitted
    out.append('/- Statements discharged statically by the translator:\n' + ''.join(f'  {d}\n' for d in sorted(u.dropped)) + '-/\n')
    out.append('end I18n.Generated.GettextDate\n')
    return '\n'.join(out)

HEADER = '''/-
GENERATED by tools/translate/gettextdate2lean.py from lib/gettext.py (`fix_date_format`, `parse_date`) — do not edit.
Regenerated from the repository's working tree on every check; `I18n/Props/C18Tie.lean` proves both definitions equal to the model the
theorems of C18 are about (`Date.fix`, `Date.parseCanon`).
-/
import I18n.PyKit
import I18n.Model.DatePy
set_option linter.unusedVariables false
namespace I18n.Generated.GettextDate
open I18n

'''

def main():
    repo = sys.argv[1] if len(sys.argv) > 1 else '/repo'
    dest = sys.argv[2] if len(sys.argv) > 2 else os.path.join(os.path.dirname(os.path.abspath(__file__)), '..', '..', 'lean', 'I18n', 'Generated', 'GettextDate.lean')
    try:
        try:
            text = generate(repo)
        except (SyntaxError, KeyError, AttributeError, TypeError, IndexError, ValueError, AssertionError, RecursionError, OSError, StopIteration) as exc:
            raise Untranslatable(f'{type(exc).__name__} while translating: {exc}')
    except Untranslatable as exc:
        msg = str(exc).replace('"', "'").replace('\\', '/')
        text = HEADER + (f'-- UNTRANSLATABLE: {msg}\n'
                         '/-- deliberately does not compile: the current lib/gettext.py is outside the translator\'s subset (see above) -/\n'
                         'def untranslatable : Unit := the_current_source_of_fix_date_format_is_untranslatable\n'
                         'end I18n.Generated.GettextDate\n')
        print(f'untranslatable: {exc}', file=sys.stderr)
        old = open(dest, encoding='utf-8').read() if os.path.exists(dest) else None
        if old != text: open(dest, 'w', encoding='utf-8').write(text)
        sys.exit(3)
    old = open(dest, encoding='utf-8').read() if os.path.exists(dest) else None
    if old != text:
        open(dest, 'w', encoding='utf-8').write(text)
        print('changed')
    else:
        print('unchanged')

if __name__ == '__main__':
    main()
