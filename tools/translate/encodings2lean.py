#!/usr/bin/env python3
"""encodings2lean: regenerate lean/I18n/Generated/EncodingsFn.lean from the CURRENT source of lib/encodings.py:

    _interesting_ascii_bytes, _interesting_ascii_str     the module-level constants, evaluated from their defining expressions
    is_portable_encoding, propose_portable_encoding, is_ascii_compatible_encoding
    decode                                               the decode every loader uses
    _codec_search_function, charmap_encoding, iconv_encoding

`Props/C20Tie.lean` (second part) proves them equal, for ALL inputs / tables / registries / decode outcomes, to the hand-written model of
`Model/Charset.lean` (`isPortable`, `propose`, `isAsciiCompatible`, `loaderDecode`, `codecSearch`, the charmap codec over the file's
table) and the constants equal to the documented repertoire.  Statement layer: tools/translate/pytr (+ pytr/tryexc.py: try/except with
several clauses and `return` inside).  The target kit is `Model/EncodingsPy.lean` (namespace `I18n.Charset.EPy`); its header states
what each Python operation is taken to be — the trusted base.  What the translator itself decides (also trusted):

  module globals   `_portable_encodings`, `_pycodec_to_encoding`, `_extra_encodings`, `_unmangle_encoding` must be bound exactly once at module
                   level ([…] = _read_encodings() / `= {}` filled by the version-guarded loop) and become parameters of the functions that read
                   them; a function that rebinds one (`global`) is refused.  `codecs.lookup`, `bytes.decode`, the charmap files: parameters.
  constants        `bytes(itertools.chain([ints…], range(a, b)))` / `bytes(range(n))` / `bytes([ints…])` are evaluated by the translator;
                   `.decode()` of code points below 128 is the same list.
  exceptions       class hierarchy as in CPython: KeyError, EncodingLookupError ⊂ LookupError; UnicodeDecodeError ⊂ UnicodeError ⊂ Exception;
                   `EncodingLookupError` must be declared `class EncodingLookupError(LookupError)`.
  keyword-only flags with a default (`python=True`, `missing_ok=True`) become Bool parameters.

Anything else raises Untranslatable: exit 3, marker file that does not compile, dependent obligations broken.
"""
import ast, os, sys
sys.path.insert(0, os.path.dirname(os.path.abspath(__file__)))
from pytr import (Untranslatable, bad, lname, atom, render, bind, joinc, tuple_pat, Style, Stmts, _mangled, assigned_names, read_names)
from pytr import tryexc

def mk(*a): return tuple(a)
INT, BOOL, STR, BYTES, NONE, PVAL, CODECNAME, SOB, EXC, CODEC, OPTCODEC, ABYTES, FILETEXT, FILEBYTES, ENCTABLE = (
    mk('int'), mk('bool'), mk('str'), mk('bytes'), mk('none'), mk('pval'), mk('codecname'), mk('sob'), mk('exc'), mk('codec'), mk('optcodec'),
    mk('abytes'), mk('filetext'), mk('filebytes'), mk('enctable'))
def CSTR(v): return ('cstr', v)

SIMPLE = {'int': 'Int', 'bool': 'Bool', 'str': 'List Nat', 'bytes': 'List UInt8', 'none': 'Unit', 'pval': 'EPy.PVal', 'codecname': 'List Nat',
          'sob': 'EPy.StrOrBytes', 'exc': 'EPy.Exn', 'codec': 'EPy.Codec', 'optcodec': 'Option EPy.Codec', 'abytes': 'List Nat', 'filetext': 'List Nat',
          'filebytes': 'List Nat', 'enctable': '(Nat → Option UInt8)'}
def lean_type(t):
    if t[0] in SIMPLE: return SIMPLE[t[0]]
    if t[0] == 'opt': return f'Option {atom(lean_type(t[1]))}'
    raise Untranslatable(f'no Lean type for {t}')
def OPT(t): return t if t[0] == 'opt' else ('opt', t)

def join(a, b, node=None):
    if a == b: return a
    if a is None: return b
    if b is None: return a
    if a == NONE and b == CODEC or a == CODEC and b == NONE: return OPTCODEC
    if {a, b} <= {NONE, CODEC, OPTCODEC}: return OPTCODEC
    if a == NONE: return OPT(b)
    if b == NONE: return OPT(a)
    if a[0] == 'opt' and a[1] == b: return a
    if b[0] == 'opt' and b[1] == a: return b
    bad(node, f'incompatible types {a} and {b}')
def coerce(text, frm, to, node=None):
    if frm == to: return text
    if to == OPTCODEC and frm == CODEC: return f'(some {atom(text)})'
    if to[0] in ('opt', 'optcodec') and frm == NONE: return 'none'
    if to[0] == 'opt' and to[1] == frm: return f'(some {atom(text)})'
    bad(node, f'cannot use a value of type {frm} where {to} is expected')
def tuple_type(types):
    if not types: return 'Unit'
    if len(types) == 1: return atom(lean_type(types[0]))
    return '(' + ' × '.join(lean_type(t) for t in types) + ')'
class Types:
    NONE, INT = NONE, INT
    join = staticmethod(join); coerce = staticmethod(coerce); tuple_type = staticmethod(tuple_type)

class EStyle(Style):
    def extra(self, node, ind):
        return tryexc.render_extra(node, ind, self, render)
STYLE = EStyle('EPy.Exn', 'PyKit.tryExcept', 'PyKit.forRange')

GLOBALS = {   # module global -> (type tag, Lean type)
    '_portable_encodings': ('tbl', 'List (Name × Bool)'),
    '_pycodec_to_encoding': ('strdict', 'List (Name × Name)'),
    '_extra_encodings': ('strset', 'List Name'),
    '_unmangle_encoding': ('strdict', 'List (Name × Name)'),
    '_interesting_ascii_bytes': ('abytes', None),
    '_interesting_ascii_str': ('str', None),
}
ENV_PARAMS = {  # environment a function needs -> Lean binder
    'registry': '(registry : Name → Option Name)',
    'dec': '(dec : List Nat → Name → Dec)',
    'rawdec': '(rawdec : List UInt8 → Name → RawDecode)',
    'files': '(files : Name → Option (List Nat))',
}
ORDER = ['_portable_encodings', '_pycodec_to_encoding', '_extra_encodings', '_unmangle_encoding', 'registry', 'dec', 'rawdec', 'files']

class NoWrites(dict):
    def get(self, k, d=None): return False

def dotted(e):
    try: return ast.unparse(e)
    except Exception: return ''

def safe_lit(v): return isinstance(v, str) and v.isascii() and '"' not in v and '\\' not in v

class Fn(tryexc.TryExcept, Stmts):
    T = Types
    STATE = '#no-state'
    DUPLICATE_ON_RETURN = True
    CAUGHT = {'LookupError': 'EPy.Exn.isLookupError', 'UnicodeDecodeError': 'EPy.Exn.isUnicodeDecodeError', 'UnicodeError': 'EPy.Exn.isUnicodeError',
              'Exception': 'EPy.Exn.isException', 'KeyError': 'EPy.Exn.isKeyError', 'EncodingLookupError': 'EPy.Exn.isEncodingLookupError', 'FileNotFoundError': 'EPy.Exn.isFileNotFound'}
    EXC_TYPE = EXC
    EXC_ASSERT = '.error .assertion'
    EXC_UNREACHABLE = '.assertion'
    style = STYLE

    def __init__(self, unit, fdef, ret_type, probing):
        self.u, self.f, self.name, self.pyname = unit, fdef, lname(fdef.name), fdef.name
        self.writes = False
        self.writes_map = NoWrites()
        self.ret_types = [] if probing else None
        self.ret_type = ret_type
        self.ntmp = 0
        self.uses = set()
        self.te_init()
        self.nested = {}          # nested function name -> ('charmap_encode' | 'charmap_decode' | 'iconv_encode' | 'iconv_decode', table variable)

    def note(self, msg): self.u.dropped.add(msg)
    def result_lean_type(self): return atom(lean_type(self.ret_type)) if self.ret_type else 'Unit'

    def ok(self, value_text, ty, env, node=None):
        if self.ret_types is not None:
            if ty is not None: self.ret_types.append(ty)
            return ('raw', '.ok default')
        v = coerce(value_text, ty, self.ret_type, node)
        if self.try_depth: return ('raw', f'.ok (.inl {atom(v)})')
        return ('raw', f'.ok {atom(v)}')

    def value(self, e, env, B):
        t, ty = self.expr(e, env, B)
        return 'pure', t, ty, False

    def use(self, name):
        self.uses.add(name)
        return lname(name) if name.startswith('_') else name

    # ---- raise
    def raise_(self, s, env, B):
        x = s.exc
        if x is None:
            if not self.handler_exc: bad(s, 'bare raise outside a handler')
            return '.error exc_'
        if isinstance(x, ast.Name) and x.id == 'RuntimeError' and s.cause is None: return '.error .runtime'
        if isinstance(x, ast.Call) and isinstance(x.func, ast.Name):
            n = x.func.id
            if n == 'EncodingLookupError' and self.u.ele_ok and len(x.args) == 1 and not x.keywords and s.cause is None:
                self.expr(x.args[0], env, B)
                return '.error .encodingLookup'
            if n == 'UnicodeDecodeError' and len(x.args) == 5 and not x.keywords:
                if s.cause is not None and not (isinstance(s.cause, ast.Name) and env.get(s.cause.id) == EXC): bad(s, 'raise … from')
                _, t0 = self.expr(x.args[0], env, B)
                if t0 != STR: bad(s, 'UnicodeDecodeError: encoding')
                d = x.args[1]
                if isinstance(d, ast.Call) and dotted(d.func) == 'bytes' and len(d.args) == 1: d = d.args[0]
                _, t1 = self.expr(d, env, B)
                if t1 != BYTES: bad(s, 'UnicodeDecodeError: object')
                a, aty = self.expr(x.args[2], env, B)
                b, bty = self.expr(x.args[3], env, B)
                if aty != INT or bty != INT: bad(s, 'UnicodeDecodeError: start / end')
                m = x.args[4]
                if not (isinstance(m, ast.Call) and dotted(m.func) == 'str' and len(m.args) == 1 and isinstance(m.args[0], ast.Name) and env.get(m.args[0].id) == EXC) and \
                   not (isinstance(m, ast.Constant) and isinstance(m.value, str)): bad(s, 'UnicodeDecodeError: reason')
                return f'.error (.unicodeDecode {atom(a)} {atom(b)})'
        if dotted(x) == 'misc.DataIntegrityError' and s.cause is None: return '.error .dataIntegrity'
        bad(s, f'raise {dotted(x)[:60]}')

    # ---- expressions
    def expr(self, e, env, B):
        if isinstance(e, ast.Constant):
            v = e.value
            if v is None: return '()', NONE
            if isinstance(v, bool): return ('true' if v else 'false'), BOOL
            if isinstance(v, int) and v >= 0: return str(v), INT
            if safe_lit(v): return f'(EPy.lit "{v}")', STR
            bad(e, f'literal {v!r}')
        if isinstance(e, ast.Name):
            if e.id in env:
                return lname(e.id), env[e.id]
            if e.id in self.u.consts:
                return self.u.consts[e.id][0], self.u.consts[e.id][1]
            if e.id in GLOBALS and self.u.globals_ok.get(e.id):
                return self.use(e.id), (GLOBALS[e.id][0],)
            bad(e, f'unknown name {e.id}')
        if isinstance(e, ast.UnaryOp) and isinstance(e.op, ast.Not):
            return f'(!{atom(self.cond(e.operand, env, B))})', BOOL
        if isinstance(e, ast.BoolOp):
            # `a and b` / `a or b` on bools without partial operations (nothing to short-circuit)
            parts = []
            for x in e.values:
                n0 = len(B)
                parts.append(atom(self.cond(x, env, B)))
                if len(B) != n0: bad(e, 'and / or over a partial operation')
            return '(' + (' && ' if isinstance(e.op, ast.And) else ' || ').join(parts) + ')', BOOL
        if isinstance(e, ast.BinOp) and isinstance(e.op, ast.Add):
            a, aty = self.expr(e.left, env, B)
            b, bty = self.expr(e.right, env, B)
            if aty == STR and bty == STR: return f'({atom(a)} ++ {atom(b)})', STR
            if aty == FILETEXT and bty == FILETEXT: return f'({atom(a)} ++ {atom(b)})', FILETEXT
            bad(e, f'+ on {aty} and {bty}')
        if isinstance(e, ast.Compare) and len(e.ops) == 1:
            return self.compare(e, env, B)
        if isinstance(e, ast.Subscript):
            t, ty = self.expr(e.value, env, B)
            sl = e.slice
            if isinstance(sl, ast.Slice) and ty == STR and sl.upper is None and sl.step is None and isinstance(sl.lower, ast.Constant) and \
               isinstance(sl.lower.value, int) and sl.lower.value >= 0:
                return f'({atom(t)}.drop {sl.lower.value})', STR
            if ty == ('strdict',) and not isinstance(sl, ast.Slice):
                k, kty = self.expr(sl, env, B)
                if kty not in (STR, CODECNAME): bad(e, 'dict key')
                return self.hoist(B, f'EPy.dictIndex {atom(t)} {atom(k)}'), STR
            bad(e, f'subscript of {ty}')
        if isinstance(e, ast.Attribute):
            if e.attr == 'name':
                t, ty = self.expr(e.value, env, B)
                if ty == CODECNAME: return t, CODECNAME       # a registry codec is known by its name
            bad(e, f'attribute {dotted(e)}')
        if isinstance(e, ast.Call):
            return self.call(e, env, B)
        bad(e, f'expression {type(e).__name__}')

    def compare(self, e, env, B):
        op = type(e.ops[0]).__name__
        L, R = e.left, e.comparators[0]
        if op in ('Is', 'IsNot') and isinstance(R, ast.Constant) and R.value is None:
            t, ty = self.expr(L, env, B)
            if ty == PVAL: return f'({atom(t)} {"==" if op == "Is" else "!="} EPy.PVal.none)', BOOL
            if ty[0] == 'opt': return (f'{atom(t)}.isNone' if op == 'Is' else f'{atom(t)}.isSome'), BOOL
            bad(e, f'is None on {ty}')
        if op in ('In', 'NotIn'):
            a, aty = self.expr(L, env, B)
            b, bty = self.expr(R, env, B)
            if aty != STR: bad(e, 'membership of a non-str')
            if bty == ('tbl',): t = f'EPy.tableHas {atom(b)} {atom(a)}'
            elif bty == ('strset',): t = f'{atom(b)}.contains {atom(a)}'
            else: bad(e, f'membership in {bty}')
            return (t if op == 'In' else f'(!{t})'), BOOL
        if op in ('Eq', 'NotEq'):
            a, aty = self.expr(L, env, B)
            b, bty = self.expr(R, env, B)
            if aty == SOB and bty == STR: t = f'{atom(a)}.eqStr {atom(b)}'
            elif aty == STR and bty == STR: t = f'({atom(a)} == {atom(b)})'
            elif aty == INT and bty == INT: t = f'({atom(a)} == {atom(b)})'
            else: bad(e, f'== on {aty} and {bty}')
            return (t if op == 'Eq' else f'(!{t})'), BOOL
        bad(e, f'comparison {dotted(e)[:60]}')

    def kwargs(self, e, allowed):
        kw = {}
        for k in e.keywords:
            if k.arg not in allowed: bad(e, f'keyword {k.arg}')
            kw[k.arg] = k.value
        return kw

    def call(self, e, env, B):
        f = e.func
        d = dotted(f)
        # methods
        if isinstance(f, ast.Attribute) and not d.startswith(('codecs.', 'os.', 'iconv.')):
            t, ty = self.expr(f.value, env, B)
            a = e.args
            if ty == STR and f.attr in ('lower', 'upper') and not a and not e.keywords:
                return f'(Charset.{f.attr} {atom(t)})', STR
            if ty == STR and f.attr == 'startswith' and len(a) == 1 and not e.keywords:
                p, pty = self.expr(a[0], env, B)
                if pty != STR: bad(e, 'startswith of a non-str')
                return f'({atom(p)}.isPrefixOf {atom(t)})', BOOL
            if ty == ('tbl',) and f.attr == 'get' and len(a) == 2 and not e.keywords:
                k, kty = self.expr(a[0], env, B)
                if kty != STR: bad(e, 'key')
                dflt = a[1]
                if isinstance(dflt, ast.Constant) and dflt.value is None: dv = '.none'
                elif isinstance(dflt, ast.Constant) and dflt.value is False: dv = '.false_'
                else: bad(e, 'default of _portable_encodings.get')
                return f'(EPy.tableGet {atom(t)} {atom(k)} {dv})', PVAL
            if ty == ('strdict',) and f.attr == 'get' and len(a) == 2 and not e.keywords:
                k, kty = self.expr(a[0], env, B)
                dv, dty = self.expr(a[1], env, B)
                if kty != STR or dty != STR: bad(e, 'dict.get on a str dict')
                return f'(EPy.dictGetD {atom(t)} {atom(k)} {atom(dv)})', STR
            if f.attr == 'decode' and not e.keywords:
                if ty == ('abytes',) and len(a) == 1:
                    n, nty = self.expr(a[0], env, B)
                    if nty != STR: bad(e, 'decode(encoding)')
                    self.uses.add('dec')
                    return self.hoist(B, f'EPy.decodeAscii dec {atom(t)} {atom(n)}'), SOB
                if ty == BYTES and len(a) == 1:
                    n, nty = self.expr(a[0], env, B)
                    if nty != STR: bad(e, 'decode(encoding)')
                    self.uses.add('rawdec')
                    return self.hoist(B, f'EPy.decodeRaw rawdec {atom(t)} {atom(n)}'), STR
                if ty == FILEBYTES and len(a) == 1 and isinstance(a[0], ast.Constant) and a[0].value == 'UTF-8':
                    self.note(f'{self.pyname}: `{dotted(e)}` of a charmap file is the text it holds (the shipped files are valid UTF-8)')
                    return t, FILETEXT
            bad(e, f'method call {d}')
        a = e.args
        if isinstance(f, ast.Name) and f.id in env: bad(e, f'call of a local {d}')
        if d == 'len' and len(a) == 1 and not e.keywords:
            t, ty = self.expr(a[0], env, B)
            if ty in (STR, BYTES): return f'(({atom(t)}.length : Nat) : Int)', INT
            bad(e, f'len of {ty}')
        if d == 'isinstance' and len(a) == 2 and isinstance(a[1], ast.Name) and a[1].id == 'bytes' and not e.keywords:
            t, ty = self.expr(a[0], env, B)
            if ty == SOB: return f'{atom(t)}.isBytes', BOOL
            bad(e, f'isinstance of {ty}')
        if d == 'bytes' and len(a) == 1 and not e.keywords:
            t, ty = self.expr(a[0], env, B)
            if ty == BYTES: return t, BYTES
            bad(e, f'bytes of {ty}')
        if d == 'codecs.lookup' and len(a) == 1 and not e.keywords and self.u.imports_ok:
            t, ty = self.expr(a[0], env, B)
            if ty != STR: bad(e, 'codecs.lookup of a non-str')
            self.uses.add('registry')
            return self.hoist(B, f'EPy.codecsLookup registry {atom(t)}'), CODECNAME
        if d == 'codecs.charmap_build' and len(a) == 1 and not e.keywords and self.u.imports_ok:
            t, ty = self.expr(a[0], env, B)
            if ty != FILETEXT: bad(e, 'charmap_build of something other than the decoded file')
            return f'(Charset.encLookup {atom(t)})', ENCTABLE
        if d == 'codecs.CodecInfo' and not a and self.u.imports_ok:
            return self.codec_info(e, env, B)
        if isinstance(f, ast.Name) and f.id in self.u.translated:
            return self.call_translated(e, env, B)
        bad(e, f'call {dotted(e)[:60]}')

    def codec_info(self, e, env, B):
        kw = {k.arg: k.value for k in e.keywords}
        want = {'encode', 'decode', 'streamreader', 'streamwriter', 'incrementalencoder', 'incrementaldecoder', 'name'}
        if set(kw) != want: bad(e, 'CodecInfo arguments')
        for k in ('streamreader', 'streamwriter', 'incrementalencoder', 'incrementaldecoder'):
            if not (isinstance(kw[k], ast.Name) and kw[k].id == '_not_implemented' and self.u.not_implemented_ok): bad(e, f'CodecInfo {k}')
        n, nty = self.expr(kw['name'], env, B)
        if nty != STR: bad(e, 'CodecInfo name')
        enc, dec = kw['encode'], kw['decode']
        if not (isinstance(enc, ast.Name) and isinstance(dec, ast.Name) and enc.id in self.nested and dec.id in self.nested): bad(e, 'CodecInfo encode / decode')
        ke, te = self.nested[enc.id]
        kd, td = self.nested[dec.id]
        if (ke, kd) == ('charmap_encode', 'charmap_decode'):
            if env.get(te) != ENCTABLE or env.get(td) != FILETEXT: bad(e, 'the tables the closures use')
            return f'(EPy.Codec.charmap {atom(n)} {lname(td)} {lname(te)})', CODEC
        if (ke, kd) == ('iconv_encode', 'iconv_decode'):
            if te != dotted(kw['name']) or td != dotted(kw['name']): bad(e, 'the encoding the closures use')
            return f'(EPy.Codec.iconv {atom(n)})', CODEC
        bad(e, 'CodecInfo closures')

    def call_translated(self, e, env, B):
        name = e.func.id
        sig = self.u.translated[name]       # (positional param types, {kwonly: type}, needs, ret type)
        if len(e.args) != len(sig[0]): bad(e, f'arguments of {name}')
        texts = []
        for a, want in zip(e.args, sig[0]):
            t, ty = self.expr(a, env, B)
            if ty != want: bad(e, f'argument type {ty} of {name}')
            texts.append(atom(t))
        kw = self.kwargs(e, sig[1])
        for k, want in sig[1].items():
            if k in kw:
                t, ty = self.expr(kw[k], env, B)
                if ty != want: bad(e, f'keyword type of {name}')
                texts.append(atom(t))
            else:
                texts.append(self.u.kw_defaults[name][k])
        needs = sig[2]
        self.uses |= set(needs)
        front = [lname(n) if n.startswith('_') else n for n in ORDER if n in needs]
        return self.hoist(B, ' '.join([lname(name)] + front + texts)), sig[3]

    def cond(self, e, env, B):
        t, ty = self.expr(e, env, B)
        if ty == BOOL: return t
        bad(e, f'truth value of {ty}')

    # ---- statements
    def assign(self, target, value, s, env, go):
        if not isinstance(target, ast.Name): bad(s, 'assignment target')
        x = target.id
        if x in GLOBALS: bad(s, f'assignment to the module global {x}')
        B = []
        # file = open(path, 'rb') with path = os.path.join(paths.datadir, 'charmaps', NAME)
        if isinstance(value, ast.Call) and dotted(value.func) == 'open':
            if len(value.args) != 2 or value.keywords or not (isinstance(value.args[1], ast.Constant) and value.args[1].value == 'rb'): bad(s, 'open')
            p, pty = self.expr(value.args[0], env, B)
            if pty != ('charmappath',): bad(s, 'open of something other than a charmap path')
            self.uses.add('files')
            env2 = dict(env); env2[x] = FILEBYTES
            return self.wrap(B, ('match', f'EPy.openCharmap files {atom(p)}', [('none', ('raw', '.error .fileNotFound')), (f'some {lname(x)}', go(env2))]))
        if isinstance(value, ast.Call) and dotted(value.func) == 'os.path.join':
            a = value.args
            if len(a) == 3 and dotted(a[0]) == 'paths.datadir' and isinstance(a[1], ast.Constant) and a[1].value == 'charmaps' and not value.keywords and self.u.imports_ok:
                n, nty = self.expr(a[2], env, B)
                if nty != STR: bad(s, 'charmap file name')
                env2 = dict(env); env2[x] = ('charmappath',)
                return self.wrap(B, ('let', lname(x), n, go(env2)))
            bad(s, 'os.path.join')
        if isinstance(value, ast.Call) and isinstance(value.func, ast.Attribute) and value.func.attr == 'read' and not value.args and not value.keywords and \
           isinstance(value.func.value, ast.Name) and env.get(value.func.value.id) == FILEBYTES:
            env2 = dict(env); env2[x] = FILEBYTES
            return ('let', lname(x), lname(value.func.value.id), go(env2))
        text, ty = self.expr(value, env, B)
        env2 = dict(env); env2[x] = ty
        if B and getattr(B[-1], '__defaults__', None) and len(B[-1].__defaults__) == 2 and text == B[-1].__defaults__[0]:
            comp = B[-1].__defaults__[1]; B.pop()
            return self.wrap(B, bind(lname(x), comp, go(env2)))
        return self.wrap(B, ('let', lname(x), text, go(env2)))

    def call_stmt(self, c, s, env, go):
        bad(s, 'call statement')

    def with_(self, s, env, go):
        # `with file:` on an opened charmap file: the block, then the file is closed
        if len(s.items) == 1 and s.items[0].optional_vars is None and isinstance(s.items[0].context_expr, ast.Name) and env.get(s.items[0].context_expr.id) == FILEBYTES:
            return self.block(list(s.body), env, go, read_names(s.body) | {'#all'})
        bad(s, 'with')

    def other_stmt(self, s, rest, env, k, live):
        if isinstance(s, ast.Delete) and all(isinstance(t, ast.Name) and t.id in env for t in s.targets):
            env2 = dict(env)
            for t in s.targets:
                if t.id in read_names(rest): bad(s, f'{t.id} is read after `del`')
                del env2[t.id]
            return self.block(rest, env2, k, live)
        if isinstance(s, ast.FunctionDef):
            self.nested_def(s, env)
            return self.block(rest, env, k, live)
        return super().other_stmt(s, rest, env, k, live)

    def nested_def(self, s, env):
        """the closures of charmap_encoding / iconv_encoding"""
        a = s.args
        if s.decorator_list or a.vararg or a.kwarg or a.kwonlyargs or a.posonlyargs or [x.arg for x in a.args] != ['input', 'errors'] or \
           len(a.defaults) != 1 or not (isinstance(a.defaults[0], ast.Constant) and a.defaults[0].value == 'strict'): bad(s, 'nested function signature')
        src = '\n'.join(ast.unparse(x) for x in s.body)
        for kind, fn in (('charmap_encode', 'codecs.charmap_encode'), ('charmap_decode', 'codecs.charmap_decode')):
            if len(s.body) == 1 and isinstance(s.body[0], ast.Return) and isinstance(s.body[0].value, ast.Call) and dotted(s.body[0].value.func) == fn:
                c = s.body[0].value
                if len(c.args) == 3 and not c.keywords and dotted(c.args[0]) == 'input' and dotted(c.args[1]) == 'errors' and isinstance(c.args[2], ast.Name):
                    self.nested[s.name] = (kind, c.args[2].id)
                    return
        for kind, fn, arg in (('iconv_encode', 'iconv.encode', 'input'), ('iconv_decode', 'iconv.decode', 'bytes(input)')):
            want = f'output = {fn}({arg}, encoding=NAME, errors=errors)\nreturn (output, len(input))'
            if len(s.body) == 2 and isinstance(s.body[0], ast.Assign) and isinstance(s.body[0].value, ast.Call):
                kws = {k.arg: k.value for k in s.body[0].value.keywords}
                if 'encoding' in kws and src == want.replace('NAME', dotted(kws['encoding'])):
                    self.nested[s.name] = (kind, dotted(kws['encoding']))
                    return
        bad(s, f'nested function {s.name}')


class Unit:
    def __init__(self, repo):
        self.tree = ast.parse(open(os.path.join(repo, 'lib', 'encodings.py'), encoding='utf-8').read())
        self.functions = {n.name: n for n in self.tree.body if isinstance(n, ast.FunctionDef)}
        top = [ast.unparse(n) for n in self.tree.body]
        imports = [t for t in top if t.startswith(('import ', 'from '))]
        self.imports_ok = all(w in imports for w in ('import codecs', 'import os', 'from lib import iconv', 'from lib import misc', 'from lib import paths'))
        for n in ast.walk(self.tree):
            if isinstance(n, (ast.Global, ast.Nonlocal)): bad(n, 'global / nonlocal')
        bound = {}
        for n in self.tree.body:
            if isinstance(n, (ast.FunctionDef, ast.ClassDef)):
                bound[n.name] = bound.get(n.name, 0) + 1
                continue
            for x in ast.walk(n):
                if isinstance(x, ast.Name) and isinstance(x.ctx, ast.Store): bound[x.id] = bound.get(x.id, 0) + 1
                if isinstance(x, ast.alias): bound[(x.asname or x.name).split('.')[0]] = bound.get((x.asname or x.name).split('.')[0], 0) + 1
        for m in ('codecs', 'os', 'iconv', 'misc', 'paths'):
            if bound.get(m, 0) != 1: self.imports_ok = False
        for m in ('len', 'bytes', 'isinstance', 'open', 'str', 'range', 'LookupError', 'UnicodeDecodeError', 'UnicodeError', 'Exception', 'RuntimeError', 'FileNotFoundError'):
            if m in bound: self.imports_ok = False
        self.globals_ok = {}
        self.globals_ok['_portable_encodings'] = self.globals_ok['_pycodec_to_encoding'] = self.globals_ok['_extra_encodings'] = \
            '[_portable_encodings, _pycodec_to_encoding, _extra_encodings] = _read_encodings()' in top and \
            all(bound.get(k) == 1 for k in ('_portable_encodings', '_pycodec_to_encoding', '_extra_encodings'))
        self.globals_ok['_unmangle_encoding'] = '_unmangle_encoding = {}' in top and bound.get('_unmangle_encoding') == 1
        classes = {n.name: n for n in self.tree.body if isinstance(n, ast.ClassDef)}
        c = classes.get('EncodingLookupError')
        self.ele_ok = c is not None and [ast.unparse(b) for b in c.bases] == ['LookupError'] and bound.get('EncodingLookupError') == 1
        f = self.functions.get('_not_implemented')
        self.not_implemented_ok = f is not None and ast.unparse(f).endswith('raise NotImplementedError') and bound.get('_not_implemented') == 1
        self.consts = {}
        self.const_values = {}
        self.eval_constants(bound)
        self.dropped = set()
        self.translated = {}
        self.kw_defaults = {}

    def eval_constants(self, bound):
        """_interesting_ascii_bytes / _interesting_ascii_str from their defining expressions"""
        def ints(e):
            if isinstance(e, ast.List) and all(isinstance(x, ast.Constant) and isinstance(x.value, int) and not isinstance(x.value, bool) for x in e.elts):
                return [x.value for x in e.elts]
            if isinstance(e, ast.Call) and dotted(e.func) == 'range' and 1 <= len(e.args) <= 2 and not e.keywords and \
               all(isinstance(x, ast.Constant) and isinstance(x.value, int) and not isinstance(x.value, bool) for x in e.args):
                return list(range(*[x.value for x in e.args]))
            if isinstance(e, ast.Call) and dotted(e.func) == 'itertools.chain' and not e.keywords and 'import itertools' in [ast.unparse(n) for n in self.tree.body]:
                out = []
                for x in e.args: out += ints(x)
                return out
            bad(e, 'constant expression')
        for n in self.tree.body:
            if isinstance(n, ast.Assign) and len(n.targets) == 1 and isinstance(n.targets[0], ast.Name):
                x = n.targets[0].id
                if x == '_interesting_ascii_bytes':
                    v = n.value
                    if not (isinstance(v, ast.Call) and dotted(v.func) == 'bytes' and len(v.args) == 1 and not v.keywords): bad(n, '_interesting_ascii_bytes')
                    vals = ints(v.args[0])
                    if not all(0 <= b < 128 for b in vals): bad(n, '_interesting_ascii_bytes: a byte outside ASCII')
                    if bound.get(x) != 1: bad(n, f'{x} bound more than once')
                    self.const_values[x] = vals
                    self.consts[x] = ('interesting_ascii_bytes', ('abytes',))
                if x == '_interesting_ascii_str':
                    if ast.unparse(n.value) != '_interesting_ascii_bytes.decode()' or '_interesting_ascii_bytes' not in self.const_values or bound.get(x) != 1:
                        bad(n, '_interesting_ascii_str')
                    self.const_values[x] = list(self.const_values['_interesting_ascii_bytes'])
                    self.consts[x] = ('interesting_ascii_str', STR)


SIGS = {   # function -> (positional parameters with types, keyword-only flags with types, result)
    'is_portable_encoding': ([('encoding', STR)], {'python': BOOL}),
    'propose_portable_encoding': ([('encoding', STR)], {'python': BOOL}),
    'is_ascii_compatible_encoding': ([('encoding', STR)], {'missing_ok': BOOL}),
    'decode': ([('data', BYTES), ('encoding', STR)], {}),
    'charmap_encoding': ([('encoding', STR)], {}),
    'iconv_encoding': ([('encoding', STR)], {}),
    '_codec_search_function': ([('encoding', STR)], {}),
}
ORDER_FN = ['is_portable_encoding', 'propose_portable_encoding', 'is_ascii_compatible_encoding', 'decode', 'charmap_encoding', 'iconv_encoding', '_codec_search_function']

def translate(u, name):
    f = u.functions.get(name)
    if f is None: raise Untranslatable(f'{name} not found')
    pos, kwonly = SIGS[name]
    a = f.args
    if f.decorator_list or a.vararg or a.kwarg or a.posonlyargs or a.defaults or [x.arg for x in a.args] != [p for p, _ in pos] or \
       [x.arg for x in a.kwonlyargs] != list(kwonly): bad(f, f'signature of {name}')
    defaults = {}
    for x, dflt in zip(a.kwonlyargs, a.kw_defaults):
        if not (isinstance(dflt, ast.Constant) and isinstance(dflt.value, bool)): bad(f, f'default of {x.arg}')
        defaults[x.arg] = 'true' if dflt.value else 'false'
    env = {p: t for p, t in pos}
    env.update(kwonly)
    for n in ast.walk(f):
        if isinstance(n, ast.Name) and n.id in ('registry', 'dec', 'rawdec', 'files', 'exc_'): bad(n, f'the name {n.id} is taken by the translation')
    def run(probe, rt=None):
        fn = Fn(u, f, rt, probe)
        return fn, fn.block(list(f.body), dict(env), fn.fall_off, set())
    fn, _ = run(True)
    rt = None
    for t in fn.ret_types: rt = join(rt, t, f)
    if rt is None: raise Untranslatable(f'{name} returns nothing')
    fn, tree = run(False, rt)
    needs = [n for n in ORDER if n in fn.uses]
    u.translated[name] = ([t for _, t in pos], dict(kwonly), needs, rt)
    u.kw_defaults[name] = defaults
    binders = []
    for n in needs:
        binders.append(ENV_PARAMS[n] if n in ENV_PARAMS else f'({lname(n)} : {GLOBALS[n][1]})')
    binders += [f'({lname(p)} : {lean_type(t)})' for p, t in pos] + [f'({lname(p)} : {lean_type(t)})' for p, t in kwonly.items()]
    kwdoc = ''.join(f', {k}={v}' for k, v in defaults.items())
    doc = f'`lib.encodings.{name}` (defaults: {kwdoc[2:] or "none"})'
    return (f'/-- {doc} -/\ndef {lname(name)} {" ".join(binders)} : Except EPy.Exn {atom(lean_type(rt))} :=\n' +
            '\n'.join(render(tree, 1, STYLE)) + '\n')

HEADER = '''/-
GENERATED by tools/translate/encodings2lean.py from lib/encodings.py — do not edit.
Regenerated from the repository's working tree on every check; `I18n/Props/C20Tie.lean` (second part) proves the definitions equal to
the model of `Model/Charset.lean`.  The target kit is `Model/EncodingsPy.lean`.
-/
import I18n.Model.EncodingsPy
set_option linter.unusedVariables false
namespace I18n.Generated.EncodingsFn
open I18n I18n.Charset I18n.Generated.Charset

'''

def generate(repo):
    _mangled.clear()
    u = Unit(repo)
    out = [HEADER]
    for c in ('_interesting_ascii_bytes', '_interesting_ascii_str'):
        if c not in u.const_values: raise Untranslatable(f'{c} not found')
        out.append(f'/-- `{c}` as its defining expression evaluates -/\ndef {c.lstrip("_")} : List Nat := [' + ', '.join(map(str, u.const_values[c])) + ']\n')
    for name in ORDER_FN:
        out.append(translate(u, name))
    out.append('/- Statements discharged statically by the translator:\n' + ''.join(f'  {d}\n' for d in sorted(u.dropped)) + '-/\n')
    out.append('end I18n.Generated.EncodingsFn\n')
    return '\n'.join(out)

def main():
    repo = sys.argv[1] if len(sys.argv) > 1 else '/repo'
    dest = sys.argv[2] if len(sys.argv) > 2 else os.path.join(os.path.dirname(os.path.abspath(__file__)), '..', '..', 'lean', 'I18n', 'Generated', 'EncodingsFn.lean')
    try:
        try:
            text = generate(repo)
        except (SyntaxError, KeyError, AttributeError, TypeError, IndexError, ValueError, AssertionError, RecursionError, OSError) as exc:
            raise Untranslatable(f'{type(exc).__name__} while translating: {exc}')
    except Untranslatable as exc:
        msg = str(exc).replace('"', "'").replace('\\', '/')
        text = HEADER + (f'-- UNTRANSLATABLE: {msg}\n'
                         '/-- deliberately does not compile: the current lib/encodings.py is outside the translator\'s subset (see above) -/\n'
                         'def untranslatable : Unit := the_current_source_of_lib_encodings_is_untranslatable\n'
                         'end I18n.Generated.EncodingsFn\n')
        print(f'untranslatable: {exc}', file=sys.stderr)
        old = open(dest, encoding='utf-8').read() if os.path.exists(dest) else None
        if old != text: open(dest, 'w', encoding='utf-8').write(text)
        sys.exit(3)
    old = open(dest, encoding='utf-8').read() if os.path.exists(dest) else None
    if old != text:
        open(dest, 'w', encoding='utf-8').write(text)
        print('changed')
    else:
        print('unchanged')

if __name__ == '__main__':
    main()
