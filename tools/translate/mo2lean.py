#!/usr/bin/env python3
"""mo2lean: regenerate lean/I18n/Generated/MoParser.lean from the CURRENT source of lib/moparser.py.

Shallow, typed, statement-by-statement translation of `moparser.Parser.__init__` and everything it reaches
(`_parse`, `_read_ints`, `_parse_entry`, any helper method, the module constants) into Lean functions over the
Python-operation kit `I18n.Mo.Py` / `I18n.Mo` (lean/I18n/Model/MoKit.lean).  `Props/C08Tie.lean` proves the result
equal to the hand-written model `Mo.parse` for every byte string, so every C08/C09 theorem holds of the text
produced here from the source of THIS run; a changed line changes the Lean definition and the equality proof stops
compiling (or this script exits 3 because the change leaves the subset).

The translation (= trusted base of the tie; each rule is one Python construct -> one Lean shape)

  x = e ; rest                   let x := e; rest              (partial e:  match e with | .error e => .error e | .ok x => rest)
  [a, b] = e ; rest              match e with | [a, b] => rest | _ => .error (.crash .unpackValueError)
  *a, b = e ; rest               match e.getLast? with | none => ValueError | some b => let a := e.dropLast; rest
  a, b = divmod(x, y)            match Py.divmod x y with … | .ok (a, b) => rest
  self.f = e                     let self := { self with f := e }      (`self` is a record of the attributes assigned anywhere
                                 in the class; a read that is not preceded by an assignment on every path is rejected)
  if c: A else: B ; rest         a branch that always raises/returns takes no part in the join; otherwise
                                 match (if c then A' else B' : Except Err τ) with | .error e => .error e | .ok vars => rest
                                 where vars = variables assigned in A/B and read later (types joined: T ⊔ None = Option T)
  if x is None / is not None     match x with | none => … | some x => …        (flow typing; also for `assert x is not None`)
  raise SyntaxError(msg)         .error (.syntax <class of msg>)     (message texts -> Mo.SynErr by the table SYNTAX_MESSAGES below;
                                 f'unexpected major revision number: {n}' -> .major n; an unknown text is untranslatable)
  raise <Class>                  .error (.crash (.other "<Class>"))
  assert c                       if c then rest else .error (.crash .assertion)
  try: A except IndexError|UnicodeError: H     Py.tryExcept A' Py.isIndexError|Py.isUnicodeError H'
  try: A finally: del self.x     A                                (the attribute is not read afterwards)
  for i in range(n): A           Py.forRange n (fun i vars => A') vars         (no break/continue/return inside)
  return e                       .ok e   /  .ok (e, self) when the method assigns attributes
  view[a:b]  view[:b]  b[::-1]   Mo.slice view a b  /  .reverse                (memoryview(...), .cast('c'), .tobytes(): identity)
  view[i]   xs[i]                Py.viewIndex / Py.listGet                     (IndexError explicit)
  struct.unpack(f, b)            Py.structUnpack f b          str + str -> ++ ,  str * n -> List.replicate n
  b.split(sep, k) / b.split(sep) Mo.split sep k b / Mo.splitAll sep b          (one-byte separators)
  a < b on bytes                 Mo.bytesLt a b ; against an Optional: TypeError when None
  list == bytes-or-None          false            (CPython: objects of different built-in types never compare equal)
  re.search(CHARSET_RE, s)       Mo.findCharset s   (the pattern text is pinned; .group(1) is the value)
  s.decode('ASCII') (a name)     Py.decodeAsciiName s ; encodings.decode(b, enc) -> Mo.dec db enc b ;
  encodings.is_ascii_compatible_encoding(enc) -> db.asciiCompatible enc        (external calls are parameters: CodecDB)
  dict(k=v), kw.update(k=v), polib.MOEntry(**kw)   Py.Kwargs record / Py.Kwargs.toEntry
  {i: f(s) for i, s in enumerate(xs)}, [f(s) for s in xs]   Py.mapM (fun s => f s) xs
  klass(fpath=…, check_for_duplicates=False) with klass = polib.MOFile   the empty MoFile; .append(e) -> entries ++ [e]
  entry.<comment|occurrences|flags|translated|previous_*> = <constant|lambda>   dropped (outside the modelled entry)
  with open(path, 'rb') as f: contents = f.read()   the parameter `contents` (the file's bytes)
  ints are Nat: only + * << divmod and comparisons are in the subset (no subtraction), literals non-negative.

Anything else raises Untranslatable: exit status 3, an `untranslatable` marker in the output file (the Lean build of
everything that depends on it fails), and the checks count the dependent obligations as broken, never skipped.
"""
import ast, os, sys
sys.path.insert(0, os.path.dirname(os.path.abspath(__file__)))
from pytr import (Untranslatable, bad, lname, atom, render, bind, joinc, tuple_pat, Style, Stmts, _mangled,
                  is_self_attr, assigned_names, read_names, read_before_write, terminates, contains)

# ----------------------------------------------------------------------------- types

INT, BOOL, BYTES, STR, TEXT, NONE = ('int',), ('bool',), ('bytes',), ('str',), ('text',), ('none',)
MATCH, KWARGS, ENTRY, INSTANCE, SELF, PATH, FILECLS, ENTRYCLS = ('match',), ('kwargs',), ('entry',), ('instance',), ('self',), ('path',), ('class', 'MOFile'), ('class', 'MOEntry')
def OPT(t): return t if t[0] == 'opt' else ('opt', t)
def LIST(t): return ('list', t)
def PAIR(a, b): return ('pair', a, b)

def lean_type(t):
    k = t[0]
    if k == 'int': return 'Nat'
    if k == 'bool': return 'Bool'
    if k in ('bytes', 'str', 'match'): return 'Mo.Bytes'
    if k == 'text': return 'Mo.Text'
    if k == 'none': return 'Unit'
    if k == 'opt': return f'Option ({lean_type(t[1])})' if t[1][0] in ('opt', 'list', 'pair') else f'Option {lean_type(t[1])}'
    if k == 'list': return f'List ({lean_type(t[1])})' if t[1][0] in ('opt', 'list', 'pair') else f'List {lean_type(t[1])}'
    if k == 'pair': return f'({lean_type(t[1])} × {lean_type(t[2])})'
    if k == 'kwargs': return 'Mo.Py.Kwargs'
    if k == 'entry': return 'Mo.Entry'
    if k == 'instance': return 'Mo.MoFile'
    if k == 'self': return 'Self'
    if k == 'path': return 'Unit'
    raise Untranslatable(f'no Lean type for {t}')

def placeholder(t):
    k = t[0]
    if k == 'opt': return 'none'
    if k in ('bytes', 'str', 'match', 'text', 'list'): return '[]'
    if k == 'int': return '0'
    if k == 'bool': return 'false'
    if k == 'instance': return '⟨[], false⟩'
    if k in ('none', 'path'): return '()'
    raise Untranslatable(f'no placeholder for {t}')

def join(a, b, node=None):
    if a == b: return a
    if a == NONE: return OPT(b)
    if b == NONE: return OPT(a)
    if a[0] == 'opt' and (a[1] == b): return a
    if b[0] == 'opt' and (b[1] == a): return b
    bad(node, f'incompatible types {a} and {b}')

def coerce(text, frm, to, node=None):
    if frm == to: return text
    if to[0] == 'opt':
        if frm == NONE: return 'none'
        if frm == to[1]: return f'(some {text})'
    bad(node, f'cannot use a value of type {frm} where {to} is expected')

def bytes_lit(bs):
    if not bs: return '([] : Mo.Bytes)'
    return '([' + ', '.join(str(b) for b in bs) + '] : Mo.Bytes)'

# message texts of moparser.SyntaxError -> constructors of Mo.SynErr
SYNTAX_MESSAGES = {
    'truncated file': '.truncated',
    'unexpected magic': '.magic',
    'msgid is not null-terminated': '.msgidNotTerminated',
    'unexpected null byte in msgid': '.msgidNul',
    'msgstr is not null-terminated': '.msgstrNotTerminated',
    'unexpected null byte in msgstr': '.msgstrNul',
    'duplicate message definition': '.duplicate',
    'messages are not sorted': '.notSorted',
}
MAJOR_PREFIX = 'unexpected major revision number: '
CHARSET_RE = b'charset=([^ \t\n]+)'
ANCHORS = {'__init__', '_parse', '_read_ints', '_parse_entry', 'parse'}
CAUGHT = {'IndexError': 'Mo.Py.isIndexError', 'UnicodeError': 'Mo.Py.isUnicodeError'}
IGNORED_ENTRY_ATTRS = {'comment', 'occurrences', 'flags', 'translated', 'previous_msgctxt', 'previous_msgid', 'previous_msgid_plural'}
KWARG_FIELDS = {'msgid': TEXT, 'msgctxt': TEXT, 'msgstr': TEXT, 'msgid_plural': TEXT, 'msgstr_plural': LIST(TEXT)}
INSTANCE_FIELDS = {'possible_hidden_strings': ('possibleHiddenStrings', BOOL)}

def tuple_type(types):
    if not types: return 'Unit'
    if len(types) == 1: return atom(lean_type(types[0]))
    return '(' + ' × '.join(lean_type(t) for t in types) + ')'

# ----------------------------------------------------------------------------- the translator

class Unit:
    def __init__(self, src):
        self.tree = ast.parse(src)
        self.consts = {}
        self.cls = None
        self.has_syntax_error = False
        for node in self.tree.body:
            if isinstance(node, ast.Assign) and len(node.targets) == 1 and isinstance(node.targets[0], ast.Name):
                self.consts[node.targets[0].id] = node
            elif isinstance(node, ast.ClassDef) and node.name == 'Parser':
                self.cls = node
            elif isinstance(node, ast.ClassDef) and node.name == 'SyntaxError':
                ok = len(node.bases) == 1 and isinstance(node.bases[0], ast.Name) and node.bases[0].id == 'Exception' and \
                     all(isinstance(s, ast.Pass) for s in node.body)
                if not ok: bad(node, 'class SyntaxError is no longer a plain subclass of Exception')
                self.has_syntax_error = True
        if self.cls is None: raise Untranslatable('class Parser not found')
        if not self.has_syntax_error: raise Untranslatable('class SyntaxError not found')
        self.methods = {}
        for node in self.cls.body:
            if isinstance(node, ast.FunctionDef):
                if node.decorator_list: bad(node, f'decorated method {node.name}')
                self.methods[node.name] = node
            elif isinstance(node, ast.Expr) and isinstance(node.value, ast.Constant):
                pass
            else:
                bad(node, 'class-level statement other than a method')
        self.imports = {}
        for node in self.tree.body:
            if isinstance(node, ast.Import):
                for a in node.names: self.imports[a.asname or a.name] = a.name
            elif isinstance(node, ast.ImportFrom):
                for a in node.names: self.imports[a.asname or a.name] = f'{node.module}.{a.name}'
        # which methods assign attributes of self (transitively)
        self.writes = {}
        direct, calls = {}, {}
        for name, fn in self.methods.items():
            direct[name] = self._direct_write(fn)
            calls[name] = {n.func.attr for n in ast.walk(fn) if isinstance(n, ast.Call) and is_self_attr(n.func)}
        changed = True
        w = dict(direct)
        while changed:
            changed = False
            for name in self.methods:
                if not w[name] and any(w.get(c, False) for c in calls[name]):
                    w[name] = True; changed = True
        self.writes = w
        self.field_types = {}
        self.field_order = []
        self.widened = False
        self.defs = {}          # method -> (argtypes, rettype, text)
        self.order = []
        self.const_defs = {}
        self.const_order = []
        self.dropped = set()
        self.stack = []

    def _direct_write(self, fn):
        for n in ast.walk(fn):
            if isinstance(n, (ast.Assign,)):
                for t in n.targets:
                    for x in ast.walk(t):
                        if isinstance(x, ast.Attribute) and isinstance(x.ctx, ast.Store):
                            root = x
                            while isinstance(root, ast.Attribute): root = root.value
                            if isinstance(root, ast.Name) and root.id == 'self': return True
            if isinstance(n, ast.Expr) and isinstance(n.value, ast.Call) and isinstance(n.value.func, ast.Attribute) and \
               is_self_attr(n.value.func.value):
                return True     # self.instance.append(...)
        return False

    # ---- attributes of self
    def set_field(self, name, ty, node):
        old = self.field_types.get(name)
        if old is None:
            self.field_types[name] = ty
            self.field_order.append(name)
            self.widened = True
        else:
            new = join(old, ty, node)
            if new != old:
                self.field_types[name] = new
                self.widened = True
        return self.field_types[name]

    def field(self, name, node):
        if name not in self.field_types:
            bad(node, f'self.{name} is read but never assigned')
        return self.field_types[name]

    # ---- module constants
    def const(self, name, node):
        if name not in self.consts: bad(node, f'unknown name {name}')
        if name not in self.const_defs:
            fn = Fn(self, '<module>', {}, False)
            text, ty = fn.pure(self.consts[name].value)
            self.const_defs[name] = (ty, f'def {lname(name)} : {lean_type(ty)} := {text}\n')
            self.const_order.append(name)
        return lname(name), self.const_defs[name][0]

    # ---- methods
    def method(self, name, argtypes, node):
        if name not in self.methods: bad(node, f'unknown method {name}')
        if name in self.stack: bad(node, f'recursive method {name}')
        if name in self.defs:
            old = self.defs[name]
            if old[0] != argtypes: bad(node, f'method {name} is called with argument types {argtypes} and {old[0]}')
            return old[1]
        fnode = self.methods[name]
        a = fnode.args
        if a.vararg or a.kwarg or a.posonlyargs: bad(fnode, 'unsupported signature')
        params = [x.arg for x in a.args[1:]] + [x.arg for x in a.kwonlyargs]
        self.stack.append(name)
        try:
            rets = []
            env = dict(zip(params, argtypes))
            env['self'] = SELF
            probe = Fn(self, name, dict(env), self.writes[name])
            probe.ret_types = rets
            probe.block(fnode.body, dict(env), probe.fall_off, set())
            rt = None
            for t in rets:
                rt = t if rt is None else join(rt, t, fnode)
            if rt is None: rt = NONE
            real = Fn(self, name, dict(env), self.writes[name])
            real.ret_type = rt
            tree = real.block(fnode.body, dict(env), real.fall_off, set())
        finally:
            self.stack.pop()
        res = self.result_type(rt, self.writes[name])
        sig = ''.join(f' ({lname(p)} : {lean_type(t)})' for p, t in zip(params, argtypes))
        text = f'/-- `Parser.{name}` -/\ndef {lname(name)} (db : Mo.CodecDB) (self : Self){sig} : Except Mo.Err {atom(res)} :=\n' + '\n'.join(render(tree, 1, STYLE)) + '\n'
        self.defs[name] = (argtypes, rt, text)
        self.order.append(name)
        return rt

    def result_type(self, rt, writes):
        if not writes: return lean_type(rt)
        if rt == NONE: return 'Self'
        return f'({lean_type(rt)} × Self)'

class MoTypes:
    NONE, INT = NONE, INT
    join = staticmethod(join)
    coerce = staticmethod(coerce)
    tuple_type = staticmethod(tuple_type)

STYLE = Style('Mo.Err', 'Mo.Py.tryExcept', 'Mo.Py.forRange')

class Fn(Stmts):
    """translation of one method body"""
    T = MoTypes
    EXC_ASSERT = '.error (.crash .assertion)'
    CAUGHT = CAUGHT
    writes_map = property(lambda self: self.u.writes)

    def note(self, msg):
        self.u.dropped.add(msg)

    def __init__(self, unit, name, env, writes):
        self.u = unit
        self.name = name
        self.writes = writes
        self.ret_types = None       # probe mode: collect
        self.ret_type = None
        self.ntmp = 0

    # ---------------- results
    def ok(self, value_text, ty, env, node=None):
        if self.ret_types is not None:
            self.ret_types.append(ty)
            return ('raw', '.ok default')
        v = coerce(value_text, ty, self.ret_type, node)
        if not self.writes: return ('raw', f'.ok {v}')
        if self.ret_type == NONE: return ('raw', '.ok self')
        return ('raw', f'.ok ({v}, self)')

    # ---------------- expressions
    def pure(self, e):
        """expression without partial operations -> (text, type); env-free (constants)"""
        B = []
        text, ty = self.expr(e, {}, B)
        if B: bad(e, 'partial operation in a constant')
        return text, ty

    def expr(self, e, env, B):
        """-> (pure Lean text, type); partial sub-computations are appended to B (in evaluation order)"""
        if isinstance(e, ast.Constant):
            v = e.value
            if v is None: return '()', NONE
            if v is True: return 'true', BOOL
            if v is False: return 'false', BOOL
            if isinstance(v, int):
                if v < 0: bad(e, 'negative literal')
                return str(v), INT
            if isinstance(v, bytes): return bytes_lit(v), BYTES
            if isinstance(v, str):
                if not v.isascii(): bad(e, 'non-ASCII str literal')
                return bytes_lit(v.encode('ascii')), STR
            bad(e, f'literal {v!r}')
        if isinstance(e, ast.Name):
            if e.id in env: return lname(e.id), env[e.id]
            return self.u.const(e.id, e)
        if isinstance(e, ast.Attribute):
            if is_self_attr(e):
                self.self_defined(env, e)
                if e.attr == 'instance' or self.u.field_types.get(e.attr) == INSTANCE:
                    pass
                return f'self.{lname(e.attr)}', self.u.field(e.attr, e)
            if isinstance(e.value, ast.Name) and e.value.id not in env and self.u.imports.get(e.value.id) == 'polib':
                if e.attr == 'MOFile': return '()', FILECLS
                if e.attr == 'MOEntry': return '()', ENTRYCLS
            vt, vty = self.expr(e.value, env, B)
            if vty == INSTANCE and e.attr in INSTANCE_FIELDS:
                f, t = INSTANCE_FIELDS[e.attr]
                return f'{vt}.{f}', t
            bad(e, f'attribute .{e.attr} of a value of type {vty}')
        if isinstance(e, ast.BinOp):
            lt, lty = self.expr(e.left, env, B)
            rt, rty = self.expr(e.right, env, B)
            op = type(e.op).__name__
            if lty == INT and rty == INT and op in ('Add', 'Mult', 'LShift'):
                return f'({lt} {dict(Add="+", Mult="*", LShift="<<<")[op]} {rt})', INT
            if lty == STR and rty == STR and op == 'Add': return f'({lt} ++ {rt})', STR
            if lty == BYTES and rty == BYTES and op == 'Add': return f'({lt} ++ {rt})', BYTES
            if lty == STR and rty == INT and op == 'Mult':
                if not (isinstance(e.left, ast.Constant) and len(e.left.value) == 1): bad(e, 'str * int only for one-character literals')
                return f'(List.replicate {rt} ({ord(e.left.value)} : UInt8))', STR
            bad(e, f'operator {op} on {lty}, {rty}')
        if isinstance(e, ast.UnaryOp) and isinstance(e.op, ast.Not):
            return f'(!{self.cond(e.operand, env, B)})', BOOL
        if isinstance(e, ast.BoolOp):
            parts = []
            for i, v in enumerate(e.values):
                B2 = []
                parts.append(self.cond(v, env, B2))
                if B2:
                    if i > 0: bad(e, 'partial operation on the right of and/or')
                    B.extend(B2)
            return '(' + (' && ' if isinstance(e.op, ast.And) else ' || ').join(parts) + ')', BOOL
        if isinstance(e, ast.Compare):
            return self.compare(e, env, B)
        if isinstance(e, ast.Subscript):
            return self.subscript(e, env, B)
        if isinstance(e, ast.List):
            items = [self.expr(x, env, B) for x in e.elts]
            if not items: bad(e, 'empty list literal')
            ty = items[0][1]
            for _, t in items[1:]:
                if t != ty: bad(e, 'heterogeneous list literal')
            return '[' + ', '.join(t for t, _ in items) + ']', LIST(ty)
        if isinstance(e, ast.Call):
            return self.call(e, env, B)
        if isinstance(e, (ast.DictComp, ast.ListComp)):
            return self.comprehension(e, env, B)
        bad(e, f'expression {type(e).__name__}')

    def self_defined(self, env, node):
        if 'self' not in env: bad(node, 'self outside a method')

    def cond(self, e, env, B):
        """truth value of e as Lean Bool text"""
        # `x is None` / `x is not None` in value position
        text, ty = self.expr(e, env, B)
        if ty == BOOL: return text
        if ty[0] == 'list': return f'(!{text}.isEmpty)'
        if ty in (BYTES, STR): return f'(!{text}.isEmpty)'
        if ty == INT: return f'(decide ({text} ≠ 0))'
        bad(e, f'truth value of {ty}')

    def compare(self, e, env, B):
        if len(e.ops) != 1: bad(e, 'chained comparison')
        op = type(e.ops[0]).__name__
        lt, lty = self.expr(e.left, env, B)
        rt, rty = self.expr(e.comparators[0], env, B)
        if op in ('Is', 'IsNot'):
            if rty != NONE: bad(e, '`is` against something other than None')
            if lty == NONE: return ('true' if op == 'Is' else 'false'), BOOL
            if lty[0] != 'opt': return ('false' if op == 'Is' else 'true'), BOOL
            return (f'{lt}.isNone' if op == 'Is' else f'{lt}.isSome'), BOOL
        if op in ('Eq', 'NotEq'):
            sym = '=' if op == 'Eq' else '≠'
            def kinds(t):
                if t[0] == 'opt': return kinds(t[1]) | {'none'}
                if t[0] == 'list': return {'list'}
                return {{INT: 'int', BOOL: 'int', BYTES: 'bytes', STR: 'str', TEXT: 'str', MATCH: 'match', NONE: 'none'}.get(t, '?')}
            kl, kr = kinds(lty), kinds(rty)
            if '?' in kl | kr: bad(e, f'== between {lty} and {rty}')
            if lty == rty and lty[0] != 'opt' and lty != NONE:
                return f'(decide ({lt} {sym} {rt}))', BOOL
            if not (kl & kr):
                # objects of different built-in types (list / bytes / str / int / None) never compare equal
                self.u.dropped.add(f'{self.name} line {e.lineno}: `{ast.unparse(e)}` compares {"/".join(sorted(kl))} with {"/".join(sorted(kr))}: constant')
                return ('false' if op == 'Eq' else 'true'), BOOL
            bad(e, f'== between {lty} and {rty}')
        if lty == INT and rty == INT:
            sym = {'Lt': '<', 'LtE': '≤', 'Gt': '>', 'GtE': '≥'}[op]
            return f'(decide ({lt} {sym} {rt}))', BOOL
        if op in ('Lt', 'Gt') and lty in (BYTES, NONE, OPT(BYTES)) and rty in (BYTES, NONE, OPT(BYTES)) and BYTES in (lty, rty):
            def unopt(text, ty):
                if ty == BYTES: return text
                if ty == NONE:
                    B.append(lambda rest: ('raw', '.error (.crash .typeError)'))
                    return text
                t = self.tmp()
                B.append(lambda rest, t=t, text=text: ('match', text, [('none', ('raw', '.error (.crash .typeError)')), (f'some {t}', rest)]))
                return t
            a = unopt(lt, lty); b = unopt(rt, rty)
            return (f'(Mo.bytesLt {a} {b})' if op == 'Lt' else f'(Mo.bytesLt {b} {a})'), BOOL
        bad(e, f'comparison {op} between {lty} and {rty}')

    def subscript(self, e, env, B):
        vt, vty = self.expr(e.value, env, B)
        s = e.slice
        if isinstance(s, ast.Slice):
            if vty != BYTES: bad(e, f'slice of {vty}')
            if s.step is not None:
                if s.lower is None and s.upper is None and isinstance(s.step, ast.UnaryOp) and isinstance(s.step.op, ast.USub) and \
                   isinstance(s.step.operand, ast.Constant) and s.step.operand.value == 1:
                    return f'{vt}.reverse', BYTES
                bad(e, 'slice step')
            lo = '0'
            if s.lower is not None:
                lo, t = self.expr(s.lower, env, B)
                if t != INT: bad(e, 'slice bound')
            if s.upper is not None:
                hi, t = self.expr(s.upper, env, B)
                if t != INT: bad(e, 'slice bound')
            else:
                hi = f'{vt}.length'
            return f'(Mo.slice {vt} {lo} {hi})', BYTES
        it, ity = self.expr(s, env, B)
        if ity != INT: bad(e, 'index')
        if vty == BYTES and self.is_view(e.value, env):
            return self.hoist(B, f'Mo.Py.viewIndex {vt} {it}'), BYTES
        if vty[0] == 'list':
            return self.hoist(B, f'Mo.Py.listGet {vt} {it}'), vty[1]
        bad(e, f'index into {vty} (bytes[i] is an int; only memoryview("c")[i] and list[i] are in the subset)')

    def is_view(self, e, env):
        """memoryview cast to 'c' (indexing gives bytes) as opposed to bytes (indexing gives int)"""
        if isinstance(e, ast.Name): return env.get('#view:' + e.id, False)
        if is_self_attr(e): return self.u.field_types.get('#view:' + e.attr, False)
        return False

    def kwargs_of(self, call, allowed=None):
        if call.args: bad(call, 'positional arguments')
        out = {}
        for k in call.keywords:
            if k.arg is None: bad(call, '**')
            out[k.arg] = k.value
        return out

    def call(self, e, env, B):
        f = e.func
        # ---- builtins
        if isinstance(f, ast.Name) and f.id not in env:
            if f.id == 'len' and len(e.args) == 1 and not e.keywords:
                t, ty = self.expr(e.args[0], env, B)
                if ty not in (BYTES, STR) and ty[0] != 'list': bad(e, f'len of {ty}')
                return f'{t}.length', INT
            if f.id == 'divmod' and len(e.args) == 2 and not e.keywords:
                a, aty = self.expr(e.args[0], env, B)
                b, bty = self.expr(e.args[1], env, B)
                if aty != INT or bty != INT: bad(e, 'divmod of non-ints')
                return self.hoist(B, f'Mo.Py.divmod {a} {b}'), PAIR(INT, INT)
            if f.id == 'memoryview' and len(e.args) == 1 and not e.keywords:
                t, ty = self.expr(e.args[0], env, B)
                if ty != BYTES: bad(e, 'memoryview of non-bytes')
                return t, BYTES
            if f.id == 'isinstance' and len(e.args) == 2 and isinstance(e.args[1], ast.Name) and e.args[1].id == 'bytes':
                t, ty = self.expr(e.args[0], env, B)
                return ('true' if ty == BYTES else 'false'), BOOL
            if f.id == 'dict':
                kw = self.kwargs_of(e)
                return self.kwargs_record('{ }', kw, env, B, e), KWARGS
            bad(e, f'call of {f.id}')
        if isinstance(f, ast.Name) and f.id in env:
            if env[f.id] == FILECLS:
                kw = self.kwargs_of(e)
                if set(kw) != {'fpath', 'check_for_duplicates'} or not (isinstance(kw['check_for_duplicates'], ast.Constant) and kw['check_for_duplicates'].value is False):
                    bad(e, 'MOFile constructor arguments')
                return '(⟨[], false⟩ : Mo.MoFile)', INSTANCE
            bad(e, f'call of local {f.id}')
        if not isinstance(f, ast.Attribute): bad(e, 'call')
        # ---- module functions
        if isinstance(f.value, ast.Name) and f.value.id not in env and f.value.id in self.u.imports:
            mod = self.u.imports[f.value.id]
            if mod == 'struct' and f.attr == 'unpack' and len(e.args) == 2 and not e.keywords:
                a, aty = self.expr(e.args[0], env, B)
                b, bty = self.expr(e.args[1], env, B)
                if aty != STR or bty != BYTES: bad(e, 'struct.unpack argument types')
                return self.hoist(B, f'Mo.Py.structUnpack {a} {b}'), LIST(INT)
            if mod == 're' and f.attr == 'search' and len(e.args) == 2 and not e.keywords:
                p = e.args[0]
                if not (isinstance(p, ast.Constant) and p.value == CHARSET_RE): bad(e, 'regular expression other than ' + repr(CHARSET_RE))
                s, sty = self.expr(e.args[1], env, B)
                if sty != BYTES: bad(e, 're.search subject')
                return f'(Mo.findCharset {s})', OPT(MATCH)
            if mod == 'lib.encodings' and f.attr == 'decode' and len(e.args) == 2 and not e.keywords:
                a, aty = self.expr(e.args[0], env, B)
                b, bty = self.expr(e.args[1], env, B)
                if aty != BYTES or bty != STR: bad(e, f'encodings.decode argument types {aty}, {bty}')
                return self.hoist(B, f'Mo.dec db {b} {a}'), TEXT
            if mod == 'lib.encodings' and f.attr == 'is_ascii_compatible_encoding' and len(e.args) == 1 and not e.keywords:
                a, aty = self.expr(e.args[0], env, B)
                if aty != STR: bad(e, f'is_ascii_compatible_encoding argument type {aty}')
                return f'(db.asciiCompatible {a})', BOOL
            if mod == 'polib' and f.attr == 'MOEntry':
                if e.args or len(e.keywords) != 1 or e.keywords[0].arg is not None: bad(e, 'MOEntry arguments')
                k, kty = self.expr(e.keywords[0].value, env, B)
                if kty != KWARGS: bad(e, 'MOEntry(**x)')
                return self.hoist(B, f'Mo.Py.Kwargs.toEntry {k}'), ENTRY
            bad(e, f'call of {mod}.{f.attr}')
        # ---- methods of self
        if is_self_attr(f):
            bad(e, 'method call in a nested expression')      # handled at statement level (call_self)
        # ---- methods of values
        vt, vty = self.expr(f.value, env, B)
        m = f.attr
        if vty == BYTES and m == 'tobytes' and not e.args and not e.keywords: return vt, BYTES
        if vty == BYTES and m == 'cast' and len(e.args) == 1 and isinstance(e.args[0], ast.Constant) and e.args[0].value == 'c': return vt, BYTES
        if vty == BYTES and m == 'split' and not e.keywords and len(e.args) in (1, 2):
            sep = e.args[0]
            if not (isinstance(sep, ast.Constant) and isinstance(sep.value, bytes) and len(sep.value) == 1): bad(e, 'split separator')
            if len(e.args) == 1:
                return f'(Mo.splitAll {sep.value[0]} {vt})', LIST(BYTES)
            k, kty = self.expr(e.args[1], env, B)
            if kty != INT: bad(e, 'maxsplit')
            return f'(Mo.split {sep.value[0]} {k} {vt})', LIST(BYTES)
        if vty in (BYTES, MATCH) and m == 'decode' and len(e.args) == 1 and not e.keywords and isinstance(e.args[0], ast.Constant) and e.args[0].value == 'ASCII':
            return self.hoist(B, f'Mo.Py.decodeAsciiName {vt}'), STR
        if vty == MATCH and m == 'group' and len(e.args) == 1 and isinstance(e.args[0], ast.Constant) and e.args[0].value == 1:
            return vt, BYTES
        bad(e, f'method .{m} of a value of type {vty}')

    def kwargs_record(self, base, kw, env, B, node):
        fields = []
        for k, v in kw.items():
            if k not in KWARG_FIELDS: bad(node, f'keyword {k}')
            t, ty = self.expr(v, env, B)
            if ty != KWARG_FIELDS[k]: bad(node, f'keyword {k} of type {ty}')
            fields.append(f'{k} := some {t}')
        if base == '{ }':
            return '({ ' + ', '.join(fields) + ' } : Mo.Py.Kwargs)'
        return '{ ' + base + ' with ' + ', '.join(fields) + ' }'

    def comprehension(self, e, env, B):
        if len(e.generators) != 1: bad(e, 'comprehension')
        g = e.generators[0]
        if g.ifs or g.is_async: bad(e, 'comprehension')
        if isinstance(e, ast.DictComp):
            it = g.iter
            if not (isinstance(it, ast.Call) and isinstance(it.func, ast.Name) and it.func.id == 'enumerate' and len(it.args) == 1 and not it.keywords):
                bad(e, 'dict comprehension not over enumerate(...)')
            if not (isinstance(g.target, ast.Tuple) and len(g.target.elts) == 2 and all(isinstance(x, ast.Name) for x in g.target.elts)):
                bad(e, 'dict comprehension target')
            ivar, svar = g.target.elts[0].id, g.target.elts[1].id
            if not (isinstance(e.key, ast.Name) and e.key.id == ivar): bad(e, 'dict comprehension key is not the enumeration index')
            src, body = it.args[0], e.value
            if ivar in read_names([ast.Expr(body)]): bad(e, 'enumeration index used in the value')
        else:
            if not isinstance(g.target, ast.Name): bad(e, 'comprehension target')
            svar, src, body = g.target.id, g.iter, e.elt
        xs, xty = self.expr(src, env, B)
        if xty[0] != 'list': bad(e, 'comprehension over a non-list')
        env2 = dict(env); env2[svar] = xty[1]
        B2 = []
        t, ty = self.expr(body, env2, B2)
        inner = self.wrap(B2, ('raw', f'.ok {t}'))
        if inner[0] == 'bind' and inner[3] == ('raw', f'.ok {inner[1]}'):
            body_text = inner[2]             # match c with | .error e => .error e | .ok t => .ok t   is   c
        else:
            body_text = ' '.join(l.strip() for l in render(inner, 0, STYLE))
        return self.hoist(B, f'Mo.Py.mapM (fun {lname(svar)} => {body_text}) {xs}'), LIST(ty)

    # ---------------- calls of methods of self (statement level)
    def call_self(self, e, env, B):
        """self._m(args) -> (comp text, return type, writes)"""
        f = e.func
        name = f.attr
        if name not in self.u.methods: bad(e, f'unknown method {name}')
        fnode = self.u.methods[name]
        a = fnode.args
        params = [x.arg for x in a.args[1:]]
        defaults = dict(zip(params[len(params) - len(a.defaults):], a.defaults))
        for x, d in zip(a.kwonlyargs, a.kw_defaults):
            params.append(x.arg)
            if d is not None: defaults[x.arg] = d
        npos = len(a.args) - 1
        given = {}
        if len(e.args) > npos: bad(e, 'too many positional arguments')
        for p, v in zip(params, e.args): given[p] = v
        for k in e.keywords:
            if k.arg is None or k.arg not in params or k.arg in given: bad(e, f'keyword argument {k.arg}')
            given[k.arg] = k.value
        texts, types = [], []
        for p in params:
            if p in given: t, ty = self.expr(given[p], env, B)
            elif p in defaults: t, ty = self.pure(defaults[p])
            else: bad(e, f'missing argument {p}')
            texts.append(atom(t)); types.append(ty)
        rt = self.u.method(name, types, e)
        return f'{lname(name)} db self' + ''.join(' ' + t for t in texts), rt, self.u.writes[name]

    def value(self, e, env, B):
        """right-hand side of an assignment: ('pure'|'comp', text, type, rebinds_self)"""
        if isinstance(e, ast.Call) and is_self_attr(e.func):
            comp, rt, w = self.call_self(e, env, B)
            return 'comp', comp, rt, w
        B0 = len(B)
        text, ty = self.expr(e, env, B)
        return 'pure', text, ty, False

    # ---------------- statements
    def raise_(self, s, env, B):
        x = s.exc
        if s.cause is not None or x is None: bad(s, 'raise … from / bare raise')
        if isinstance(x, ast.Name) and x.id not in env and x.id != 'SyntaxError':
            return f'.error (.crash (.other "{x.id}"))'
        if isinstance(x, ast.Call) and isinstance(x.func, ast.Name) and x.func.id == 'SyntaxError' and 'SyntaxError' not in env and \
           len(x.args) == 1 and not x.keywords:
            m = x.args[0]
            if isinstance(m, ast.Constant) and isinstance(m.value, str):
                if m.value not in SYNTAX_MESSAGES: bad(s, f'SyntaxError message {m.value!r} has no class in Mo.SynErr')
                return f'.error (.syntax {SYNTAX_MESSAGES[m.value]})'
            if isinstance(m, ast.JoinedStr) and len(m.values) == 2 and isinstance(m.values[0], ast.Constant) and m.values[0].value == MAJOR_PREFIX and \
               isinstance(m.values[1], ast.FormattedValue) and m.values[1].conversion == -1 and m.values[1].format_spec is None:
                t, ty = self.expr(m.values[1].value, env, B)
                if ty != INT: bad(s, 'formatted value is not an int')
                return f'.error (.syntax (.major {t}))'
            bad(s, f'SyntaxError message {ast.unparse(m)} has no class in Mo.SynErr')
        bad(s, f'raise {ast.unparse(x)}')

    def assign(self, target, value, s, env, go):
        B = []
        # entry.<ignored attr> = constant
        if isinstance(target, ast.Attribute) and isinstance(target.value, ast.Name) and env.get(target.value.id) == ENTRY:
            if target.attr in IGNORED_ENTRY_ATTRS and (isinstance(value, ast.Constant) or (isinstance(value, ast.Tuple) and not value.elts) or
                                                       (isinstance(value, ast.Lambda) and isinstance(value.body, ast.Constant))):
                self.u.dropped.add(f'{self.name}: `{ast.unparse(s)}` (attribute outside the modelled entry)')
                return go(env)
            bad(s, f'assignment to entry.{target.attr}')
        # divmod
        kind, text, ty, w = self.value(value, env, B)
        comp = text
        def bound(pat, tree):
            p = pat
            if w: p = f'({pat}, self)' if ty != NONE else 'self'
            return bind(p, comp, tree)
        if isinstance(target, ast.Name):
            x = target.id
            if x in self.u.methods or x in self.u.consts or x == 'self':
                bad(s, f'local variable {x} hides a method / module constant / self')
            if ty in (KWARGS, INSTANCE, SELF) and not isinstance(value, ast.Call):
                bad(s, f'second name for a mutable object ({ast.unparse(value)}): later mutations through one name would have to show through the other')
            env2 = dict(env); env2[x] = ty
            env2['#view:' + x] = self.viewness(value, env)
            if kind == 'comp':
                return self.wrap(B, bound(lname(x), go(env2)))
            return self.wrap(B, ('let', lname(x), text, go(env2)))
        if kind == 'comp':
            t = self.tmp()
            B.append(lambda r, t=t: bound(t, r))
            text = t
        if isinstance(target, ast.Attribute):
            if is_self_attr(target):
                fty = self.u.set_field(target.attr, ty, s)
                if self.viewness(value, env): self.u.field_types['#view:' + target.attr] = True
                v = coerce(text, ty, fty, s)
                return self.wrap(B, ('let', 'self', f'{{ self with {lname(target.attr)} := {v} }}', go(env)))
            if is_self_attr(target.value) and self.u.field_types.get(target.value.attr) == INSTANCE and target.attr in INSTANCE_FIELDS:
                f, fty = INSTANCE_FIELDS[target.attr]
                if ty != fty: bad(s, f'{target.attr} of type {ty}')
                a = lname(target.value.attr)
                return self.wrap(B, ('let', 'self', f'{{ self with {a} := {{ self.{a} with {f} := {text} }} }}', go(env)))
            bad(s, f'assignment to {ast.unparse(target)}')
        if isinstance(target, (ast.List, ast.Tuple)):
            elts = target.elts
            stars = [i for i, x in enumerate(elts) if isinstance(x, ast.Starred)]
            names = []
            for x in elts:
                y = x.value if isinstance(x, ast.Starred) else x
                if not isinstance(y, ast.Name): bad(s, 'unpacking target')
                names.append(y.id)
            env2 = dict(env)
            if ty[0] == 'pair' and not stars and len(names) == 2:
                env2[names[0]], env2[names[1]] = ty[1], ty[2]
                return self.wrap(B, ('match', text, [(f'({lname(names[0])}, {lname(names[1])})', go(env2))]))
            if ty[0] != 'list': bad(s, f'unpacking a value of type {ty}')
            if not stars:
                for n in names: env2[n] = ty[1]
                pat = '[' + ', '.join(lname(n) for n in names) + ']'
                return self.wrap(B, ('match', text, [(pat, go(env2)), ('_', ('raw', '.error (.crash .unpackValueError)'))]))
            if stars == [0] and len(names) == 2:
                env2[names[0]], env2[names[1]] = ty, ty[1]
                t = self.tmp()
                return self.wrap(B, ('let', t, text, ('match', f'{t}.getLast?', [
                    ('none', ('raw', '.error (.crash .unpackValueError)')),
                    (f'some {lname(names[1])}', ('let', lname(names[0]), f'{t}.dropLast', go(env2)))])))
            bad(s, 'starred unpacking other than `*a, b = …`')
        bad(s, f'assignment target {type(target).__name__}')

    def viewness(self, value, env):
        """is the value a memoryview cast to 'c'?"""
        if isinstance(value, ast.Call) and isinstance(value.func, ast.Attribute) and value.func.attr == 'cast': return True
        if isinstance(value, ast.Name): return env.get('#view:' + value.id, False)
        if is_self_attr(value): return self.u.field_types.get('#view:' + value.attr, False)
        if isinstance(value, ast.Subscript) and isinstance(value.slice, ast.Slice): return self.viewness(value.value, env)
        return False

    def call_stmt(self, c, s, env, go):
        B = []
        f = c.func
        if is_self_attr(f):
            comp, rt, w = self.call_self(c, env, B)
            pat = '_'
            if w: pat = '(_, self)' if rt != NONE else 'self'
            return self.wrap(B, bind(pat, comp, go(env)))
        if isinstance(f, ast.Attribute) and isinstance(f.value, ast.Name) and env.get(f.value.id) == KWARGS and f.attr == 'update':
            kw = self.kwargs_of(c)
            x = lname(f.value.id)
            rec = self.kwargs_record(x, kw, env, B, s)
            return self.wrap(B, ('let', x, rec, go(env)))
        if isinstance(f, ast.Attribute) and f.attr == 'append' and is_self_attr(f.value) and self.u.field_types.get(f.value.attr) == INSTANCE and \
           len(c.args) == 1 and not c.keywords:
            t, ty = self.expr(c.args[0], env, B)
            if ty != ENTRY: bad(s, f'append of {ty}')
            a = lname(f.value.attr)
            return self.wrap(B, ('let', 'self', f'{{ self with {a} := {{ self.{a} with entries := self.{a}.entries ++ [{t}] }} }}', go(env)))
        bad(s, f'call statement {ast.unparse(c)[:60]}')

    # ---- joins
    def try_finally(self, s, env, go, live):
        # try: A finally: del self.x   — the attribute is not read afterwards
        ok = not s.handlers and all(isinstance(d, ast.Delete) and all(is_self_attr(t) for t in d.targets) for d in s.finalbody)
        if not ok: bad(s, 'try/finally other than `finally: del self.<attr>`')
        self.u.dropped.add(f'{self.name}: `finally: {ast.unparse(s.finalbody[0])}` (the attribute is not read afterwards)')
        self.u.deleted = getattr(self.u, 'deleted', set()) | {t.attr for d in s.finalbody for t in d.targets}
        return self.block(list(s.body), env, go, live)

    def with_(self, s, env, go):
        # with open(path, 'rb') as file: contents = file.read()   ->  the parameter `contents`
        ok = len(s.items) == 1 and isinstance(s.items[0].context_expr, ast.Call) and isinstance(s.items[0].context_expr.func, ast.Name) and \
             s.items[0].context_expr.func.id == 'open' and isinstance(s.items[0].optional_vars, ast.Name) and len(s.body) == 1
        if ok:
            c = s.items[0].context_expr
            fvar = s.items[0].optional_vars.id
            ok = len(c.args) == 2 and isinstance(c.args[0], ast.Name) and env.get(c.args[0].id) == PATH and isinstance(c.args[1], ast.Constant) and c.args[1].value == 'rb'
            b = s.body[0]
            ok = ok and isinstance(b, ast.Assign) and len(b.targets) == 1 and isinstance(b.targets[0], ast.Name) and isinstance(b.value, ast.Call) and \
                 isinstance(b.value.func, ast.Attribute) and isinstance(b.value.func.value, ast.Name) and b.value.func.value.id == fvar and \
                 b.value.func.attr == 'read' and not b.value.args and not b.value.keywords
        if not ok: bad(s, '`with` other than reading the whole file in binary mode')
        x = b.targets[0].id
        env2 = dict(env); env2[x] = BYTES
        return ('let', lname(x), 'fileContents', go(env2))

# ----------------------------------------------------------------------------- definite assignment of attributes

def check_defined(unit):
    """every read of self.<attr> is preceded on every path by an assignment (interprocedural, by following the calls)"""
    memo = {}
    def reads(e, defined, where):
        for n in ast.walk(e):
            if is_self_attr(n) and isinstance(n.ctx, ast.Load) and n.attr not in unit.methods and n.attr not in defined:
                bad(n, f'self.{n.attr} may be read before it is assigned (in {where})')
    def run(stmts, defined, where):
        """-> set of attributes defined after normal completion, or None if the block never completes normally"""
        for s in stmts:
            if defined is None: return None
            if isinstance(s, ast.Assign):
                reads(s.value, defined, where); defined = calls(s.value, defined, where)
                for t in s.targets:
                    if is_self_attr(t): defined = defined | {t.attr}
                    else: reads(t, defined, where)
            elif isinstance(s, ast.If):
                reads(s.test, defined, where)
                a, b = run(s.body, defined, where), run(s.orelse, defined, where)
                defined = b if a is None else (a if b is None else a & b)
            elif isinstance(s, ast.For):
                reads(s.iter, defined, where)
                run(s.body, defined, where)
            elif isinstance(s, ast.Try):
                a = run(s.body, defined, where)
                outs = [a] + [run(h.body, defined, where) for h in s.handlers]
                outs = [o for o in outs if o is not None]
                d = None
                for o in outs: d = o if d is None else d & o
                defined = d
            elif isinstance(s, ast.With):
                for it in s.items: reads(it.context_expr, defined, where)
                defined = run(s.body, defined, where)
            elif isinstance(s, (ast.Raise, ast.Return)):
                if getattr(s, 'value', None) is not None:
                    reads(s.value, defined, where); calls(s.value, defined, where)
                if isinstance(s, ast.Raise) and s.exc is not None: reads(s.exc, defined, where)
                return None
            else:
                for n in ast.iter_child_nodes(s):
                    reads(n, defined, where)
                    defined = calls(n, defined, where)
        return defined
    def calls(e, defined, where):
        for n in ast.walk(e):
            if isinstance(n, ast.Call) and is_self_attr(n.func) and n.func.attr in unit.methods:
                key = (n.func.attr, frozenset(defined))
                if key not in memo:
                    memo[key] = frozenset()        # recursion guard
                    # a method may return early: take the intersection over its return points — approximated by its fall-through
                    # result when there is no early `return`, otherwise only what was defined before the call
                    fn = unit.methods[n.func.attr]
                    early = any(isinstance(x, ast.Return) for st in fn.body[:-1] for x in ast.walk(st))
                    out = run(fn.body, set(defined), n.func.attr)
                    memo[key] = frozenset(defined if (early or out is None) else out)
                    if out is not None and early: run(fn.body, set(defined), n.func.attr)
                defined = set(defined) | set(memo[key])
        return defined
    return run(unit.methods['__init__'].body, set(), '__init__')

# ----------------------------------------------------------------------------- file

HEADER = '''/-
GENERATED by tools/translate/mo2lean.py from lib/moparser.py — do not edit.
Regenerated from the repository's working tree on every check; `I18n/Props/C08Tie.lean` proves
`Generated.MoParser.parse = Mo.parse` about THIS text, so every theorem of C08/C09 holds of the current source.
Each definition is the statement-by-statement translation of one method (rules: docstring of the translator).
-/
import I18n.Model.MoKit
set_option linter.unusedVariables false
namespace I18n.Generated.MoParser
open I18n

'''

def generate(repo):
    _mangled.clear()
    src = open(os.path.join(repo, 'lib', 'moparser.py'), encoding='utf-8').read()
    unit = Unit(src)
    if '__init__' not in unit.methods or 'parse' not in unit.methods:
        raise Untranslatable('Parser.__init__ / Parser.parse not found')
    init = unit.methods['__init__']
    a = init.args
    pos = [x.arg for x in a.args[1:]]
    kwo = {x.arg: d for x, d in zip(a.kwonlyargs, a.kw_defaults)}
    if pos != ['path'] or set(kwo) != {'encoding', 'check_for_duplicates', 'klass'} or a.vararg or a.kwarg or a.defaults:
        bad(init, 'signature of Parser.__init__')
    for name, want in (('encoding', None), ('check_for_duplicates', False), ('klass', None)):
        d = kwo[name]
        if not (isinstance(d, ast.Constant) and d.value is want): bad(init, f'default of {name}')
    check_defined(unit)
    # Parser(path, encoding=<None | name>) — check_for_duplicates and klass keep their defaults (the call sites in lib/check)
    argtypes = [PATH, OPT(STR), BOOL, NONE]
    last = None
    for _ in range(6):
        unit.widened = False
        unit.defs, unit.order, unit.stack = {}, [], []
        unit.const_defs, unit.const_order = {}, []
        unit.dropped = set()
        err = None
        try:
            unit.methods['__init__'].args.args  # noqa
            # `fileContents` stands for open(path,'rb').read(); it is passed through `self`-free parameters by the wrapper below
            unit.method('__init__', argtypes, init)
            rt = unit.method('parse', [], unit.methods['parse'])
        except Untranslatable as exc:
            err = exc
        if not unit.widened:
            if err: raise err
            break
        last = err
    else:
        raise Untranslatable('attribute types do not stabilise')
    if rt != INSTANCE: raise Untranslatable(f'Parser.parse returns {rt}')
    if unit.writes.get('parse'): raise Untranslatable('Parser.parse assigns attributes')
    out = [HEADER]
    for name in unit.const_order:
        out.append(f'/-- module constant `{name}` -/\n' + unit.const_defs[name][1])
    fields = [(f, unit.field_types[f]) for f in unit.field_order if not f.startswith('#')]
    out.append('/-- the attributes of a `Parser` object (every attribute assigned anywhere in the class) -/\nstructure Self where\n' +
               ''.join(f'  {lname(f)} : {lean_type(t)}\n' for f, t in fields) +
               '\n/-- a `Parser` object before `__init__` ran: placeholders, never read (the translator checks that every read of an\n    attribute is preceded by an assignment on every path) -/\ndef Self.unset : Self :=\n  { ' + ', '.join(f'{lname(f)} := {placeholder(t)}' for f, t in fields) + ' }\n')
    out.append('namespace Parser\n')
    for name in unit.order:
        text = unit.defs[name][2]
        if name == '__init__':
            text = text.replace('(self : Self) (path : Unit)', '(self : Self) (fileContents : Mo.Bytes) (path : Unit)', 1)
        out.append(text)
    out.append('end Parser\n')
    helpers = [n for n in unit.order if n not in ANCHORS]
    out.append('/-- proof support: unfold the methods other than ' + ', '.join(sorted(ANCHORS)) + ' (the methods the equality\n'
               '    lemmas of Lemmas/MoGenerated.lean are stated about), i.e. helpers introduced by a refactoring of the source -/\n'
               'macro "mo_unfold_helpers" : tactic => `(tactic| ' +
               ('try simp only [' + ', '.join('Parser.' + lname(n) for n in helpers) + ']' if helpers else 'skip') + ')\n')
    out.append('/-- `Parser(path, encoding=encoding).parse()` for a file whose contents are `fileContents`\n'
               '    (`check_for_duplicates`, `klass` at their defaults, as at the call sites in lib/check) -/\n'
               'def parse (db : Mo.CodecDB) (encoding : Option Mo.Bytes) (fileContents : Mo.Bytes) : Except Mo.Err Mo.MoFile :=\n'
               '  match Parser.__init__ db Self.unset fileContents () encoding false () with\n'
               '  | .error e => .error e\n'
               '  | .ok self => Parser.parse db self\n')
    out.append('/- Statements discharged statically by the translator:\n' + ''.join(f'  {d}\n' for d in sorted(unit.dropped)) + '-/\n')
    out.append('end I18n.Generated.MoParser\n')
    return '\n'.join(out)

def main():
    repo = sys.argv[1] if len(sys.argv) > 1 else '/repo'
    dest = sys.argv[2] if len(sys.argv) > 2 else os.path.join(os.path.dirname(os.path.abspath(__file__)), '..', '..', 'lean', 'I18n', 'Generated', 'MoParser.lean')
    try:
        try:
            text = generate(repo)
        except (SyntaxError, KeyError, AttributeError, TypeError, IndexError, ValueError, AssertionError, RecursionError) as exc:
            # a source the translator cannot even walk (does not parse, unforeseen AST shape): outside the subset, not an infrastructure failure
            raise Untranslatable(f'{type(exc).__name__} while translating: {exc}')
    except Untranslatable as exc:
        msg = str(exc).replace('"', "'").replace('\\', '/')
        text = HEADER + (f'-- UNTRANSLATABLE: {msg}\n'
                         '/-- deliberately does not compile: the current lib/moparser.py is outside the translator\'s subset (see above) -/\n'
                         'def untranslatable : Unit := the_current_source_of_lib_moparser_py_is_untranslatable\n'
                         'end I18n.Generated.MoParser\n')
        print(f'untranslatable: {exc}', file=sys.stderr)
        old = open(dest, encoding='utf-8').read() if os.path.exists(dest) else None
        if old != text:
            open(dest, 'w', encoding='utf-8').write(text)
        sys.exit(3)
    old = open(dest, encoding='utf-8').read() if os.path.exists(dest) else None
    if old != text:
        open(dest, 'w', encoding='utf-8').write(text)
        print('changed')
    else:
        print('unchanged')

if __name__ == '__main__':
    main()
