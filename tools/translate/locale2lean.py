#!/usr/bin/env python3
"""Dump what lib/ling.py of the repository under test has LOADED into lean/I18n/Generated/Locale.lean:

* `_language_regexp`: pattern text, flags, and its `re._parser` tree converted to an `I18n.Spec.LocaleRe.Anchored` term
  (`^ … $` / `^ … \\Z` over literals, classes, `?`, `{n,}`, groups; anything else → exit 3 `untranslatable`);
* `_iso_639` (dict code → canonical code), grouped by the first character of the key (a representation of the dict that
  keeps kernel look-ups cheap; key order inside a group is the dict's), `_iso_3166` (sorted),
* `_name_to_code` (munched English name → locale name; dict order),
* the principal territory of every primary language (sorted by language).

usage: locale2lean.py REPO [DEST]; prints `changed` / `unchanged`."""
import os, sys

def die(msg):
    print('untranslatable: ' + msg, file=sys.stderr)
    sys.exit(3)

def lchar(c):
    o = ord(c)
    if 0x20 <= o < 0x7f and c not in "'\\":
        return f"'{c}'"
    return f'(Char.ofNat 0x{o:X})'

def lchars(s):
    return '[' + ', '.join(lchar(c) for c in s) + ']'

def lstr(s):
    out = []
    for c in s:
        if c == '\\': out.append('\\\\')
        elif c == '"': out.append('\\"')
        elif c == '\n': out.append('\\n')
        elif c == '\t': out.append('\\t')
        elif 0x20 <= ord(c) < 0x7f: out.append(c)
        else: out.append('\\u{%x}' % ord(c))
    return '"' + ''.join(out) + '"'

def re_term(pattern):
    import re
    try:
        import re._parser as sre_parse, re._constants as C
    except ImportError:       # Python < 3.11
        import sre_parse, sre_constants as C
    tree = list(sre_parse.parse(pattern.pattern, pattern.flags).data)
    if pattern.flags & (re.MULTILINE | re.IGNORECASE | re.DOTALL | re.ASCII | re.LOCALE):
        die(f'_language_regexp flags {pattern.flags}')
    if not tree or tree[0] != (C.AT, C.AT_BEGINNING):
        # `match` anchors at the start anyway; a missing `^` does not change the language
        pass
    else:
        tree = tree[1:]
    end = 'none'
    if tree and tree[-1][0] == C.AT:
        if tree[-1][1] == C.AT_END:
            end = 'dollar'
        elif tree[-1][1] == C.AT_END_STRING:
            end = 'endString'
        else:
            die(f'anchor {tree[-1][1]}')
        tree = tree[:-1]

    def cls(items):
        rs = []
        for op, av in items:
            if op == C.RANGE:
                rs.append((av[0], av[1]))
            elif op == C.LITERAL:
                rs.append((av, av))
            else:
                die(f'class item {op}')
        # canonical form: sorted, overlapping/adjacent ranges merged (the order inside [...] is not behaviour)
        rs.sort()
        merged = []
        for a, b in rs:
            if merged and a <= merged[-1][1] + 1:
                merged[-1] = (merged[-1][0], max(merged[-1][1], b))
            else:
                merged.append((a, b))
        return '.cls [' + ', '.join(f'({a}, {b})' for a, b in merged) + ']'

    def fuse(items):
        """`X X{n,}` and `X{n,} X` with the same class X are `X{n+1,}` (so `[a-z][a-z]+` and `[a-z]{2,}` give one term)"""
        items = list(items)
        out = []
        for x in items:
            if out:
                a, b = out[-1], x
                def rep(y):
                    return y[0] == C.MAX_REPEAT and y[1][1] == C.MAXREPEAT and len(y[1][2]) == 1 and y[1][2][0][0] in (C.IN, C.LITERAL)
                def single(y):
                    return y[0] in (C.IN, C.LITERAL)
                if single(a) and rep(b) and node(a) == node(b[1][2][0]):
                    out[-1] = (C.MAX_REPEAT, (b[1][0] + 1, C.MAXREPEAT, b[1][2]))
                    continue
                if rep(a) and single(b) and node(b) == node(a[1][2][0]):
                    out[-1] = (C.MAX_REPEAT, (a[1][0] + 1, C.MAXREPEAT, a[1][2]))
                    continue
            out.append(x)
        return out

    def seq(items):
        ts = [node(x) for x in fuse(items)]
        if not ts:
            return '.eps'
        t = ts[-1]
        for u in reversed(ts[:-1]):
            t = f'.seq ({u}) ({t})'
        return t

    def node(x):
        op, av = x
        if op == C.LITERAL:
            return f'.cls [({av}, {av})]'
        if op == C.IN:
            return cls(av)
        if op == C.SUBPATTERN:
            g, add, dele, sub = av
            if add or dele:
                die('inline flags')
            if g is None:
                return seq(list(sub))
            return f'.group {g} ({seq(list(sub))})'
        if op == C.MAX_REPEAT:
            lo, hi, sub = av
            if lo == 0 and hi == 1:
                return f'.opt ({seq(list(sub))})'
            if hi == C.MAXREPEAT:
                return f'.atLeast {lo} ({seq(list(sub))})'
            die(f'repeat {lo},{hi}')
        die(f'regex node {op}')
    return f'⟨{seq(tree)}, .{end}⟩'

def generate(repo):
    sys.dont_write_bytecode = True
    sys.path.insert(0, repo)
    try:
        from lib import ling
    except BaseException as exc:
        die(f'lib.ling cannot be imported: {type(exc).__name__}: {exc}')
    out = ['''/-
GENERATED by tools/translate/locale2lean.py from the live module lib.ling (tables as loaded, regex as parsed) — do not edit.
-/
import I18n.Spec.LocaleRe
namespace I18n.Generated.Locale
open I18n.Spec.LocaleRe
''']
    try:
        pat = ling._language_regexp
        out.append(f'/-- `_language_regexp.pattern` -/\ndef languageRegexpPattern : String := {lstr(pat.pattern)}\n')
        out.append(f'/-- `_language_regexp.flags` -/\ndef languageRegexpFlags : Nat := {int(pat.flags)}\n')
        out.append(f'/-- the `re._parser` tree of `_language_regexp` -/\ndef languageRegexp : Anchored :=\n  {re_term(pat)}\n')
        iso639 = dict(ling._iso_639)
        iso3166 = sorted(ling._iso_3166)
        names = dict(ling._name_to_code)
        prim = dict(ling._primary_languages)
    except SystemExit:
        raise
    except BaseException as exc:
        die(f'lib.ling internals: {type(exc).__name__}: {exc}')
    for k, v in list(iso639.items()) + list(names.items()):
        if not (isinstance(k, str) and isinstance(v, str)):
            die('non-string table entry')
    if '' in iso639:
        die('empty key in _iso_639')
    groups = {}
    for k, v in iso639.items():
        groups.setdefault(k[0], []).append((k, v))
    out.append(f'/-- `_iso_639` ({len(iso639)} keys), grouped by the first character of the key -/\n'
               'def iso639 : List (Char × List (List Char × List Char)) := [')
    gl = []
    for c in sorted(groups):
        ents = ',\n    '.join(f'({lchars(k)}, {lchars(v)})' for k, v in groups[c])
        gl.append(f'  ({lchar(c)}, [\n    {ents}])')
    out.append(',\n'.join(gl) + ']\n')
    out.append(f'/-- `_iso_3166` ({len(iso3166)} codes, sorted) -/\ndef iso3166 : List (List Char) := [')
    out.append(',\n'.join('  ' + ', '.join(lchars(c) for c in iso3166[i:i + 8]) for i in range(0, len(iso3166), 8)) + ']\n')
    out.append(f'/-- `_name_to_code` ({len(names)} names) -/\ndef nameToCode : List (List Char × List Char) := [')
    out.append(',\n'.join(f'  ({lchars(k)}, {lchars(v)})' for k, v in names.items()) + ']\n')
    pts = []
    for name in sorted(prim):
        if not name:
            continue
        try:
            pt = prim[name].get('principal-territory')
        except BaseException:
            pt = None
        if pt is not None:
            pts.append((name, pt))
    out.append(f'/-- `_get_principal_territory_code` for every primary language that has one ({len(pts)}) -/\n'
               'def principalTerritory : List (List Char × List Char) := [')
    out.append(',\n'.join(f'  ({lchars(k)}, {lchars(v)})' for k, v in pts) + ']\n')
    # the rows of data/iso-codes as the code's own ConfigParser call presents them to `_read_iso_codes`
    try:
        import configparser
        from lib import paths
        cp = configparser.ConfigParser(interpolation=None, default_section='')
        cp.read(os.path.join(paths.datadir, 'iso-codes'), encoding='UTF-8')
        rows = [(k, v) for k, v in cp['language-codes'].items()]
        tkeys = list(cp['territory-codes'].keys())
    except BaseException as exc:
        die(f'data/iso-codes: {type(exc).__name__}: {exc}')
    out.append(f'/-- `cp[\'language-codes\'].items()` of data/iso-codes ({len(rows)} rows: three-letter code, two-letter equivalent or empty) -/\n'
               'def languageCodes : List (List Char × List Char) := [')
    out.append(',\n'.join('  ' + ', '.join(f'({lchars(k)}, {lchars(v)})' for k, v in rows[i:i + 4]) for i in range(0, len(rows), 4)) + ']\n')
    out.append(f'/-- `cp[\'territory-codes\'].keys()` of data/iso-codes ({len(tkeys)} keys, as ConfigParser lower-cases them) -/\n'
               'def territoryKeys : List (List Char) := [')
    out.append(',\n'.join('  ' + ', '.join(lchars(c) for c in tkeys[i:i + 8]) for i in range(0, len(tkeys), 8)) + ']\n')
    # the Unicode facts `_munch_language_name` depends on, from the running interpreter: str.isspace(), and for every code point
    # the ASCII residue of NFD(lower(c)) (a single character wherever it is not empty — checked here)
    import unicodedata
    ws, start = [], None
    residue = []
    for cp in range(0x110000):
        ch = chr(cp)
        if ch.isspace():
            if start is None:
                start = cp
        elif start is not None:
            ws.append((start, cp - 1)); start = None
        try:
            r = unicodedata.normalize('NFD', ch.lower()).encode('ASCII', 'ignore').decode()
        except Exception:
            r = ''
        if len(r) > 1:
            die(f'ASCII residue of U+{cp:04X} has {len(r)} characters')
        if r:
            residue.append((cp, r))
    out.append('/-- `chr(c).isspace()` as inclusive ranges -/\ndef pySpace : List (Nat × Nat) := ['
               + ', '.join(f'(0x{a:X}, 0x{b:X})' for a, b in ws) + ']\n')
    out.append(f'/-- code point ↦ the ASCII character left of `unicodedata.normalize(\'NFD\', chr(c).lower()).encode(\'ASCII\', \'ignore\')` '
               f'({len(residue)} code points; all others leave nothing) -/\ndef asciiResidue : List (Nat × Char) := [')
    out.append(',\n'.join('  ' + ', '.join(f'(0x{cp:X}, {lchar(r)})' for cp, r in residue[i:i + 10]) for i in range(0, len(residue), 10)) + ']\n')
    out.append('end I18n.Generated.Locale\n')
    return '\n'.join(out)

def main():
    repo = sys.argv[1] if len(sys.argv) > 1 else '/repo'
    dest = sys.argv[2] if len(sys.argv) > 2 else os.path.join(os.path.dirname(os.path.abspath(__file__)), '..', '..', 'lean', 'I18n', 'Generated', 'Locale.lean')
    text = generate(repo)
    old = open(dest, encoding='utf-8').read() if os.path.exists(dest) else None
    if old != text:
        open(dest, 'w', encoding='utf-8').write(text)
        print('changed')
    else:
        print('unchanged')

if __name__ == '__main__':
    main()
