#!/usr/bin/env python3
"""State inventory of the output path (C02): do `_escape`, `safe_format`, `Tag.format`, `Tag.get_priority`, `get_tag`
(lib/tags.py), `message_repr` (lib/check/msgrepr.py) and `Checker.tag` (lib/cli.py) read or write anything that outlives
the call?  The Lean model is a pure function of the call's arguments; this `ast` inventory is the static half of the tie
for that (the dynamic half is the sequence stream of tools/checks/tags_common.py).

For every analysed module:
  * `stateNames`: module-level names that SOME function body of the module mutates — `global N` + assignment, a store /
    `del` / augmented assignment through `N[...]` or `N.attr`, or a mutating method call (`N.append(...)`, `N.update(...)`,
    `N.setdefault(...)`, `N.pop(...)`, `N.clear()` …) where N is not local to that function.
For every target function:
  * `kind`: `function` (one `def` at module level) / `method` (one `def` directly in a module-level class) /
    `rebound` (the name is bound again at module or class level, e.g. `_escape = memo(_escape)`) / `assigned` / `missing`
  * `decorators` (source text: `functools.lru_cache(maxsize=None)` …), `scopeDecls` (`global` / `nonlocal` names),
    `mutableDefaults` (default values that are not constants: `def f(s, _cache={})`)
  * `writes`: non-local names (and `param:<name>` for parameters such as `self`) the body stores into / mutates, closed over
    the callees it reaches in the analysed modules (plain names of module-level functions, `self.<method>`, `<module>.<function>`)
  * `readsState`: names of `stateNames` the body (or a reached callee) mentions
  * `reads` (informational): every free name the body loads, with how the module binds it
-> lean/I18n/Generated/TagState.lean, pinned by `I18n.Props.C02.escaper_stateless`.

Limits (trusted / not covered): state hidden behind objects of other modules (`re`'s pattern cache, the terminal layer
consulted by `Tag.get_colors` — colour strings are parameters of the model), attribute state of the arguments themselves.
"""
import ast, builtins, os, sys

TARGETS = [
    ('lib/tags.py', '_escape'),
    ('lib/tags.py', 'safe_format'),
    ('lib/tags.py', 'Tag.format'),
    ('lib/tags.py', 'Tag.get_priority'),
    ('lib/tags.py', 'get_tag'),
    ('lib/check/msgrepr.py', 'message_repr'),
    ('lib/cli.py', 'Checker.tag'),
]
MODULE_OF = {'lib.tags': 'lib/tags.py', 'lib.check.msgrepr': 'lib/check/msgrepr.py', 'lib.cli': 'lib/cli.py'}
MUTATORS = {'append', 'extend', 'insert', 'add', 'update', 'setdefault', 'pop', 'popitem', 'clear', 'remove', 'discard', 'sort', 'reverse',
            '__setitem__', '__delitem__', '__setattr__', '__delattr__', 'move_to_end', 'appendleft', 'extendleft', 'popleft', 'rotate',
            'intersection_update', 'difference_update', 'symmetric_difference_update', 'cache_clear', 'write', 'writelines', 'send'}
BUILTINS = set(dir(builtins))

def lean_str(s):
    out = ['"']
    for ch in s:
        if ch in '\\"':
            out.append('\\' + ch)
        elif ch == '\n':
            out.append('\\n')
        elif ch == '\t':
            out.append('\\t')
        elif ord(ch) < 32 or ord(ch) == 127:
            out.append('\\x%02x' % ord(ch))
        else:
            out.append(ch)
    out.append('"')
    return ''.join(out)

def lean_list(xs):
    return '[' + ', '.join(lean_str(x) for x in xs) + ']'

def root_name(node):
    """the Name at the bottom of an Attribute / Subscript chain (None for calls, literals …)"""
    while isinstance(node, (ast.Attribute, ast.Subscript, ast.Starred)):
        node = node.value
    return node.id if isinstance(node, ast.Name) else None

class Func:
    """one function body: locals, free loads, mutations of non-local roots, callees"""
    def __init__(self, node, qual, cls=None):
        self.node, self.qual, self.cls = node, qual, cls
        a = node.args
        self.params = [x.arg for x in a.posonlyargs + a.args + a.kwonlyargs] + ([a.vararg.arg] if a.vararg else []) + ([a.kwarg.arg] if a.kwarg else [])
        self.scope_decls = []
        stores, loads = set(), set()
        self.mut_roots = []          # (root name, how)
        self.attr_calls = []         # (root name, attr) for calls root.attr(...)
        self.self_calls = []
        body_nodes = []
        for st in node.body:
            body_nodes += list(ast.walk(st))
        for n in body_nodes:
            if isinstance(n, (ast.Global, ast.Nonlocal)):
                self.scope_decls += [('global ' if isinstance(n, ast.Global) else 'nonlocal ') + x for x in n.names]
            elif isinstance(n, ast.Name):
                (loads if isinstance(n.ctx, ast.Load) else stores).add(n.id)
            elif isinstance(n, (ast.FunctionDef, ast.AsyncFunctionDef, ast.ClassDef)):
                stores.add(n.name)
            elif isinstance(n, ast.arg):
                stores.add(n.arg)            # parameters of nested functions / lambdas (over-approximates locals harmlessly)
            elif isinstance(n, ast.ExceptHandler) and n.name:
                stores.add(n.name)
            elif isinstance(n, (ast.Import, ast.ImportFrom)):
                for al in n.names:
                    stores.add((al.asname or al.name).split('.')[0])
        declared = {d.split(' ', 1)[1] for d in self.scope_decls}
        self.locals = (set(self.params) | stores) - declared
        for n in body_nodes:
            if isinstance(n, (ast.Attribute, ast.Subscript)) and isinstance(n.ctx, (ast.Store, ast.Del)):
                r = root_name(n)
                if r is not None:
                    self.mut_roots.append((r, 'store through ' + ast.unparse(n)))
            elif isinstance(n, ast.Name) and isinstance(n.ctx, (ast.Store, ast.Del)) and n.id in declared:
                self.mut_roots.append((n.id, 'assignment to declared ' + n.id))
            elif isinstance(n, ast.Call) and isinstance(n.func, ast.Attribute):
                r = root_name(n.func.value)
                if r is not None:
                    if n.func.attr in MUTATORS:
                        self.mut_roots.append((r, 'call of ' + ast.unparse(n.func)))
                    if isinstance(n.func.value, ast.Name):
                        self.attr_calls.append((r, n.func.attr))
        self.free_loads = sorted(x for x in loads if x not in self.locals)
        self.decorators = [ast.unparse(d) for d in node.decorator_list]
        self.mutable_defaults = [ast.unparse(d) for d in list(a.defaults) + [d for d in a.kw_defaults if d is not None] if not isinstance(d, ast.Constant)]

    def writes(self):
        out = []
        for r, how in self.mut_roots:
            if r in self.params:
                out.append(f'param:{r} ({how})')
            elif r not in self.locals:
                out.append(f'{r} ({how})')
        return out

class Module:
    def __init__(self, repo, rel):
        self.rel = rel
        self.tree = ast.parse(open(os.path.join(repo, rel), encoding='utf-8').read(), rel)
        self.bind = {}           # module-level name -> list of kinds
        self.class_bind = {}     # class name -> member name -> list of kinds
        self.funcs = {}          # qualname -> Func  (module-level functions and methods of module-level classes; nested ones by dotted name)
        self.imports = {}        # local name -> dotted module / 'module:attr'
        def top(stmts):
            for st in stmts:
                if isinstance(st, (ast.If, ast.Try, ast.With)):
                    for blk in ('body', 'orelse', 'finalbody'):
                        yield from top(getattr(st, blk, []) or [])
                    for h in getattr(st, 'handlers', []) or []:
                        yield from top(h.body)
                else:
                    yield st
        def bindings(stmts, table):
            for st in top(stmts):
                if isinstance(st, (ast.FunctionDef, ast.AsyncFunctionDef)):
                    table.setdefault(st.name, []).append('def')
                elif isinstance(st, ast.ClassDef):
                    table.setdefault(st.name, []).append('class')
                elif isinstance(st, (ast.Import, ast.ImportFrom)):
                    for al in st.names:
                        nm = (al.asname or al.name).split('.')[0]
                        table.setdefault(nm, []).append('import')
                        if isinstance(st, ast.ImportFrom):
                            self.imports[nm] = f'{st.module}.{al.name}'
                        else:
                            self.imports[nm] = al.name if al.asname else al.name.split('.')[0]
                elif isinstance(st, (ast.Assign, ast.AnnAssign, ast.AugAssign)):
                    tgts = st.targets if isinstance(st, ast.Assign) else [st.target]
                    for t in tgts:
                        for n in ast.walk(t):
                            if isinstance(n, ast.Name) and isinstance(n.ctx, ast.Store):
                                table.setdefault(n.id, []).append('assign')
                elif isinstance(st, (ast.For, ast.While)):
                    pass
        bindings(self.tree.body, self.bind)
        for st in top(self.tree.body):
            if isinstance(st, (ast.FunctionDef, ast.AsyncFunctionDef)):
                self.funcs.setdefault(st.name, []).append(Func(st, st.name))
            elif isinstance(st, ast.ClassDef):
                tbl = self.class_bind.setdefault(st.name, {})
                bindings(st.body, tbl)
                for m in top(st.body):
                    if isinstance(m, (ast.FunctionDef, ast.AsyncFunctionDef)):
                        self.funcs.setdefault(f'{st.name}.{m.name}', []).append(Func(m, f'{st.name}.{m.name}', cls=st.name))
        # every function body anywhere in the module (nested ones too) for the module-wide mutation scan
        self.all_funcs = []
        for n in ast.walk(self.tree):
            if isinstance(n, (ast.FunctionDef, ast.AsyncFunctionDef)):
                self.all_funcs.append(Func(n, n.name))
        self.state = {}
        for f in self.all_funcs:
            for r, how in f.mut_roots:
                if r not in f.locals and r in self.bind:
                    self.state.setdefault(r, set()).add(f'{f.node.name}: {how}')
        # attributes stored on module-level functions / names at module level (`_escape.cache = {}`) count as state too
        for st in top(self.tree.body):
            if isinstance(st, (ast.Assign, ast.AugAssign, ast.AnnAssign)):
                tgts = st.targets if isinstance(st, ast.Assign) else [st.target]
                for t in tgts:
                    if isinstance(t, ast.Attribute):
                        r = root_name(t)
                        if r in self.bind and 'def' in self.bind[r]:
                            self.state.setdefault(r, set()).add('module level: store through ' + ast.unparse(t))

def analyse(repo):
    mods = {rel: Module(repo, rel) for rel in sorted({rel for rel, _ in TARGETS})}
    def kind_of(m, qual):
        if '.' in qual:
            cls, name = qual.split('.')
            b = m.class_bind.get(cls, {}).get(name, [])
            if m.bind.get(cls) != ['class']:
                return 'missing' if cls not in m.bind else 'rebound'
            ok = 'method'
        else:
            b = m.bind.get(qual, [])
            ok = 'function'
        if not b:
            return 'missing'
        if b == ['def']:
            return ok
        return 'rebound' if 'def' in b else 'assigned'
    def closure(rel, qual, seen):
        """(writes, state reads) of the function and of everything it reaches inside the analysed modules"""
        if (rel, qual) in seen:
            return [], []
        seen.add((rel, qual))
        m = mods[rel]
        writes, reads = [], []
        for f in m.funcs.get(qual, []):
            pre = '' if (rel, qual) == seen.root else f'via {rel}:{qual}: '
            writes += [pre + w for w in f.writes()]
            reads += [pre + x for x in f.free_loads if x in m.state]
            for x in f.free_loads:
                if 'def' in m.bind.get(x, []):
                    w, r = closure(rel, x, seen)
                    writes += w
                    reads += r
            for root, attr in f.attr_calls:
                if f.cls is not None and f.params and root == f.params[0] and f'{f.cls}.{attr}' in m.funcs:
                    w, r = closure(rel, f'{f.cls}.{attr}', seen)
                    writes += w
                    reads += r
                tgt = MODULE_OF.get(m.imports.get(root, ''))
                if tgt is not None and root not in f.locals and tgt in mods and attr in mods[tgt].funcs:
                    w, r = closure(tgt, attr, seen)
                    writes += w
                    reads += r
        return writes, reads
    class Seen(set):
        root = None
    rows = []
    for rel, qual in TARGETS:
        m = mods[rel]
        fs = m.funcs.get(qual, [])
        seen = Seen()
        seen.root = (rel, qual)
        writes, reads = closure(rel, qual, seen)
        f = fs[0] if fs else None
        def how(x):
            b = m.bind.get(x)
            if b:
                return x + ':' + '+'.join(b)
            return x + (':builtin' if x in BUILTINS else ':unbound')
        rows.append(dict(key=f'{rel}:{qual}', kind=kind_of(m, qual),
                         decorators=sum((g.decorators for g in fs), []),
                         scopeDecls=sorted(set(sum((g.scope_decls for g in fs), []))),
                         mutableDefaults=sum((g.mutable_defaults for g in fs), []),
                         writes=sorted(set(writes)), readsState=sorted(set(reads)),
                         reads=[how(x) for x in (f.free_loads if f else [])]))
    state = sorted(f'{rel}:{n}' for rel, m in mods.items() for n in m.state)
    detail = {f'{rel}:{n}': sorted(v) for rel, m in mods.items() for n, v in m.state.items()}
    return rows, state, detail

HEADER = '''/-
GENERATED by tools/translate/tagstate2lean.py (ast inventory of /repo) — do not edit.
Does the output path keep state between calls?  For `_escape`, `safe_format`, `Tag.format`, `Tag.get_priority`, `get_tag`,
`message_repr`, `Checker.tag`: how the name is bound, decorators, global/nonlocal declarations, non-constant defaults,
non-local names written (closed over reached callees), mutated module-level names read.  Pinned by `escaper_stateless`.
-/
namespace I18n.Generated.TagState

structure Fn where
  key : String
  kind : String
  decorators : List String
  scopeDecls : List String
  mutableDefaults : List String
  writes : List String
  readsState : List String
  /-- informational: free names the body loads, with their module-level binding -/
  reads : List String
  deriving Repr

'''

def render(rows, state):
    s = [HEADER, '/-- module-level names of the analysed modules that some function body mutates -/\n',
         'def stateNames : List String := ' + lean_list(state) + '\n\n', 'def fns : List Fn := [\n']
    s.append(',\n'.join(
        '  { key := %s,\n    kind := %s,\n    decorators := %s,\n    scopeDecls := %s,\n    mutableDefaults := %s,\n    writes := %s,\n    readsState := %s,\n    reads := %s }' % (
            lean_str(r['key']), lean_str(r['kind']), lean_list(r['decorators']), lean_list(r['scopeDecls']), lean_list(r['mutableDefaults']),
            lean_list(r['writes']), lean_list(r['readsState']), lean_list(r['reads'])) for r in rows))
    s.append(']\n\nend I18n.Generated.TagState\n')
    return ''.join(s)

def main():
    repo = sys.argv[1] if len(sys.argv) > 1 and not sys.argv[1].startswith('--') else '/repo'
    dest = os.path.join(os.path.dirname(os.path.abspath(__file__)), '..', '..', 'lean', 'I18n', 'Generated', 'TagState.lean')
    try:
        rows, state, detail = analyse(repo)
        text = render(rows, state)
    except Exception as exc:
        if '--json' in sys.argv:
            raise
        bad = f'-- UNTRANSLATABLE: {exc!r}\n#eval (throwError "untranslatable" : Lean.Elab.Command.CommandElabM Unit)\n'
        open(dest, 'w', encoding='utf-8').write(HEADER.split('structure Fn')[0] + bad + 'end I18n.Generated.TagState\n')
        print(f'untranslatable: {exc!r}', file=sys.stderr)
        sys.exit(3)
    if '--json' in sys.argv:
        import json
        json.dump({'fns': rows, 'stateNames': state, 'mutations': detail}, sys.stdout, indent=1)
        print()
        return
    old = open(dest, encoding='utf-8').read() if os.path.exists(dest) else None
    if old != text:
        open(dest, 'w', encoding='utf-8').write(text)
        print('changed')
    else:
        print('unchanged')

if __name__ == '__main__':
    main()
