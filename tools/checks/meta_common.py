"""C17 harness: the real checker on spellings / layouts / packages of one catalog, metamorphic comparisons, model streams.

Everything here runs the REAL code (`lib.check.Checker.check` in-process with a capturing `tag()`, `lib.cli.check_file`
in-process with captured stdout, and the command-line tool in subprocesses).  Exceptions of the real code become outcomes.
"""
import argparse, contextlib, io, os, re, shutil, subprocess, sys, tempfile
sys.path.insert(0, os.path.join(os.path.dirname(os.path.abspath(__file__)), '..'))
import common
import checker_harness as H
import e2e_common as E
from gen import meta as G

# diagnostics "about the charset itself" (the modulo set of the transcoding clause): emitted by check_mime from the
# charset NAME.  broken-encoding, unknown-encoding and non-ascii-compatible-encoding are deliberately NOT in the set: a
# legitimate transcoding to a supported charset must never produce them.
CHARSET_TAGS = frozenset(['non-portable-encoding', 'unrepresentable-characters'])
# the documented format-specific exemption (PO side only has it)
MO_EXEMPT = ('no-date-header-field', 's:' + H.hexs('POT-Creation-Date'))
# diagnostics that name "the first message in file order that …" (see DESIGN-notes/meta.md): only compared on equal order
ORDER_SENSITIVE = frozenset(['unusual-character-in-translation', 'inconsistent-number-of-plural-forms'])

_base = '/dev/shm' if os.path.isdir('/dev/shm') else None

class Work:
    """a scratch directory outside /repo and /verif"""
    def __init__(self):
        self.root = tempfile.mkdtemp(prefix='i18n-verif-meta.', dir=_base)
    def path(self, rel):
        p = os.path.join(self.root, rel)
        os.makedirs(os.path.dirname(p), exist_ok=True)
        return p
    def write(self, rel, data):
        p = self.path(rel)
        with open(p, 'wb') as f:
            f.write(data)
        return p
    def close(self):
        shutil.rmtree(self.root, ignore_errors=True)

import collections
SEEN_TAGS = collections.Counter()      # tag name → how often the real checker emitted it in this run (evidence: what the comparisons exercised)

def run_tags(path, **opts):
    """the real Checker.check() on `path` → ('ok', [(tagname, canonical extras)]) | ('crash', 'Type: message')"""
    try:
        chk, calls = H.make_checker(path, **opts)
        chk.check()
    except BaseException as exc:          # a modified tree may raise anything
        if isinstance(exc, (KeyboardInterrupt, SystemExit)):
            raise
        SEEN_TAGS['<exception ' + type(exc).__name__ + '>'] += 1
        return 'crash', f'{type(exc).__name__}: {exc}'[:300]
    for name, _extra in calls:
        SEEN_TAGS[name] += 1
    return 'ok', [(name, ','.join(H.canon_extra(x) for x in extra)) for name, extra in calls]

def tags_of_bytes(work, rel, data, **opts):
    return run_tags(work.write(rel, data), **opts)

def entry_views(path):
    """the entries of a file as lib/check/ can observe them (Model/Meta.lean `observe`), through the real loaders"""
    H.ready()
    import polib, collections
    try:
        f = polib.mofile(path) if path.endswith(('.mo', '.gmo')) else polib.pofile(path)
        out = []
        for e in f:
            out.append((e.msgid, e.msgctxt, e.msgid_plural, e.msgstr or '', sorted(e.msgstr_plural.items()), sorted(collections.Counter(e.flags).items()),
                        e.comment or '', [tuple(o) for o in e.occurrences], bool(e.obsolete),
                        (e.previous_msgctxt is not None, e.previous_msgid is not None, e.previous_msgid_plural is not None), bool(e.translated())))
        return out
    except BaseException as exc:
        if isinstance(exc, (KeyboardInterrupt, SystemExit)):
            raise
        return [('crash', f'{type(exc).__name__}: {exc}'[:200])]

def show(tags):
    if tags[0] != 'ok':
        return [tags[0] + ': ' + str(tags[1])]
    return [f'{n} {unhex_extras(x)}'.rstrip() for n, x in tags[1]]

def unhex_extras(x):
    out = []
    for item in x.split(',') if x else []:
        kind, _, body = item.partition(':')
        if kind in ('s', 'S', 'o'):
            out.append(repr(''.join(chr(int(h, 16)) for h in body.split('.')) if body != '-' else ''))
        else:
            out.append(body)
    return ' '.join(out)

def drop(tags, names=(), exact=()):
    if tags[0] != 'ok':
        return tags
    return ('ok', [t for t in tags[1] if t[0] not in names and t not in exact])

def first_diff(a, b):
    la, lb = show(a), show(b)
    for i in range(max(len(la), len(lb))):
        x = la[i] if i < len(la) else None
        y = lb[i] if i < len(lb) else None
        if x != y:
            return {'index': i, 'first': x, 'second': y}
    return None

# ----------------------------------------------------------------------------- the command-line tool

def cli_lines(args, cwd, tmpdir=None):
    env = {'TMPDIR': tmpdir} if tmpdir else None
    r = E.run_cli(args, cwd, extra_env=env)
    return r

def format_lines(fake_path, tags):
    """what the command-line tool prints for these tag calls (uses the real Tag.format, like cli.Checker.tag)"""
    from lib import tags as T
    out = []
    for name, extra in tags:
        out.append(T.get_tag(name).format(fake_path, *extra))
    return out

# ----------------------------------------------------------------------------- packages

PO_EXT = ('.po', '.pot', '.mo', '.gmo')

def is_po_member(rel):
    """a PO or MO file by name: extension .po/.pot/.mo/.gmo (a dot-file such as `.mo` has no extension)"""
    return os.path.splitext(rel)[-1] in PO_EXT

def build_deb(work, name, members, symlinks=(), dirs=()):
    """members: {relative path: bytes} → path of the .deb (built with the real dpkg-deb)"""
    stage = os.path.join(work.root, name + '.stage')
    os.makedirs(os.path.join(stage, 'DEBIAN'))
    with open(os.path.join(stage, 'DEBIAN', 'control'), 'w') as f:
        f.write(G.CONTROL)
    for rel, data in members.items():
        p = os.path.join(stage, rel)
        os.makedirs(os.path.dirname(p), exist_ok=True)
        with open(p, 'wb') as f:
            f.write(data)
    for d in dirs:
        os.makedirs(os.path.join(stage, d), exist_ok=True)
    for rel, target in symlinks:
        p = os.path.join(stage, rel)
        os.makedirs(os.path.dirname(p), exist_ok=True)
        os.symlink(target, p)
    deb = os.path.join(work.root, name + '.deb')
    p = subprocess.run(['dpkg-deb', '--root-owner-group', '-b', stage, deb], capture_output=True, text=True)
    if p.returncode != 0:
        raise common.Infra('dpkg-deb -b failed: ' + p.stderr[-500:])
    shutil.rmtree(stage, ignore_errors=True)
    return deb

def extract_deb(work, deb, name):
    dest = os.path.join(work.root, name + '.x')
    os.makedirs(dest)
    p = subprocess.run(['dpkg-deb', '-x', deb, dest], capture_output=True, text=True)
    if p.returncode != 0:
        raise common.Infra('dpkg-deb -x failed: ' + p.stderr[-500:])
    return dest

DSC_FILES = {
    'debian/source/format': b'3.0 (native)\n',
    'debian/control': b'Source: gizmo\nMaintainer: Jakub Wilk <jwilk@jwilk.net>\nStandards-Version: 4.6.0\n\nPackage: gizmo\nArchitecture: all\nDescription: gizmo\n',
    'debian/changelog': b'gizmo (1.0) unstable; urgency=low\n\n  * x\n\n -- Jakub Wilk <jwilk@jwilk.net>  Thu, 01 Nov 2012 14:42:00 +0100\n',
}

def build_dsc(work, name, members, symlinks=(), dirs=()):
    """members → <dir>/gizmo_1.0.dsc (+ tarball), built with the real dpkg-source; each package in its own directory"""
    base = os.path.join(work.root, name + '.src')
    tree = os.path.join(base, 'gizmo-1.0')
    os.makedirs(tree)
    for rel, data in list(DSC_FILES.items()) + list(members.items()):
        p = os.path.join(tree, rel)
        os.makedirs(os.path.dirname(p), exist_ok=True)
        with open(p, 'wb') as f:
            f.write(data)
    for d in dirs:
        os.makedirs(os.path.join(tree, d), exist_ok=True)
    for rel, target in symlinks:
        p = os.path.join(tree, rel)
        os.makedirs(os.path.dirname(p), exist_ok=True)
        os.symlink(target, p)
    p = subprocess.run(['dpkg-source', '-b', 'gizmo-1.0'], cwd=base, capture_output=True, text=True)
    if p.returncode != 0:
        raise common.Infra('dpkg-source -b failed: ' + p.stderr[-500:])
    shutil.rmtree(tree, ignore_errors=True)
    return os.path.join(base, 'gizmo_1.0.dsc')

def extract_dsc(work, dsc, name):
    dest = os.path.join(work.root, name + '.x')
    os.makedirs(dest)
    p = subprocess.run(['dpkg-source', '--no-copy', '--no-check', '-x', dsc, os.path.join(dest, 's', '')], capture_output=True, text=True)
    if p.returncode != 0:
        raise common.Infra('dpkg-source -x failed: ' + p.stderr[-500:])
    return os.path.join(dest, 's')

def options(**kw):
    o = argparse.Namespace(ignore_tags=set(), fake_root=None, file_type=None, language=None, unpack_deb=False, jobs=1)
    for k, v in kw.items():
        setattr(o, k, v)
    return o

@contextlib.contextmanager
def captured_stdout():
    old = sys.stdout
    sys.stdout = buf = io.StringIO()
    try:
        yield buf
    finally:
        sys.stdout = old

def inproc(fn, *a, **kw):
    """call a `lib.cli` function with stdout captured → (stdout, exception | None)"""
    H.ready()
    with captured_stdout() as buf:
        try:
            fn(*a, **kw)
            exc = None
        except BaseException as e:
            if isinstance(e, (KeyboardInterrupt, SystemExit)):
                raise
            exc = f'{type(e).__name__}: {e}'[:300]
    return buf.getvalue(), exc

def snapshot(d):
    return sorted(os.listdir(d))

class TmpdirGuard:
    """route tempfile to a fresh empty directory and report what is left in it"""
    def __init__(self, work):
        self.dir = tempfile.mkdtemp(prefix='T.', dir=work.root)
    def __enter__(self):
        self.old_env = os.environ.get('TMPDIR')
        self.old = tempfile.tempdir
        os.environ['TMPDIR'] = self.dir
        tempfile.tempdir = self.dir
        return self
    def __exit__(self, *a):
        tempfile.tempdir = self.old
        if self.old_env is None:
            os.environ.pop('TMPDIR', None)
        else:
            os.environ['TMPDIR'] = self.old_env
    def leftovers(self):
        return snapshot(self.dir)

def expected_member_blocks(xroot, members, fake_root, via, language=None):
    """{member: [lines]} for PO/MO members: the output of checking the extracted file on its own, path rewritten.
    via='inproc': lib.cli.check_regular_file with captured stdout; via=('cli', cwd): the command-line tool"""
    from lib import cli
    blocks = {}
    for rel in members:
        if not is_po_member(rel):
            continue
        real = os.path.join(xroot, rel)
        if via == 'inproc':
            out, exc = inproc(cli.check_regular_file, real, options=options(language=language))
            if exc:
                out += f'<<exception {exc}>>\n'
        else:
            r = E.run_cli([real], via[1])
            out = r['stdout'] + (f"<<rc={r['rc']} {r['stderr'][-200:]}>>\n" if r['rc'] != 0 or r['stderr'] else '')
        lines = out.splitlines()
        blocks[rel] = [rewrite_line(l, real, fake_root + rel) for l in lines]
    return blocks

def rewrite_line(line, real, fake):
    m = re.match(r'\A([A-Z]): ', line)
    if m and line[3:].startswith(real + ': '):
        return line[:3] + fake + line[3 + len(real):]
    return line

def match_blocks(lines, blocks):
    """is `lines` a concatenation (in some order) of the non-empty blocks?  → None | description of the first mismatch"""
    todo = {k: v for k, v in blocks.items() if v}
    i = 0
    while i < len(lines):
        hit = None
        for k, v in todo.items():
            if lines[i:i + len(v)] == v:
                hit = k
                break
        if hit is None:
            # explain: which member does the line belong to?
            return {'at_line': i, 'line': lines[i], 'unmatched_members': sorted(todo)[:5],
                    'expected_block_head': {k: v[:2] for k, v in list(todo.items())[:2]}}
        i += len(todo.pop(hit))
    if todo:
        return {'missing_members': sorted(todo)[:5], 'expected_block_head': {k: v[:2] for k, v in list(todo.items())[:2]}}
    return None

# ----------------------------------------------------------------------------- correspondence with the Lean model (Model/Deb.lean)

def _h(s):
    return H.hexs(s)

def fakepath_cases(rng, n):
    """(fake_root | None, path) — roots with and without the trailing separator, paths below, beside and outside the root"""
    roots = ['/tmp/t/', '/tmp/t', '/', '', 'rel/', 'rel', '/tmp/i18nspector.deb.abc/', '/a//b/', '/tmp/zażółć/', '/tmp/t//']
    fakes = ['p.deb/', 'p.deb', '/abs/p.deb/', '', '/', 'dir with space/p.deb/', 'ż.deb/']
    tails = ['usr/share/x.po', '', 'x', '/x.po', '../x.po', 'usr/ż.mo', 'a b/c.po']
    out = [(None, '/tmp/t/x.po'), (None, '')]
    for _ in range(n):
        r = rng.choice(roots)
        f = rng.choice(fakes)
        k = rng.random()
        if k < 0.5:
            p = r + rng.choice(tails)
        elif k < 0.7:
            p = r.rstrip('/') + rng.choice(['X/f.po', '.bak/f.po', 'f.po'])          # a sibling whose name starts like the root
        elif k < 0.85:
            p = rng.choice(['/other/x.po', 'x.po', '', '/'])
        else:
            p = r[:rng.randint(0, len(r))] + rng.choice(tails)
        out.append(((r, f), p))
    return out

def fakepath_stream(chk, n):
    H.ready()
    lines, impl = [], []
    for fr, p in fakepath_cases(chk.rng, n):
        lines.append('deb fakepath ' + ('~ ~' if fr is None else f'{_h(fr[0])} {_h(fr[1])}') + ' ' + _h(p))
        try:
            c, _calls = H.make_checker(p, fake_root=fr)
            impl.append('ok ' + _h(c.fake_path))
        except ValueError:
            impl.append('err ValueError')
        except BaseException as exc:
            if isinstance(exc, (KeyboardInterrupt, SystemExit)):
                raise
            impl.append('err CRASH:' + type(exc).__name__)
    return chk.stream('deb-fakepath', lines, impl)

class WalkSpy:
    """records what os.walk yields during the real run, with islink/isfile of every file at that moment"""
    def __init__(self):
        self.walk = []
        self.links = []
        self.nonfiles = []
        self.tops = []
    def __enter__(self):
        self.orig = os.walk
        def spy(top, *a, **kw):
            self.tops.append(top)
            for root, dirs, files in self.orig(top, *a, **kw):
                files = list(files)
                for f in files:
                    p = os.path.join(root, f)
                    if os.path.islink(p):
                        self.links.append(p)
                    if not os.path.isfile(p):
                        self.nonfiles.append(p)
                self.walk.append((root, files))
                yield root, dirs, files
        os.walk = spy
        return self
    def __exit__(self, *a):
        os.walk = self.orig

def raw_calls(path):
    """the tag calls of the real Checker.check() on `path`, as the model's TagCall triples (name, priority letter, rest of the line)"""
    from lib import tags as T
    st, calls = None, []
    try:
        chk, calls = H.make_checker(path)
        chk.check()
        raised = False
    except BaseException as exc:
        if isinstance(exc, (KeyboardInterrupt, SystemExit)):
            raise
        raised = True
    out = []
    for name, extra in calls:
        line = T.get_tag(name).format('@', *extra)
        prio, _, rest = line.partition(': @: ')
        out.append((name, prio, rest))
    return out, raised

def checkfile_line(path, unpack, ignore, tmpdir, unpack_ok, walk, links, nonfiles, raw):
    enc_walk = ';'.join(_h(r) + ':' + ','.join(_h(f) for f in fs) for r, fs in walk) or '~'
    enc_raw = ';'.join(_h(p) + '=' + '/'.join('|'.join(_h(x) for x in c) for c in calls) + ('!' if raised else '') for p, (calls, raised) in raw.items()) or '~'
    return ' '.join(['deb checkfile', '1' if unpack else '0', ','.join(_h(t) for t in sorted(ignore)) or '~', _h(path), _h(tmpdir), '1' if unpack_ok else '0',
                     enc_walk, ','.join(_h(p) for p in links) or '~', ','.join(_h(p) for p in nonfiles) or '~', enc_raw])

def canon_stdout(out, exc):
    """the real run's stdout in the model's output form"""
    lines = out.splitlines()
    res = []
    for l in lines:
        prio, _, tail = l.partition(': ')
        # `{prio}: {target}: {rest}` — the target may contain ': ' only in hostile names, which the generator does not produce
        target, _, rest = tail.partition(': ')
        res.append(f'{_h(prio)}:{_h(target)}:{_h(rest)}')
    status = 'normal' if exc is None else ('ValueError' if exc.startswith('ValueError') else 'raised')
    return f'{status} n={len(res)}' + ''.join(' | ' + r for r in res)

def deb_stream(chk, work, cases):
    """cases: list of (path to check, members | None, ignore_tags, unpack flag).  The real `cli.check_file` runs with the real dpkg-deb; the
    model is given what the OS delivered during that run (temporary name, walk, link/file status) and each member's own tag calls,
    taken from an independent extraction."""
    from lib import cli
    H.ready()
    lines, impl = [], []
    for path, members, ignore, unpack in cases:
        # what the unpacker does, asked directly
        unpack_ok, xroot = False, None
        if path.endswith('.deb'):
            xroot = tempfile.mkdtemp(prefix='x.', dir=work.root)
            unpack_ok = subprocess.run(['dpkg-deb', '-x', path, xroot], capture_output=True).returncode == 0
        elif path.endswith('.dsc'):
            xroot = tempfile.mkdtemp(prefix='x.', dir=work.root)
            unpack_ok = subprocess.run(['dpkg-source', '--no-copy', '--no-check', '-x', path, os.path.join(xroot, 's', '')], capture_output=True).returncode == 0
        with TmpdirGuard(work) as guard, WalkSpy() as spy:
            out, exc = inproc(cli.check_file, path, options=options(unpack_deb=unpack, ignore_tags=set(ignore)))
        tmpdir = spy.tops[0] if spy.tops else '/nonexistent'
        raw = {}
        if spy.tops and xroot is not None:
            for root, files in spy.walk:
                for f in files:
                    p = os.path.join(root, f)
                    if p in spy.links or p in spy.nonfiles:
                        continue
                    mine = os.path.join(xroot, os.path.relpath(p, tmpdir))
                    raw[p] = raw_calls(mine)
        else:
            raw[path] = raw_calls(path)
        lines.append(checkfile_line(path, unpack, ignore, tmpdir, unpack_ok, spy.walk, spy.links, spy.nonfiles, raw))
        impl.append(canon_stdout(out, exc))
        if xroot:
            shutil.rmtree(xroot, ignore_errors=True)
    return chk.stream('deb-checkfile', lines, impl)
