"""C17 harness: the real checker on spellings / layouts / packages of one catalog, metamorphic comparisons, model streams.

Everything here runs the REAL code (`lib.check.Checker.check` in-process with a capturing `tag()`, `lib.cli.check_file`
in-process with captured stdout, and the command-line tool in subprocesses).  Exceptions of the real code become outcomes.
"""
import argparse, contextlib, io, os, re, shutil, subprocess, sys, tempfile
sys.path.insert(0, os.path.join(os.path.dirname(os.path.abspath(__file__)), '..'))
import common
import checker_harness as H
import e2e_common as E
from gen import meta as G

# diagnostics "about the charset itself" (the modulo set of the transcoding clause): emitted by check_mime from the
# charset NAME.  broken-encoding, unknown-encoding and non-ascii-compatible-encoding are deliberately NOT in the set: a
# legitimate transcoding to a supported charset must never produce them.
CHARSET_TAGS = frozenset(['non-portable-encoding', 'unrepresentable-characters'])
# the documented format-specific exemption (PO side only has it)
MO_EXEMPT = ('no-date-header-field', 's:' + H.hexs('POT-Creation-Date'))
# diagnostics that name "the first message in file order that …" (see DESIGN-notes/meta.md): only compared on equal order
ORDER_SENSITIVE = frozenset(['unusual-character-in-translation', 'inconsistent-number-of-plural-forms'])

_base = '/dev/shm' if os.path.isdir('/dev/shm') else None

class Work:
    """a scratch directory outside /repo and /verif"""
    def __init__(self):
        self.root = tempfile.mkdtemp(prefix='i18n-verif-meta.', dir=_base)
    def path(self, rel):
        p = os.path.join(self.root, rel)
        os.makedirs(os.path.dirname(p), exist_ok=True)
        return p
    def write(self, rel, data):
        p = self.path(rel)
        with open(p, 'wb') as f:
            f.write(data)
        return p
    def close(self):
        shutil.rmtree(self.root, ignore_errors=True)

def run_tags(path, **opts):
    """the real Checker.check() on `path` → ('ok', [(tagname, canonical extras)]) | ('crash', 'Type: message')"""
    try:
        chk, calls = H.make_checker(path, **opts)
        chk.check()
    except BaseException as exc:          # a modified tree may raise anything
        if isinstance(exc, (KeyboardInterrupt, SystemExit)):
            raise
        return 'crash', f'{type(exc).__name__}: {exc}'[:300]
    return 'ok', [(name, ','.join(H.canon_extra(x) for x in extra)) for name, extra in calls]

def tags_of_bytes(work, rel, data, **opts):
    return run_tags(work.write(rel, data), **opts)

def show(tags):
    if tags[0] != 'ok':
        return [tags[0] + ': ' + str(tags[1])]
    return [f'{n} {unhex_extras(x)}'.rstrip() for n, x in tags[1]]

def unhex_extras(x):
    out = []
    for item in x.split(',') if x else []:
        kind, _, body = item.partition(':')
        if kind in ('s', 'S', 'o'):
            out.append(repr(''.join(chr(int(h, 16)) for h in body.split('.')) if body != '-' else ''))
        else:
            out.append(body)
    return ' '.join(out)

def drop(tags, names=(), exact=()):
    if tags[0] != 'ok':
        return tags
    return ('ok', [t for t in tags[1] if t[0] not in names and t not in exact])

def first_diff(a, b):
    la, lb = show(a), show(b)
    for i in range(max(len(la), len(lb))):
        x = la[i] if i < len(la) else None
        y = lb[i] if i < len(lb) else None
        if x != y:
            return {'index': i, 'first': x, 'second': y}
    return None

# ----------------------------------------------------------------------------- the command-line tool

def cli_lines(args, cwd, tmpdir=None):
    env = {'TMPDIR': tmpdir} if tmpdir else None
    r = E.run_cli(args, cwd, extra_env=env)
    return r

def format_lines(fake_path, tags):
    """what the command-line tool prints for these tag calls (uses the real Tag.format, like cli.Checker.tag)"""
    from lib import tags as T
    out = []
    for name, extra in tags:
        out.append(T.get_tag(name).format(fake_path, *extra))
    return out

# ----------------------------------------------------------------------------- packages

PO_EXT = ('.po', '.pot', '.mo', '.gmo')

def is_po_member(rel):
    """a PO or MO file by name: extension .po/.pot/.mo/.gmo (a dot-file such as `.mo` has no extension)"""
    return os.path.splitext(rel)[-1] in PO_EXT

def build_deb(work, name, members, symlinks=(), dirs=()):
    """members: {relative path: bytes} → path of the .deb (built with the real dpkg-deb)"""
    stage = os.path.join(work.root, name + '.stage')
    os.makedirs(os.path.join(stage, 'DEBIAN'))
    with open(os.path.join(stage, 'DEBIAN', 'control'), 'w') as f:
        f.write(G.CONTROL)
    for rel, data in members.items():
        p = os.path.join(stage, rel)
        os.makedirs(os.path.dirname(p), exist_ok=True)
        with open(p, 'wb') as f:
            f.write(data)
    for d in dirs:
        os.makedirs(os.path.join(stage, d), exist_ok=True)
    for rel, target in symlinks:
        p = os.path.join(stage, rel)
        os.makedirs(os.path.dirname(p), exist_ok=True)
        os.symlink(target, p)
    deb = os.path.join(work.root, name + '.deb')
    p = subprocess.run(['dpkg-deb', '--root-owner-group', '-b', stage, deb], capture_output=True, text=True)
    if p.returncode != 0:
        raise common.Infra('dpkg-deb -b failed: ' + p.stderr[-500:])
    shutil.rmtree(stage, ignore_errors=True)
    return deb

def extract_deb(work, deb, name):
    dest = os.path.join(work.root, name + '.x')
    os.makedirs(dest)
    p = subprocess.run(['dpkg-deb', '-x', deb, dest], capture_output=True, text=True)
    if p.returncode != 0:
        raise common.Infra('dpkg-deb -x failed: ' + p.stderr[-500:])
    return dest

def options(**kw):
    o = argparse.Namespace(ignore_tags=set(), fake_root=None, file_type=None, language=None, unpack_deb=False, jobs=1)
    for k, v in kw.items():
        setattr(o, k, v)
    return o

@contextlib.contextmanager
def captured_stdout():
    old = sys.stdout
    sys.stdout = buf = io.StringIO()
    try:
        yield buf
    finally:
        sys.stdout = old

def inproc(fn, *a, **kw):
    """call a `lib.cli` function with stdout captured → (stdout, exception | None)"""
    H.ready()
    with captured_stdout() as buf:
        try:
            fn(*a, **kw)
            exc = None
        except BaseException as e:
            if isinstance(e, (KeyboardInterrupt, SystemExit)):
                raise
            exc = f'{type(e).__name__}: {e}'[:300]
    return buf.getvalue(), exc

def snapshot(d):
    return sorted(os.listdir(d))

class TmpdirGuard:
    """route tempfile to a fresh empty directory and report what is left in it"""
    def __init__(self, work):
        self.dir = tempfile.mkdtemp(prefix='T.', dir=work.root)
    def __enter__(self):
        self.old_env = os.environ.get('TMPDIR')
        self.old = tempfile.tempdir
        os.environ['TMPDIR'] = self.dir
        tempfile.tempdir = self.dir
        return self
    def __exit__(self, *a):
        tempfile.tempdir = self.old
        if self.old_env is None:
            os.environ.pop('TMPDIR', None)
        else:
            os.environ['TMPDIR'] = self.old_env
    def leftovers(self):
        return snapshot(self.dir)

def expected_member_blocks(xroot, members, fake_root, via):
    """{member: [lines]} for PO/MO members: the output of checking the extracted file on its own, path rewritten.
    via='inproc': lib.cli.check_regular_file with captured stdout; via=('cli', cwd): the command-line tool"""
    from lib import cli
    blocks = {}
    for rel in members:
        if not is_po_member(rel):
            continue
        real = os.path.join(xroot, rel)
        if via == 'inproc':
            out, exc = inproc(cli.check_regular_file, real, options=options())
            if exc:
                out += f'<<exception {exc}>>\n'
        else:
            r = E.run_cli([real], via[1])
            out = r['stdout'] + (f"<<rc={r['rc']} {r['stderr'][-200:]}>>\n" if r['rc'] != 0 or r['stderr'] else '')
        lines = out.splitlines()
        blocks[rel] = [rewrite_line(l, real, fake_root + rel) for l in lines]
    return blocks

def rewrite_line(line, real, fake):
    m = re.match(r'\A([A-Z]): ', line)
    if m and line[3:].startswith(real + ': '):
        return line[:3] + fake + line[3 + len(real):]
    return line

def match_blocks(lines, blocks):
    """is `lines` a concatenation (in some order) of the non-empty blocks?  → None | description of the first mismatch"""
    todo = {k: v for k, v in blocks.items() if v}
    i = 0
    while i < len(lines):
        hit = None
        for k, v in todo.items():
            if lines[i:i + len(v)] == v:
                hit = k
                break
        if hit is None:
            # explain: which member does the line belong to?
            return {'at_line': i, 'line': lines[i], 'unmatched_members': sorted(todo)[:5],
                    'expected_block_head': {k: v[:2] for k, v in list(todo.items())[:2]}}
        i += len(todo.pop(hit))
    if todo:
        return {'missing_members': sorted(todo)[:5], 'expected_block_head': {k: v[:2] for k, v in list(todo.items())[:2]}}
    return None
