#!/venv/bin/python
"""C15 — header diagnostics match the documented conditions."""
import collections, itertools, json, os, shutil, sys, tempfile
sys.path.insert(0, os.path.join(os.path.dirname(os.path.abspath(__file__)), '..'))
import common
from gen import hdr as G

def corpus_cases():
    p = os.path.join(common.VERIF, 'corpus', 'C15', 'cases.json')
    if not os.path.exists(p):
        return []
    out = []
    for c in json.load(open(p, encoding='utf-8')):
        for e in c['entries']:
            e['occurrences'] = [tuple(o) for o in e['occurrences']]
        out.append(c)
    return out

def small_scope(alphabet, maxlen):
    for n in range(maxlen + 1):
        for t in itertools.product(alphabet, repeat=n):
            yield ''.join(t)

TIE_TRANSLATORS = ('domains', 'gettexthdr', 'hdrchk')

def main():
    chk = common.Check('C15')
    import hdr_common as C
    proved = chk.prove('I18n.Props.C15', generated=('hdr', 'date', 'charset') + TIE_TRANSLATORS, extra_targets=())
    # the tie by translation: lib/domains.py, gettext.parse_header and the header checks regenerated from the current source and proved equal
    # to the model (Props/C15Tie.lean)
    tie_ok = common.prove_tie(chk, 'I18n.Props.C15Tie', TIE_TRANSLATORS,
                              'the definitions regenerated from the current lib/domains.py, lib/gettext.py (parse_header) and lib/check/__init__.py '
                              '(check_project, check_translator, check_comments, check_mime, check_headers) are no longer proved equal to Model/Domains.lean / Model/Hdr.lean '
                              '(generated_*_eq_model and their corollaries)')
    problems = ' '.join(chk.lean.problems)
    driver_ok = os.path.exists(common.driver_path()) and not any('untranslatable' in s for s in chk.lean.translation.values()) \
        and 'Driver' not in problems and 'I18n.Model' not in problems and 'I18n.Spec' not in problems and 'I18n.Generated' not in problems
    rng = chk.rng
    big = chk.thorough
    boost = 3 if chk.broken else 1

    # ---------------- inputs
    cases = corpus_cases() + G.fixed_cases()
    n_fixed = len(cases)
    cases += [G.case(rng) for _ in range((30000 if big else 3500) * boost)]
    texts = []
    for c in cases:
        for e in c['entries']:
            t = C.header_text_of(e)
            if t not in texts[-50:]:
                texts.append(t)
    texts = list(dict.fromkeys(texts))

    dis_cases = []
    if driver_ok:
        def stream(name, op, inputs, impl, to_arg=C.hexs):
            lines = [f'hdr {op} {to_arg(x)}' for x in inputs]
            outs = [impl(x) for x in inputs]
            dis, _ = chk.stream(name, lines, outs)
            return [inputs[i] for i in dis], outs
        # --- leaf functions
        parse_in = texts + list(small_scope(['a', ':', ' ', '\n', '\t', 'é', '\x7f', '!'], 5 if big else 4)) \
            + ['A: b', 'A:b\n', 'A : b', ':', ': x', 'a:b:c', 'a\n\nb: c\n\n', '\n', '\n\n', 'a: \t b \t\n', 'a:\u00a0b\u00a0', 'a: b\r\n', 'a\r: b', 'a:\x0cb\x0c',
               '~:x', ' :x', '\x7f:x', ';:x', '9:x', 'A:', 'A:\t', 'A: ', 'a\x00:b']
        _, outs = stream('hdr-parse', 'parse', parse_in, C.impl_parse)
        chk.stream('hdr-parse-generated', [f'hdr gparse {C.hexs(x)}' for x in parse_in], outs)
        chk.note_cases(set(outs))
        brk = ['\n', '\r', '\r\n', '\n\r', '\x0b', '\x0c', '\x1c', '\x1d', '\x1e', '\x85', '\u2028', '\u2029', '\x1f', '\x84', '\u2027', '\t', ' ']
        sl_in = [c['comments'] for c in cases[:4000]] + [''.join(t) for n in range(4) for t in itertools.product(['a', '\n', '\r', '\x85', '\u2028'], repeat=n)] \
            + ['a' + b + 'b' for b in brk] + [b for b in brk] + ['a' + b for b in brk] + [b + 'a' + b + b for b in brk]
        stream('hdr-splitlines', 'splitlines', sl_in, C.impl_splitlines)
        toks = ['example', 'com', 'test', '.', 'x', 'local', 'in-addr', 'arpa', '\n', 'localhost', 'invalid', 'ip6', 'org', 'net', 'e']
        dom_in = [''.join(t) for n in range(1, 5 if big else 4) for t in itertools.product(toks, repeat=n)]
        dom_in += ['example.com', 'notexample.com', 'a.example.org', 'example.orgx', 'example.co', 'xexample', '.example', '..test', 'a\n.test', 'a.\ntest', 'test\n', '',
                   'exämple.com', 'a.exam\u212aple', '1.0.0.127.in-addr.arpa', 'in-addr.arpa', '.in-addr.arpa', 'x.ip6.arpa', 'ip6.arpa', 'local', 'a.local', '.local',
                   'localhost.', 'a.b.c.d.invalid', 'invalid.', 'example.net.', 'com.example', 'example.example']
        stream('hdr-special-domain', 'special', dom_in, C.impl_special)
        addrs = sorted({C.parseaddr(v) for c in cases for k, v in C.fields_of_case(c['entries']) if k in ('Report-Msgid-Bugs-To', 'Last-Translator', 'Language-Team')}
                       | {'a@b', '@', 'a@', '@b.c', 'a@b@c.d', 'a@b.c@d', 'x@EXAMPLE.com', 'x@\u212aexample.com', 'x@exa\u0130mple.com', 'x@FOO.LOCAL', 'x@Σ.test', 'x@ΑΣ.test'})
        addrs = [a for a in addrs if '@' in a]
        lines = [f'hdr email {C.hexs(a)} {C.htable((k, C.hexs(v)) for k, v in C.lower_table([a]).items())}' for a in addrs]
        outs = [C.impl_email(a) for a in addrs]
        chk.stream('hdr-email-domain', lines, outs)
        chk.stream('hdr-email-domain-generated', [l.replace('hdr email ', 'hdr gemail ', 1) for l in lines],
                   [('ok ' + ' '.join(o.split(' ')[2:])) if o.startswith('ok ') else o for o in outs])
        noat = ['', 'nobody', 'a.b', 'example.com', 'x\n']
        chk.stream('hdr-email-domain-generated-noat', [f'hdr gemail {C.hexs(a)} _' for a in noat], [C.impl_email(a) for a in noat])
        cts = sorted({v for c in cases for k, v in C.fields_of_case(c['entries']) if k == 'Content-Type'})
        ct_toks = ['text/plain; ', 'charset=', 'UTF-8', ';', ' ', 'x', '-', '_', 'é', '\u00a0', 'text/plain;', 'charset']
        cts += [''.join(t) for n in range(1, 5 if big else 4) for t in itertools.product(ct_toks, repeat=n)]
        stream('hdr-content-type-regex', 'ctype', cts, C.impl_ctype)
        un_in = texts[:3000] + [a + b + c for a in ['', 'a', ' ', '_', '9', 'é', '\x1b'] for b in G.UNUSUAL for c in ['', '[', 'x']]
        stream('hdr-unusual', 'unusual', un_in, C.impl_unusual)
        # --- check_* methods, one by one, on synthetic contexts
        com_in = [(t, c['comments']) for c in cases for t in ((0, 1) if c['comments'] else (0,))][:(40000 if big else 5000)]
        com_in += [(t, l) for t in (0, 1) for l in G.COMMENT_LINES]
        lines = [f'hdr comments {t} {C.hexs(s)}' for t, s in com_in]
        outs = [C.impl_comments(t, s) for t, s in com_in]
        chk.stream('check-comments', lines, outs)
        chk.stream('check-comments-generated', [l.replace('hdr comments ', 'hdr gcomments ', 1) for l in lines], outs)
        sub = cases if big else cases[:n_fixed] + cases[n_fixed:n_fixed + 1500]
        lines, outs = [], []
        for c in sub:
            t = c['kind'] == 'pot'
            lines.append(C.headers_line(t, c['entries'])); outs.append(C.impl_headers(t, c['entries']))
        chk.stream('check-headers', lines, outs)
        chk.stream('check-headers-generated', [l.replace('hdr headers ', 'hdr gheaders ', 1) for l in lines], outs)
        lines, outs, l2, o2, l3, o3 = [], [], [], [], [], []
        for c in sub:
            t = c['kind'] == 'pot'
            fl = C.fields_of_case(c['entries'])
            lines.append(C.mime_line(t, fl, c['language'])); outs.append(C.impl_mime(t, fl, c['language']))
            l2.append(C.project_line(fl)); o2.append(C.impl_project(fl))
            l3.append(C.translator_line(t, fl)); o3.append(C.impl_translator(t, fl))
        chk.stream('check-mime', lines, outs)
        chk.stream('check-mime-generated', [l.replace('hdr mime ', 'hdr gmime ', 1) for l in lines], outs)
        chk.stream('check-project', l2, o2)
        chk.stream('check-translator', l3, o3)
        chk.stream('check-project-generated', [l.replace('hdr project ', 'hdr gproject ', 1) for l in l2], o2)
        chk.stream('check-translator-generated', [l.replace('hdr translator ', 'hdr gtranslator ', 1) for l in l3], o3)
        # --- the header stages composed
        lines = [C.all_line(c) for c in cases]
        outs = [C.impl_all(c) for c in cases]
        dis, _ = chk.stream('check-header-stages', lines, outs)
        dis_cases = [cases[i] for i in dis]
        chk.note_cases(set(outs))
        hist = collections.Counter()
        for o in outs:
            for t in (o[3:].split(';') if o.startswith('ok ') else ['<crash>']):
                hist[t.split('(')[0] if t != '-' else '<none>'] += 1
        chk.coverage['tag_histogram'] = dict(sorted(hist.items(), key=lambda kv: -kv[1]))
        chk.coverage['kinds'] = dict(collections.Counter(c['kind'] for c in cases))
        chk.coverage['header_entries_per_case'] = dict(collections.Counter(min(len(C.header_entries(c['entries'])), 3) for c in cases))
        chk.coverage['model_nontrivial_fraction'] = round(sum(1 for o in outs if o != 'ok -') / max(len(outs), 1), 3)
        # --- end to end: files on disk through Checker.check()
        safe = [c for c in cases if C.file_safe(c)]
        pick = safe[:300] + rng.sample(safe[300:], min(len(safe) - 300, (6000 if big else 600) * boost)) if len(safe) > 300 else safe
        d = tempfile.mkdtemp(prefix='i18n-verif-c15.')
        try:
            res, skipped = C.e2e(pick, d)
        except Exception as exc:
            res, skipped = [], {'harness-error:' + type(exc).__name__: len(pick)}
            chk.broken.append({'kind': 'correspondence', 'stream': 'e2e-files', 'problem': f'the real Checker could not be driven: {type(exc).__name__}: {exc}'})
        finally:
            shutil.rmtree(d, ignore_errors=True)
        e2e_model = common.run_driver([C.all_line(c) for c, _ in res])
        e2e_dis = [i for i, ((c, o), m) in enumerate(zip(res, e2e_model)) if o != m]
        chk.coverage['streams']['e2e-files'] = {'cases': len(res), 'disagreements': len(e2e_dis), 'skipped': dict(skipped),
                                                'outcomes': dict(collections.Counter(o.split(' ')[0] for _, o in res)),
                                                'kinds': dict(collections.Counter(c['kind'] for c, _ in res))}
        chk.evaluations += len(res)
        for i in e2e_dis[:5]:
            chk.broken.append({'kind': 'correspondence', 'stream': 'e2e-files', 'case': res[i][0], 'impl': res[i][1], 'model': e2e_model[i]})
        dis_cases += [res[i][0] for i in e2e_dis]
    else:
        chk.broken.append({'kind': 'correspondence', 'stream': 'hdr-*', 'problem': 'driver could not be rebuilt from the regenerated model'})

    # ---------------- falsifier: the property as stated, on the real code, against the independent reference
    tried = 0
    found = []
    seen_keys = set()
    budget = len(cases) if (big or chk.broken) else n_fixed + 2500
    for c in dis_cases + cases[:budget]:
        tried += 1
        rep = C.prop_case(c)
        if rep is None:
            continue
        key = rep['key']
        if key in seen_keys:
            continue
        seen_keys.add(key)
        small = C.shrink_case(c, lambda cc: (lambda r: r is not None and r['key'] == key)(C.prop_case(cc)))
        rep = C.prop_case(small) or rep
        key = rep.pop('key')
        if chk.violation(rep['kind'], rep, key=key):
            found.append(rep)
        if len(found) >= 3:
            break
    chk.evaluations += tried
    chk.coverage['falsifier'] = {'cases_vs_reference': tried, 'found': len(found)}
    chk.coverage['inputs'] = {'cases': len(cases), 'fixed_cases': n_fixed, 'distinct_header_texts': len(texts)}
    if not found and chk.broken and not chk.violations:
        chk.violation('proof obligation or correspondence no longer checks', {'broken': chk.broken}, no_input=True)
    chk.finish(
        level='proof',
        rule='headers built from per-field good / boilerplate / bad / near-miss value lists (addresses in reserved, dot-less and look-alike domains, '
             'URL shapes incl. unparsable ones, Content-Type near misses, MIME/CTE variants, project ids with non-ASCII digits) with one- and two-edit mutants, '
             'any subset, multiplicity and order of fields, X- and unknown/case-variant names, stray and conflict-marker lines, unusual characters; header-entry '
             'shapes (distant, duplicate, obsolete, with context, flags incl. near-fuzzy, references, plural); initial comments from boilerplate lines and near misses '
             'with every str.splitlines separator; x {po, pot, mo} x context language; fixed part: clean header and every field x every listed value x kinds, '
             'doubled and quadrupled fields; small-scope enumerations for parse_header (length <= 4/5 over 8 characters), the domain regex and the Content-Type regex '
             '(token strings); non-trivial = distinct canonical outcome',
        trusted=['Lean 4.33 kernel', 'axioms: propext, Classical.choice, Quot.sound only',
                 'tools/translate/domains2lean.py, gettexthdr2lean.py, hdrchk2lean.py over chktr.py + pytr (the translated subset and the Python-operation kit Model/HdrPy.lean, PyKit.lean: see DESIGN-notes/hdr.md)',
                 'tools/translate/hdr2lean.py (header-field registry, decorator registry, special-use domain alternatives enumerated from the sre tree, compared constants, '
                 'regex texts, re classes and str.splitlines breaks of the running interpreter, names of the unusual characters, tag names per method)',
                 'library results are inputs of the model: email.utils.parseaddr, urllib.parse.urlparse(...).scheme, difflib.get_close_matches, str.lower, and the '
                 'charset classification / codecs (C20), computed by the harness by calling the libraries directly',
                 'Spec.HeaderRules is my reading of data/tags and DESIGN.md Appendix A',
                 'the correspondence harness (tools/checks/hdr_common.py, Driver/Hdr.lean) and the Python reference hdr_common.ref_tags'],
        explanation=EXPLANATION)

EXPLANATION = (
    'TIE BY TRANSLATION (Props/C15Tie.lean): lib/domains.py (all functions), gettext.parse_header, Checker.check_project, check_translator, check_comments and '
    'check_mime (with the charset fragment through C20 model functions) and check_headers are regenerated from the current source on every run and proved equal, for all inputs, to the '
    'model definitions the theorems below are about (generated_*_eq_model + the headline theorems restated about the regenerated definitions); the regenerated '
    'definitions also run against the real code in the *-generated streams. '
    'Proved for ALL files (Props/C15.lean): header_tags_eq - whenever the header stages return, the set of (tag, extras) the imperative model '
    'of check_comments / check_headers / check_mime / check_dates / check_project / check_translator emits equals Spec.HeaderRules.Reported '
    '(Appendix A, one clause per tag), for any entries, any header text (any lines, multiplicity, order), any comments, PO / POT / MO and every '
    'library result; parse_header_lines / parse_header_field / parse_header_stray (field grammar); special_domain_iff, domains_pin, email_domain, '
    'special_email_iff, dotless_email_iff, address_verdict, unparsable_url_reported; content_type_form; conflict_marker_spec; clean_header_silent '
    '(+ kernel-evaluated clean header in the three kinds); pot_exemptions, po_boilerplate_due, pot_comments_subset; mo_exemptions; hdr_nocrash, '
    'hdr_nocrash_charset (with C20 check_total), unusual_names_total; unusual_characters_spec, comment_search_spec, comment_word_pattern, '
    'comment_copyright_pattern (declarative readings of find_unusual_characters and of the check_comments patterns); value_reports_once '
    '(sorted(set(values)): no per-value or field-name diagnostic twice); source_pins, registry_case_distinct, tag_sites_pin, emitted_names_registered. '
    'Reused, not re-modelled: check_dates (C18 Date.checkDates, NoCrash, template_placeholder_exempt), the charset fragment (C20 '
    'Charset.checkCharset, check_classification, check_total); Language / Plural-Forms / X-Poedit-* rules are C19 / C07. '
    'OUTSTANDING (test-level only): str.splitlines, and that CPython re decides what the scanners decide - tied by the hdr-* and '
    'check-comments streams (the rule set states the comment and unusual-character clauses with the model scanners, whose declarative '
    'readings are separate theorems); emission order and the multiplicity of tags that may repeat (stray lines, charset tags) are compared by the correspondence '
    '(ordered lists) and the falsifier (multisets), not proved. FINDING (fixed in /repo, re-found by this check on the pre-fix tree): Report-Msgid-Bugs-To: http://[foo crashed '
    'with ValueError (2f85d76).')

if __name__ == '__main__':
    common.main_wrapper(main)
