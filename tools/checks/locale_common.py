"""C19: canonical views of the real code (lib.ling, cli option handling, Checker.check_language), the protocol lines for the
Lean driver, an INDEPENDENT reference (own grammar parser, own reading of data/iso-codes and data/languages, own verdict
function for the language tags) and the falsifier that runs the property on the real code."""
import argparse, collections, configparser, contextlib, io, os, posixpath, sys, types, unicodedata
sys.path.insert(0, os.path.join(os.path.dirname(os.path.abspath(__file__)), '..'))
import common
from gen import locale as G

common.setup_repo_import()

def hexs(s):
    return '.'.join('%x' % ord(c) for c in s) if s else '-'

def hexo(s):
    return '~' if s is None else hexs(s)

# ------------------------------------------------------------------ the real modules (or stand-ins that fail on every call)

_L = None
def L():
    global _L
    if _L is None:
        try:
            from lib import ling
            _L = ling
        except BaseException as exc:
            err = exc
            def broken(*a, **k):
                raise RuntimeError(f'lib.ling cannot be imported: {type(err).__name__}: {err}')
            class LanguageError(ValueError):
                pass
            _L = types.SimpleNamespace(parse_language=broken, get_language_for_name=broken, _lookup_language_code=broken,
                                       lookup_territory_code=broken, LanguageError=LanguageError, Language=None,
                                       _iso_639={}, _iso_3166=frozenset(), _name_to_code={}, _language_regexp=None,
                                       _munch_language_name=broken)
    return _L

def show_lang(l):
    return f'{hexs(l.language_code)} {hexo(l.territory_code)} {hexo(l.encoding)} {hexo(l.modifier)} str={hexs(str(l))}'

def impl_parse(s):
    try:
        return 'ok ' + show_lang(L().parse_language(s))
    except Exception as exc:
        return 'err ' + type(exc).__name__

def impl_fix(s):
    try:
        l = L().parse_language(s)
        fixed = l.fix_codes()
        return f'ok fixed={1 if fixed else 0} ' + show_lang(l)
    except Exception as exc:
        return 'err ' + type(exc).__name__

def impl_lookup(s):
    try:
        return 'ok ' + hexo(L()._lookup_language_code(s))
    except Exception as exc:
        return 'err ' + type(exc).__name__

def impl_territory(s):
    try:
        return 'ok ' + hexo(L().lookup_territory_code(s))
    except Exception as exc:
        return 'err ' + type(exc).__name__

def impl_name(s):
    try:
        return 'ok ' + show_lang(L().get_language_for_name(s))
    except Exception as exc:
        return 'err ' + type(exc).__name__

def impl_almost(pair):
    a, b = pair
    try:
        x = L().parse_language(a)
        y = L().parse_language(b)
        return f'ok {1 if x.is_almost_equal(y) else 0} {1 if x == y else 0}'
    except Exception as exc:
        return 'err ' + type(exc).__name__

def impl_munch(s):
    try:
        return 'ok ' + hexs(L()._munch_language_name(s))
    except Exception as exc:
        return 'err ' + type(exc).__name__

def impl_normpath(s):
    return 'ok ' + hexs(os.path.normpath(s))

def impl_splitext(s):
    b = os.path.basename(s)
    r, e = os.path.splitext(b)
    return f'ok {hexs(b)} {hexs(r)} {hexs(e)}'

def ref_munch(s):
    """`_munch_language_name` as documented in its comments, computed with the library directly"""
    s = ' '.join(s.split()).lower()
    return unicodedata.normalize('NFD', s).encode('ASCII', 'ignore').decode()

# --- cli.main(): the real option handling, run in-process with everything after it stubbed out

class _Captured(Exception):
    pass

def cli_options(value):
    """run the real `cli.main()` with `--language=value` up to `check_all`; returns ('ok', Language) / ('exit', code) / ('exc', name)"""
    from lib import cli
    saved = {}
    def stub(name, fn, obj=cli):
        saved[(obj, name)] = getattr(obj, name)
        setattr(obj, name, fn)
    box = {}
    def fake_check_all(files, *, options):
        box['options'] = options
        raise _Captured
    argv = sys.argv
    err = io.StringIO()
    try:
        stub('initialize_terminal', lambda: None)
        stub('check_all', fake_check_all)
        stub('check', lambda: None, cli.pathmod)
        stub('patch_environment', classmethod(lambda cls: None), cli.Checker)
        sys.argv = ['i18nspector', '--language=' + value, 'x.po']
        with contextlib.redirect_stderr(err), contextlib.redirect_stdout(io.StringIO()):
            try:
                cli.main()
            except _Captured:
                return ('ok', box['options'].language)
            except SystemExit as exc:
                return ('exit', exc.code)
            except Exception as exc:
                return ('exc', type(exc).__name__)
        return ('exc', 'check_all-not-reached')
    finally:
        sys.argv = argv
        for (obj, name), v in saved.items():
            setattr(obj, name, v)

def impl_cli(value):
    try:
        kind, v = cli_options(value)
    except Exception as exc:
        return 'err harness:' + type(exc).__name__
    if kind == 'ok':
        if v is None or isinstance(v, str):
            return 'err option-not-processed'
        return 'ok ' + show_lang(v)
    if kind == 'exit':
        return 'err invalid-language' if v == 2 else f'err exit:{v}'
    return 'err ' + v

# --- Checker.check_language on a synthetic ctx

def canon_extra(x):
    from lib import tags
    if isinstance(x, tags.safestr):
        return 'S:' + hexs(str(x))
    if isinstance(x, str):
        return 's:' + hexs(x)
    lang_cls = getattr(L(), 'Language', None)
    if lang_cls is not None and isinstance(x, lang_cls):
        return 's:' + hexs(str(x))     # tags.Tag.format applies str() and escapes it like a str
    return 'o:' + hexs(repr(x))

def canon_calls(calls):
    return ';'.join(name + '(' + ','.join(canon_extra(x) for x in extra) + ')' for name, extra in calls)

_opt_cache = {}
def option_language(opt):
    """the object cli.main() stores in options.language for `-l opt` (real code), or an error marker"""
    if opt is None:
        return ('ok', None)
    if opt not in _opt_cache:
        _opt_cache[opt] = cli_options(opt)
    kind, v = _opt_cache[opt]
    if kind == 'ok' and v is not None:
        return ('ok', v.clone())
    return (kind, v)

def run_check_language(case):
    """(calls, ctx.language) from the real method, or raises"""
    import checker_harness as H
    template, opt, path, metas, pls, pcs = case
    kind, lang = option_language(opt)
    if kind != 'ok':
        raise RuntimeError(f'option {opt!r} not accepted by cli.main: {kind} {lang}')
    checker, calls = H.make_checker(path, language=lang)
    md = collections.defaultdict(list)
    if metas: md['Language'] = list(metas)
    if pls: md['X-Poedit-Language'] = list(pls)
    if pcs: md['X-Poedit-Country'] = list(pcs)
    ctx = types.SimpleNamespace(is_template=template, metadata=md)
    checker.check_language(ctx)
    return calls, ctx.language

def impl_check(case):
    try:
        calls, lang = run_check_language(case)
    except Exception as exc:
        return 'err ' + type(exc).__name__
    return f'ok lang={"~" if lang is None else hexs(str(lang))} tags={canon_calls(calls)}'

def hexlist(xs):
    return ','.join(hexs(x) for x in xs) if xs else '~'

def check_line(case):
    template, opt, path, metas, pls, pcs = case
    table = '*'      # the model munches the names itself (Locale.munchName)
    return f'locale check {1 if template else 0} {hexo(opt)} {hexs(path)} {hexlist(metas)} {hexlist(pls)} {hexlist(pcs)} {table}'

# ------------------------------------------------------------------ independent reference

class Ref:
    """tables read from the data files with a reader of my own (not lib.ling's loader)"""
    def __init__(self, repo):
        self.pairs = []            # (lll, ll or '')
        self.territories = set()
        self.names = {}            # munched name -> locale name
        sect = None
        try:
            with open(os.path.join(repo, 'data', 'iso-codes'), encoding='UTF-8') as f:
                for line in f:
                    line = line.rstrip('\n')
                    if not line.strip() or line.lstrip().startswith(('#', ';')):
                        continue
                    if line.startswith('['):
                        sect = line.strip()[1:-1]
                        continue
                    k, _, v = line.partition('=')
                    k, v = k.strip(), v.strip()
                    if sect == 'language-codes':
                        self.pairs.append((k.lower(), v))
                    elif sect == 'territory-codes':
                        self.territories.add(k.upper())
        except OSError:
            pass
        self.canon = {}
        for lll, ll in self.pairs:
            if ll:
                self.canon[ll] = ll
                self.canon[lll] = ll
            else:
                self.canon[lll] = lll
        try:
            cp = configparser.ConfigParser(interpolation=None, default_section='')
            cp.read(os.path.join(repo, 'data', 'languages'), encoding='UTF-8')
            for sec in cp.sections():
                for name in cp[sec].get('names', '').splitlines():
                    m = ref_munch(name)
                    if m:
                        self.names[m] = sec
        except Exception:
            pass

_ref = None
def REF():
    global _ref
    if _ref is None:
        _ref = Ref(common.REPO)
    return _ref

LOWER = 'abcdefghijklmnopqrstuvwxyz'
UPPER = LOWER.upper()
ENC = LOWER + UPPER + '0123456789+-'

def ref_parse(s):
    """ll[_CC][.encoding][@modifier], read left to right; returns (ll, cc, enc, mod) with enc as written, or None"""
    i, n = 0, len(s)
    def run(alphabet, j):
        k = j
        while k < n and s[k] in alphabet:
            k += 1
        return k
    k = run(LOWER, 0)
    if k < 2:
        return None
    ll, i = s[:k], k
    cc = enc = mod = None
    if i < n and s[i] == '_':
        k = run(UPPER, i + 1)
        if k - (i + 1) < 2:
            return None
        cc, i = s[i + 1:k], k
    if i < n and s[i] == '.':
        k = run(ENC, i + 1)
        if k == i + 1:
            return None
        enc, i = s[i + 1:k], k
    if i < n and s[i] == '@':
        k = run(LOWER, i + 1)
        if k == i + 1:
            return None
        mod, i = s[i + 1:k], k
    if i != n:
        return None
    return (ll, cc, enc, mod)

def ref_str(t):
    ll, cc, enc, mod = t
    return ll + ('_' + cc if cc is not None else '') + ('.' + enc if enc is not None else '') + ('@' + mod if mod is not None else '')

def ref_fix(t):
    """codes made canonical, or None when the language or the territory is unknown"""
    ll, cc, enc, mod = t
    R = REF()
    if ll not in R.canon:
        return None
    if cc is not None and cc not in R.territories:
        return None
    return (R.canon[ll], cc, enc, mod)

def ref_name(name):
    """the locale named by an English language name (whole name; any `;`-separated alternative; `B, A` read as `A B`;
    or all recognisable `,`-separated parts naming one and the same language), else None"""
    R = REF()
    m = ref_munch(name)
    def hit(x):
        c = R.names.get(x)
        return None if c is None else ref_parse(c)
    code = R.names.get(m)
    if code is not None:
        return ref_parse(code)
    if ';' in m:
        for part in m.split(';'):
            if part.strip() in R.names:
                return hit(part.strip())
    if ',' in m:
        a, b = m.split(',', 1)
        x = b.strip() + ' ' + a.strip()
        if x in R.names:
            return hit(x)
        found = {R.names[p.strip()] for p in m.split(',') if p.strip() in R.names}
        if len(found) == 1:
            return ref_parse(found.pop())
    return None

def upper_enc(t):
    return None if t is None else (t[0], t[1], None if t[2] is None else t[2].upper(), t[3])

def linguistic(t):
    """drop the encoding and a non-linguistic modifier"""
    ll, cc, enc, mod = t
    return (ll, cc, None, None if mod == 'euro' else mod)

def ref_outside_source(opt, path):
    """(locale, 'command-line'|'pathname', strong?) named outside the header: option, else LC_MESSAGES directory, else base name"""
    if opt is not None:
        t = ref_fix(ref_parse(opt))
        return (linguistic(t), 'command-line', True)
    comps = posixpath.normpath(path).split('/')
    if 'LC_MESSAGES' in comps[1:]:
        # the first LC_MESSAGES component decides; an LC_MESSAGES in first position names nothing
        i = comps.index('LC_MESSAGES')
        if i > 0:
            t = ref_parse(comps[i - 1])
            t = None if t is None else ref_fix(t)
            if t is not None:
                return (linguistic(t), 'pathname', True)
    base = path.rsplit('/', 1)[-1]
    if base.endswith('.po') and base[:-3].strip('.') != '':        # `<dots>po` has no extension: not `<language>.po`
        stem = base[:-3]
        t = ref_parse(stem)
        if t is not None and t[2] is None:
            t = ref_fix(t)
            if t is not None:
                return (linguistic(t), 'pathname', False)
    return None

def ref_check(case):
    """the reference verdict: (sorted-by-emission tag list as canonical string, final language string or None)"""
    template, opt, path, metas, pls, pcs = case
    tags = []
    def tag(name, *extra):
        tags.append(name + '(' + ','.join(extra) + ')')
    s = lambda x: 's:' + hexs(x)
    S = lambda x: 'S:' + hexs(x)
    distinct = sorted(set(metas))
    if len(metas) > 1:
        tag('duplicate-header-field-language')
    value = distinct[0] if len(distinct) == 1 else None
    conflicting = len(distinct) > 1
    if template:
        if value is None:
            tag('no-language-header-field')
        return tags, None
    outside = ref_outside_source(opt, path)
    field = None
    if value:
        t = ref_parse(value)
        if t is None:
            t = ref_name(value)
            if t is None:
                tag('invalid-language', s(value))
            else:
                tag('invalid-language', s(value), s('=>'), s(ref_str(upper_enc(t))))
        t = upper_enc(t)
        if t is not None:
            if t[2] is not None:
                tag('encoding-in-language-header-field', s(value))
            if t[3] == 'euro':
                tag('language-variant-does-not-affect-translation', s(value))
            t = linguistic(t)
            f = ref_fix(t)
            if f is None:
                tag('invalid-language', s(value))
            elif f != t:
                tag('invalid-language', s(value), s('=>'), s(ref_str(f)))
            field = f
        if field is not None and outside is not None and not outside[2]:
            # LibreOffice layout: a path component that IS the field's locale (with _ or -) outranks the base name
            name = ref_str(field)
            if f'/{name}/' in path or f'/{name}/'.replace('_', '-') in path:
                outside = None
    language, source = (outside[0], outside[1]) if outside is not None else (None, None)
    if field is not None:
        if language is None:
            language, source = field, 'Language header field'
        elif language != field:
            tag('language-disparity', s(ref_str(language)), S(f'({source})'), s('!='), s(ref_str(field)), S('(Language header field)'))
    if len(pls) > 1:
        tag('duplicate-header-field-x-poedit', s('X-Poedit-Language'))
    if len(pcs) > 1:
        tag('duplicate-header-field-x-poedit', s('X-Poedit-Country'))
    if len(set(pls)) == 1 and len(set(pcs)) <= 1:
        p = upper_enc(ref_name(pls[0]))
        if p is None:
            tag('unknown-poedit-language', s(pls[0]))
        elif language is None:
            language, source = p, 'X-Poedit-Language header field'
        elif language[0] != p[0]:
            tag('language-disparity', s(ref_str(language)), S(f'({source})'), s('!='), s(ref_str(p)), S('(X-Poedit-Language header field)'))
    absent = not value and not conflicting
    if language is None:
        if absent:
            tag('no-language-header-field')
        tag('unable-to-determine-language')
        return tags, None
    if absent:
        tag('no-language-header-field', S('Language:'), s(ref_str(language)))
    return tags, ref_str(language)

def ref_check_line(case):
    tags, lang = ref_check(case)
    return f'ok lang={"~" if lang is None else hexs(lang)} tags={";".join(tags)}'

# ------------------------------------------------------------------ the property on the real code

def _short(s):
    return s if len(s) < 200 else s[:120] + f'…[{len(s)} chars]'

def prop_parse(s):
    """clause 1 on the real code for one string: accepted iff in the grammar; str(parse(s)) == s up to the case of the encoding;
    parse(str(l)) == l"""
    ling = L()
    rep = {'input': _short(s), 'input_hex': hexs(s) if len(s) < 400 else None,
           'replay': f'from lib import ling; l = ling.parse_language({s!r}); print(repr(str(l)))'}
    want = ref_parse(s)
    try:
        l = ling.parse_language(s)
    except ling.LanguageError:
        l = None
    except Exception as exc:
        rep.update(kind='parse-crash', observed=f'{type(exc).__name__}: {exc}'[:200], expected='LanguageSyntaxError or a Language', key='parse-crash:' + s[:60])
        return rep
    if (l is None) != (want is None):
        rep.update(kind='parse-acceptance', observed='accepted as ' + repr(str(l)) if l is not None else 'rejected',
                   expected='rejected (not ll[_CC][.encoding][@modifier])' if want is None else 'accepted',
                   key='parse-acceptance:' + ('trailing-newline' if s.endswith('\n') and ref_parse(s[:-1]) is not None else s[:60]))
        return rep
    if l is None:
        return None
    try:
        got = (l.language_code, l.territory_code, l.encoding, l.modifier)
        printed = str(l)
        again = ling.parse_language(printed)
        again_t = (again.language_code, again.territory_code, again.encoding, again.modifier)
    except Exception as exc:
        rep.update(kind='print-crash', observed=f'{type(exc).__name__}: {exc}'[:200], expected='str() and re-parse succeed', key='print-crash:' + s[:60])
        return rep
    if got != upper_enc(want):
        rep.update(kind='parse-fields', observed=repr(got), expected=repr(upper_enc(want)), key='parse-fields:' + s[:60])
        return rep
    if printed != ref_str(upper_enc(want)) or printed.upper() != s.upper() or (want[2] is None and printed != s):
        rep.update(kind='print-parse', observed=repr(printed), expected=repr(s) + ' up to the case of the encoding', key='print-parse:' + s[:60])
        return rep
    if again_t != got or not (again == l):
        rep.update(kind='parse-print', observed=repr(again_t), expected=repr(got), key='parse-print:' + s[:60])
        return rep
    return None

def prop_fix(s):
    """clause 2 on the real code for one locale name"""
    ling = L()
    want = ref_parse(s)
    if want is None:
        return None
    rep = {'input': _short(s), 'input_hex': hexs(s),
           'replay': f'from lib import ling; l = ling.parse_language({s!r}); print(l.fix_codes(), l); print(l.fix_codes(), l)'}
    want = upper_enc(want)
    wf = ref_fix(want)
    try:
        l = ling.parse_language(s)
        try:
            fixed = l.fix_codes()
            got = (l.language_code, l.territory_code, l.encoding, l.modifier)
        except ling.LanguageError:
            got = None
            after = (l.language_code, l.territory_code, l.encoding, l.modifier)
    except Exception as exc:
        rep.update(kind='fix-crash', observed=f'{type(exc).__name__}: {exc}'[:200], expected='a result or FixingLanguageCodesFailed', key='fix-crash:' + s[:60])
        return rep
    if got != wf:
        rep.update(kind='fix-codes', observed=repr(got), expected=repr(wf) + ' (None = rejected)', key='fix-codes:' + s[:60])
        return rep
    if got is None:
        if after != want:
            rep.update(kind='fix-codes-mutates-on-failure', observed=repr(after), expected=repr(want), key='fix-mutate:' + s[:60])
            return rep
        return None
    if bool(fixed) != (got != want) or fixed not in (None, True):
        rep.update(kind='fix-codes-flag', observed=repr(fixed), expected=repr(got != want), key='fix-flag:' + s[:60])
        return rep
    # a changed code is a three-letter code replaced by its two-letter equivalent; nothing else changes
    if got[1:] != want[1:] or (got[0] != want[0] and not (len(want[0]) == 3 and len(got[0]) == 2)):
        rep.update(kind='fix-codes-changes-more', observed=repr(got), expected='only a 3-letter code replaced by its 2-letter equivalent', key='fix-more:' + s[:60])
        return rep
    try:
        fixed2 = l.fix_codes()
        got2 = (l.language_code, l.territory_code, l.encoding, l.modifier)
    except Exception as exc:
        rep.update(kind='fix-not-idempotent', observed=f'second fix_codes: {type(exc).__name__}', expected=repr(got), key='fix-idem:' + s[:60])
        return rep
    if got2 != got or fixed2:
        rep.update(kind='fix-not-idempotent', observed=f'{got2!r} fixed={fixed2!r}', expected=f'{got!r} fixed=None', key='fix-idem:' + s[:60])
        return rep
    return None

def prop_name(name):
    """"an English language name identifies the language": get_language_for_name on the real code against the reference reading
    of data/languages (whole name; `;` alternatives; `B, A` as `A B`; all recognisable `,` parts naming one language)"""
    ling = L()
    rep = {'input': _short(name), 'input_hex': hexs(name) if len(name) < 400 else None,
           'replay': f'from lib import ling; print(ling.get_language_for_name({name!r}))'}
    want = upper_enc(ref_name(name))
    try:
        l = ling.get_language_for_name(name)
        got = (l.language_code, l.territory_code, l.encoding, l.modifier)
    except LookupError:
        got = None
    except Exception as exc:
        rep.update(kind='name-crash', observed=f'{type(exc).__name__}: {exc}'[:200], expected='a Language or LookupError', key='name-crash:' + name[:60])
        return rep
    if got != want:
        rep.update(kind='language-name', observed=repr(got), expected=repr(want) + ' (None = LookupError)', key='language-name:' + name[:60])
        return rep
    return None

def prop_munch(s):
    """language names are compared after normalising whitespace, capitalisation and accent marks (as the comments of
    `_munch_language_name` say), computed here with str.split/lower and unicodedata directly"""
    rep = {'input': _short(s), 'input_hex': hexs(s) if len(s) < 400 else None,
           'replay': f'from lib import ling; print(repr(ling._munch_language_name({s!r})))'}
    try:
        got = L()._munch_language_name(s)
    except Exception as exc:
        rep.update(kind='munch-crash', observed=f'{type(exc).__name__}: {exc}'[:200], expected=repr(ref_munch(s)), key='munch-crash:' + s[:40])
        return rep
    if got != ref_munch(s):
        rep.update(kind='name-normalisation', observed=repr(got), expected=repr(ref_munch(s)), key='munch:' + s[:40])
        return rep
    return None

def reachable(case):
    """can `Checker.check()` hand this path to check_language?  Every path can, under the hidden --file-type option; since /repo
    d16b49e (base name gate = os.path.splitext, not endswith('.po')) check_language must not raise for any of them."""
    return True

def prop_check(case):
    """clause 3 on the real code for one (option, path, Language, X-Poedit-*) combination"""
    template, opt, path, metas, pls, pcs = case
    rep = {'input': {'is_template': template, 'option_l': opt, 'path': path, 'Language': metas, 'X-Poedit-Language': pls, 'X-Poedit-Country': pcs},
           'replay': 'cd /verif && /venv/bin/python -c "import sys; sys.path[:0]=[\'tools\',\'tools/checks\']; import locale_common as C; '
                     f'print(C.impl_check({case!r})); print(C.ref_check_line({case!r}))"'}
    got = impl_check(case)
    want = ref_check_line(case)
    if got == want:
        return None
    if got.startswith('err '):
        if not reachable(case):
            return None       # (unreachable: every path counts)
        rep.update(kind='check-language-crash', observed=got, expected=want, key='check-crash:' + got[4:] + ':' + path[:40])
        return rep
    cls = 'none-in-path' if '/None/' in path else path[:30] + '|' + ','.join(metas)[:30]
    rep.update(kind='language-tags', observed=decode_line(got), expected=decode_line(want), key='language-tags:' + cls)
    return rep

def prop_cli(value):
    """the -l option: accepted iff a locale name with known codes; the stored language has canonical codes, no encoding, no @euro"""
    rep = {'input': _short(value), 'input_hex': hexs(value),
           'replay': f'/venv/bin/python /repo/i18nspector --language={value!r} /dev/null'}
    got = impl_cli(value)
    t = ref_parse(value)
    t = None if t is None else ref_fix(upper_enc(t))
    if t is None:
        want = 'err invalid-language'
    else:
        t = linguistic(t)
        want = f'ok {hexs(t[0])} {hexo(t[1])} {hexo(t[2])} {hexo(t[3])} str={hexs(ref_str(t))}'
    if got != want:
        rep.update(kind='option-language', observed=decode_line(got), expected=decode_line(want),
                   key='option-language:' + ('trailing-newline' if value.endswith('\n') and ref_parse(value[:-1]) is not None else value[:60]))
        return rep
    return None

def unhex(h):
    if h in ('-', ''):
        return ''
    try:
        return ''.join(chr(int(x, 16)) for x in h.split('.'))
    except ValueError:
        return h

def decode_line(line):
    """human-readable form of a canonical line"""
    import re
    return re.sub(r'(?<![0-9a-zA-Z])([0-9a-f]{1,6}(?:\.[0-9a-f]{1,6})+|[0-9a-f]{2})(?![0-9a-zA-Z.])', lambda m: repr(unhex(m.group(1))), line)

# ------------------------------------------------------------------ tables for the generators (from the real module, falling back to the reference)

def gen_tables():
    ling = L()
    R = REF()
    iso = dict(getattr(ling, '_iso_639', {}) or R.canon)
    terr = sorted(getattr(ling, '_iso_3166', None) or R.territories)
    names = list(getattr(ling, '_name_to_code', None) or R.names)
    return {
        'lang_keys': sorted(iso) or ['pl'],
        'three_with_two': sorted(k for k, v in iso.items() if k != v),
        'territories': terr or ['PL'],
        'names': names or ['polish'],
    }

# ------------------------------------------------------------------ end to end: the real command-line tool on real files vs the model

LANGUAGE_TAGS = {'duplicate-header-field-language', 'no-language-header-field', 'invalid-language', 'encoding-in-language-header-field',
                 'language-variant-does-not-affect-translation', 'language-disparity', 'duplicate-header-field-x-poedit',
                 'unknown-poedit-language', 'unable-to-determine-language'}

E2E_PATHS = ['x.po', 'pl.po', 'de.po', 'pl_PL.po', 'pol.po', 'xx.po', 'pl.UTF-8.po', 'de@euro.po', 'sr@latin.po', 'po/pl.po', './po/de.po', 'x.pot', 'po/pl.pot',
             'de/LC_MESSAGES/x.po', 'de_DE.UTF-8/LC_MESSAGES/foo.po', 'de_AT@euro/LC_MESSAGES/foo.po', 'pol/LC_MESSAGES/foo.po', 'xx/LC_MESSAGES/pl.po',
             'LC_MESSAGES/pl.po', 'pl/./LC_MESSAGES/x.po', 'pl/zz/../LC_MESSAGES/x.po', 'pl//LC_MESSAGES//x.po', 'pl/LC_MESSAGES/de/LC_MESSAGES/x.po',
             'pl/LC_MESSAGES/de.po', 'translations/source/da/dictionaries/pl_PL.po', 'translations/source/pt-BR/dictionaries/de.po',
             'usr/share/locale/de/LC_MESSAGES/foo.mo', 'usr/share/locale/pl_PL.UTF-8/LC_MESSAGES/foo.mo', 'xx/LC_MESSAGES/foo.gmo', 'pl.mo', 'x.gmo',
             'l10n/sr@latin/x/pl.po', 'x/None/pl.po', 'x/pl_PL/de.po', 'x/pl-PL/de.po', 'PL.po', 'pl.po.po', 'pl..po']
E2E_METAS = [[], [''], ['pl'], ['de'], ['pl_PL'], ['pt_BR'], ['da'], ['sr@latin'], ['de@euro'], ['pl.UTF-8'], ['de_DE.ISO-8859-15@euro'], ['pol'], ['tlh'], ['xx'],
             ['pl_XX'], ['pl_pl'], ['Polish'], ['German'], ['Klingon'], ['pl', 'pl'], ['pl', 'de'], ['xx', 'xx'], ['pl-PL']]
E2E_PLS = [[], [], [], ['Polish'], ['German'], ['Klingon'], ['Polish', 'German'], ['Polish', 'Polish']]
E2E_PCS = [[], [], ['POLAND'], ['POLAND', 'GERMANY']]
E2E_OPTS = [None, None, None, 'pl', 'de_DE', 'pol', 'de_AT.UTF-8@euro']

def e2e_cases(rng, n):
    out = [(p.endswith('.pot'), None, p, m, [], []) for p, m in [('x/None/pl.po', ['xx']), ('translations/source/da/dictionaries/pl_PL.po', ['da']),
                                                                  ('pl/LC_MESSAGES/de/LC_MESSAGES/x.po', []), ('pl.UTF-8.po', []), ('x.po', [])]]
    while len(out) < n:
        p = rng.choice(E2E_PATHS)
        out.append((p.endswith('.pot'), rng.choice(E2E_OPTS), p, list(rng.choice(E2E_METAS)), list(rng.choice(E2E_PLS)), list(rng.choice(E2E_PCS))))
    return out

def po_text(metas, pls, pcs):
    lines = ['msgid ""', 'msgstr ""', '"Project-Id-Version: verif 1\\n"', '"Content-Type: text/plain; charset=UTF-8\\n"']
    for m in metas: lines.append('"Language: %s\\n"' % m)
    for m in pls: lines.append('"X-Poedit-Language: %s\\n"' % m)
    for m in pcs: lines.append('"X-Poedit-Country: %s\\n"' % m)
    lines += ['', 'msgid "a"', 'msgstr "b"', '']
    return '\n'.join(lines)

def mo_bytes(metas, pls, pcs):
    """a little-endian GNU MO file with the header entry and one message (layout of gettext's msgfmt: tables, then strings)"""
    import struct
    hdr = 'Project-Id-Version: verif 1\nContent-Type: text/plain; charset=UTF-8\n'
    hdr += ''.join(f'Language: {m}\n' for m in metas) + ''.join(f'X-Poedit-Language: {m}\n' for m in pls) + ''.join(f'X-Poedit-Country: {m}\n' for m in pcs)
    entries = sorted([(b'', hdr.encode('utf-8')), (b'a', b'b')])
    n = len(entries)
    o_tab, t_tab = 28, 28 + 8 * n
    pos = 28 + 16 * n
    okeys, ovals, blob = [], [], b''
    for k, _ in entries:
        okeys.append((len(k), pos + len(blob))); blob += k + b'\0'
    for _, v in entries:
        ovals.append((len(v), pos + len(blob))); blob += v + b'\0'
    out = struct.pack('<7I', 0x950412de, 0, n, o_tab, t_tab, 0, 0)
    for l, o in okeys: out += struct.pack('<2I', l, o)
    for l, o in ovals: out += struct.pack('<2I', l, o)
    return out + blob

def run_e2e(cases, workers=4):
    """run the real CLI (subprocess) on each case in its own directory; returns the list of language-tag lines `name extras…` per case"""
    import e2e_common as E
    res = []
    with E.Workdir() as wd:
        jobs = []
        for i, (template, opt, path, metas, pls, pcs) in enumerate(cases):
            full = os.path.join(wd.path, f'c{i}', path)      # not normalised: `a/zz/../b` needs `a/zz` to exist
            os.makedirs(os.path.dirname(full), exist_ok=True)
            if path.endswith(('.mo', '.gmo')):
                with open(full, 'wb') as fh:
                    fh.write(mo_bytes(metas, pls, pcs))
            else:
                with open(full, 'w', encoding='utf-8') as fh:
                    fh.write(po_text(metas, pls, pcs))
            args = (['--language=' + opt] if opt is not None else []) + [path]
            jobs.append((args, os.path.join(wd.path, f'c{i}')))
        def one(job):
            args, cwd = job
            return E.run_cli(args, cwd)
        outs = E.parallel(one, jobs, workers=workers)
    for (template, opt, path, metas, pls, pcs), o in zip(cases, outs):
        if o['rc'] not in (0,) or o['stderr'].strip():
            res.append('err rc=%s %s' % (o['rc'], o['stderr'].strip().splitlines()[-1][:120] if o['stderr'].strip() else ''))
            continue
        got = []
        for line in o['stdout'].splitlines():
            parts = line.split(': ', 2)
            if len(parts) == 3:
                words = parts[2].split(' ')
                if words[0] in LANGUAGE_TAGS:
                    got.append(parts[2])
        res.append('ok ' + ';'.join(got))
    return res

import re as _re
_SAFE = _re.compile(r'\A[A-Za-z0-9_.!<>=-]+\Z')     # tags._is_safe, as documented there

def render_model_line(line):
    """`ok lang=… tags=name(x:hex,…);…` → `ok name extra extra;…` (the text `tags.Tag.format` prints for unproblematic characters)"""
    if not line.startswith('ok '):
        return line
    body = line.split(' tags=', 1)[1] if ' tags=' in line else ''
    out = []
    for t in (body.split(';') if body else []):
        name, _, rest = t.partition('(')
        extras = []
        for x in rest.rstrip(')').split(','):
            if not x:
                continue
            kind, _, h = x.partition(':')
            v = unhex(h)
            if kind == 'S':
                extras.append(v)                      # tags.safestr: verbatim
            elif v == '':
                extras.append('(empty string)')
            elif _SAFE.match(v):
                extras.append(v)
            else:
                extras.append(repr(v))
        out.append(' '.join([name] + extras))
    return 'ok ' + ';'.join(out)
