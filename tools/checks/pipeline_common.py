"""Correspondence harness for the pipeline model (C01): the REAL `Checker.check`, `cli.main` / `check_all` / `check_file` /
`check_deb` and the `check_string` methods are run with scripted collaborators (a loader that raises a given exception, stages
that print n tags and raise, a `check_file` that prints n lines and raises, a `dpkg-deb` that fails), and the observable outcome
(tags in order, exception escaped or not, stdout, stderr, exit status) is compared with the Lean model's through the driver."""
import contextlib, importlib, io, json, os, subprocess, sys, tempfile, types
sys.path.insert(0, os.path.join(os.path.dirname(os.path.abspath(__file__)), '..'))
import common
import checker_harness as H

def excmap_json():
    """the extraction of tools/translate/excmap2lean.py as JSON (classes, tries, …)"""
    rc, out, err = common.run([common.PY, os.path.join(common.VERIF, 'tools', 'translate', 'excmap2lean.py'), common.REPO, '--json'])
    if rc != 0:
        return None
    return json.loads(out)

def live_class(name):
    mod, _, qual = name.rpartition('.')
    # the module part may itself contain dots; qualnames of the classes used here have none
    try:
        obj = importlib.import_module(mod)
    except ImportError:
        return None
    return getattr(obj, qual, None)

def make_exc(name, errno_, text):
    """an instance of the class with this canonical name, with/without errno, with/without the polib syntax-error text"""
    cls = live_class(name)
    if cls is None:
        return None
    msg = 'Syntax error in po file x (line 3): unescaped double quote found' if text else 'something else'
    try:
        if issubclass(cls, UnicodeDecodeError):
            return cls('utf-8', b'ab\xffcd', 2, 3, 'invalid start byte')
        if issubclass(cls, UnicodeEncodeError):
            return cls('ascii', 'ab\xffcd', 2, 3, 'ordinal not in range')
        if issubclass(cls, subprocess.CalledProcessError):
            return cls(2, ['x'])
        if issubclass(cls, OSError):
            return cls(13, 'Permission denied') if errno_ else cls(msg)
        return cls(msg)
    except Exception:
        try:
            return cls()
        except Exception:
            return None

# ----------------------------------------------------------------------------- Checker.check

def parse_runs(s, sep=','):
    if s == '_':
        return []
    res = []
    for t in s.split(sep):
        res.append((int(t.rstrip('!') or 0), t.endswith('!')))
    return res

STAGE_NAMES = ['check_comments', 'check_headers', 'check_language', 'check_plurals', 'check_mime', 'check_dates', 'check_project', 'check_translator', 'check_messages']

def impl_check(line, workdir):
    """`pipeline check <stat> <ext> <first> <retry> <stages>` on the real Checker.check"""
    _, _, st, ext, first, retry, stages = line.split(' ')
    H.ready()
    from lib import check as lib_check
    import polib
    runs = parse_runs(stages)
    name = {'po': 'x.po', 'pot': 'x.pot', 'mo': 'x.mo', 'other': 'x.txt'}[ext]
    path = os.path.join(workdir, name if st == '1' else 'missing-' + name)
    if st == '1':
        with open(path, 'wb') as f:
            f.write(b'')
    calls = []
    class Scripted(lib_check.Checker):
        def tag(self, tagname, *extra):
            calls.append(tagname)
    def mk_stage(i, n, raises):
        def stage(self, ctx):
            for k in range(n):
                self.tag('s%d.%d' % (i, k))
            if raises:
                raise RuntimeError('scripted stage failure')
        return stage
    for i, nm in enumerate(STAGE_NAMES):
        n, r = runs[i] if i < len(runs) else (0, False)
        setattr(Scripted, nm, mk_stage(i, n, r))
    state = {'n': 0}
    def constructor(p, **kw):
        state['n'] += 1
        spec = retry if 'encoding' in kw else first
        if spec == 'ok':
            return types.SimpleNamespace(metadata={}, header='', metadata_is_fuzzy=False)
        nm, en, tx = spec.split(':')
        exc = make_exc(nm, en == '1', tx == '1')
        if exc is None:
            raise RuntimeError('harness: cannot build ' + nm)
        raise exc
    import argparse
    options = argparse.Namespace(ignore_tags=set(), fake_root=None, file_type=None, language=None, unpack_deb=False, jobs=1)
    saved = (polib.pofile, polib.mofile)
    polib.pofile = polib.mofile = constructor
    uncaught = '0'
    try:
        try:
            Scripted(path, options=options).check()
        except BaseException as exc:   # noqa
            uncaught = '1'
            if isinstance(exc, RuntimeError) and str(exc).startswith('harness:'):
                return 'harness-error ' + str(exc)
    finally:
        polib.pofile, polib.mofile = saved
        if st == '1':
            try:
                os.unlink(path)
            except OSError:
                pass
    # the stages beyond those scripted print nothing; a 9-stage model list is sent by the generator
    return (','.join(calls) if calls else '-') + ' ' + uncaught

def gen_check_lines(rng, n, classes):
    """protocol lines: every class of the table as first / retry exception, stages of all shapes"""
    interesting = ['builtins.UnicodeDecodeError', 'lib.moparser.SyntaxError', 'builtins.OSError', 'builtins.PermissionError', 'builtins.FileNotFoundError',
                   'builtins.IsADirectoryError', 'builtins.ValueError', 'builtins.UnicodeError', 'builtins.KeyError', 'builtins.RecursionError']
    lines = []
    def spec(c):
        if c == 'ok':
            return 'ok'
        return '%s:%d:%d' % (c, rng.randrange(2), rng.randrange(2))
    def stages():
        r = rng.random()
        if r < 0.3:
            return ','.join('0' for _ in range(9))
        out = []
        for _ in range(9):
            out.append(str(rng.choice([0, 0, 1, 2])) + ('!' if rng.random() < 0.12 else ''))
        return ','.join(out)
    usable = [c for c in classes if make_exc(c, False, False) is not None]
    for c in usable:                               # each class once in each position, both attribute values
        for en in (0, 1):
            for tx in (0, 1):
                lines.append('pipeline check 1 %s %s:%d:%d ok %s' % (rng.choice(['po', 'pot', 'mo']), c, en, tx, stages()))
        lines.append('pipeline check 1 %s builtins.UnicodeDecodeError:0:0 %s %s' % (rng.choice(['po', 'pot', 'mo']), spec(c), stages()))
    while len(lines) < n:
        st = '0' if rng.random() < 0.08 else '1'
        ext = rng.choice(['po', 'po', 'pot', 'mo', 'mo', 'other'])
        first = rng.choice(['ok', 'ok'] + interesting)
        retry = rng.choice(['ok'] + interesting)
        lines.append('pipeline check %s %s %s %s %s' % (st, ext, spec(first), spec(retry), stages()))
    return lines

# ----------------------------------------------------------------------------- cli.main / check_all

def _fake_check_file(path, *, options):
    """scripted check_file: the path encodes what it prints and whether it raises (module-level: used across fork)"""
    base = os.path.basename(path)
    i, n, r = base.split('_')
    for k in range(int(n)):
        print('f%s.%s' % (i, k))
    if r == '1':
        raise RuntimeError('scripted check_file failure')

def impl_main(line):
    """`pipeline main <lang> <jobs> <files>` on the real cli.main (in-process; check_file scripted)"""
    _, _, lang, jobs, files = line.split(' ')
    H.ready()
    from lib import cli
    runs = parse_runs(files)
    argv = ['i18nspector']
    if lang == 'valid':
        argv += ['-l', 'pl_PL']
    elif lang == 'invalid':
        argv += ['-l', 'x!']
    argv += ['-j', jobs]
    argv += ['%d_%d_%d' % (i, n, 1 if r else 0) for i, (n, r) in enumerate(runs)] or []
    if not runs:
        return None      # argparse requires at least one file: not a case of the model
    out, err = io.StringIO(), io.StringIO()
    saved = (cli.check_file, cli.Checker.patch_environment, sys.argv, cli.initialize_terminal)
    cli.check_file = _fake_check_file
    cli.Checker.patch_environment = classmethod(lambda c: None)
    cli.initialize_terminal = lambda: None
    sys.argv = argv
    rc, failed = 0, False
    try:
        with contextlib.redirect_stdout(out), contextlib.redirect_stderr(err):
            try:
                cli.main()
            except SystemExit as exc:
                rc = exc.code if isinstance(exc.code, int) else (0 if exc.code is None else 1)
            except BaseException:      # noqa: what the interpreter would turn into a traceback and status 1
                rc, failed = 1, True
    finally:
        cli.check_file, cli.Checker.patch_environment, sys.argv, cli.initialize_terminal = saved
    toks = out.getvalue().split()
    stderr = '1' if (failed or err.getvalue()) else '0'
    return (','.join(toks) if toks else '-') + ' ' + stderr + ' ' + str(rc)

def gen_main_lines(rng, n):
    lines = []
    for _ in range(n):
        lang = rng.choice(['absent', 'absent', 'valid', 'invalid'])
        jobs = rng.choice([1, 1, 2, 3])
        k = rng.choice([1, 1, 2, 3, 4])
        files = ','.join(str(rng.choice([0, 1, 2])) + ('!' if rng.random() < 0.2 else '') for _ in range(k))
        lines.append('pipeline main %s %d %s' % (lang, jobs, files))
    return lines

# ----------------------------------------------------------------------------- check_file / check_deb

def impl_file(line, workdir):
    """`pipeline file <unpack> <deb> <regular>` on the real check_file/check_deb (dpkg helpers and check_regular_file scripted)"""
    _, _, unpack, deb, regular = line.split(' ')
    H.ready()
    from lib import cli
    import argparse
    (rn, rr), = parse_runs(regular)
    members = parse_runs(deb[2:], ';') if deb.startswith('m:') else []
    suffix = {'n': '.po', 'f': '.deb', 'm': '.dsc' if len(members) % 2 else '.deb'}[deb[0]]
    path = os.path.join(workdir, 'pkg' + suffix)
    out = io.StringIO()
    def fake_regular(filename, *, options):
        if filename == path:
            for k in range(rn):
                print('f0.%d' % k)
            if rr:
                raise RuntimeError('scripted failure')
            return
        i = int(os.path.basename(filename)[1:])
        n, r = members[i - 1]
        for k in range(n):
            print('f%d.%d' % (i, k))
        if r:
            raise RuntimeError('scripted member failure')
    def fake_check_call(cmd, **kw):
        if deb[0] == 'f':
            raise subprocess.CalledProcessError(2, cmd)
        target = cmd[-1]
        os.makedirs(target, exist_ok=True)
        for i in range(1, len(members) + 1):
            with open(os.path.join(target, 'm%d' % i), 'w') as f:
                f.write('x')
        return 0
    options = argparse.Namespace(ignore_tags=set(), fake_root=None, file_type=None, language=None, unpack_deb=(unpack == '1'), jobs=1)
    saved = (cli.check_regular_file, cli.ipc.check_call)
    cli.check_regular_file = fake_regular
    cli.ipc.check_call = fake_check_call
    uncaught = '0'
    try:
        with contextlib.redirect_stdout(out):
            try:
                cli.check_file(path, options=options)
            except BaseException:     # noqa
                uncaught = '1'
    finally:
        cli.check_regular_file, cli.ipc.check_call = saved
    toks = out.getvalue().split()
    return (','.join(toks) if toks else '-') + ' ' + uncaught

def gen_file_lines(rng, n):
    lines = []
    for _ in range(n):
        unpack = rng.choice(['0', '1', '1', '1'])
        r = rng.random()
        if r < 0.25:
            deb = 'n'
        elif r < 0.5:
            deb = 'f'
        else:
            k = rng.choice([0, 1])       # os.walk order of several members is the file system's: one member at most
            deb = 'm:' + (';'.join(str(rng.choice([0, 1, 2])) + ('!' if rng.random() < 0.25 else '') for _ in range(k)) or '_')
        regular = str(rng.choice([0, 1, 2])) + ('!' if rng.random() < 0.2 else '')
        lines.append('pipeline file %s %s %s' % (unpack, deb, regular))
    return lines

# ----------------------------------------------------------------------------- check_string

EXTRA_PY_TAGS = {'python-format-string-multiple-unnamed-arguments', 'python-format-string-unnamed-plural-argument'}

def impl_string(kind, s):
    """check_string of the real C / Python %-format checker: `<fmt 0/1> <tags> <uncaught class or ->`"""
    import polib
    checker, calls = H.make_checker()
    sub = checker._message_format_checkers[kind]
    ctx = types.SimpleNamespace(is_template=False, encoding='UTF-8')
    msg = polib.POEntry(msgid='x', msgstr='y')
    uncaught = '-'
    fmt = None
    try:
        fmt = sub.check_string(ctx, msg, s)
    except BaseException as exc:     # noqa
        uncaught = type(exc).__module__ + '.' + type(exc).__qualname__
    names = [n for n, _ in calls if n not in EXTRA_PY_TAGS]
    return ('1' if fmt is not None else '0') + ' ' + (','.join(names) if names else '-') + ' ' + uncaught

# ----------------------------------------------------------------------------- dispatch

def dispatch_cases(data):
    """every (try site, class) pair: the index of the clause CPython would choose, by issubclass on the live classes"""
    lines, impl = [], []
    live = {c: live_class(c) for c in data['classes']}
    for t in data['tries']:
        if ' ' in t['file'] or ' ' in t['func']:
            continue
        for c in data['classes']:
            cobj = live.get(c)
            if cobj is None:
                continue
            res = '-'
            for i, h in enumerate(t['handlers']):
                hs = [live.get(x) for x in h['classes']]
                if any(x is not None and issubclass(cobj, x) for x in hs):
                    res = str(i)
                    break
            lines.append('pipeline dispatch %s %s %d %s' % (t['file'], t['func'], t['ord'], c))
            impl.append(res)
    return lines, impl
