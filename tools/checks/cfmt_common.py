"""C11: correspondence stream (`cfmt`), independent printf reference, glibc oracle, falsifier on the real code."""
import os, sys
sys.path.insert(0, os.path.join(os.path.dirname(os.path.abspath(__file__)), '..'))
import common
from gen import cfmt as G

common.setup_repo_import()

_M = None
def M():
    """lib.strformat.c of the repository under test; if it cannot even be imported, a stand-in whose FormatString
    raises the import error (so that every input is a concrete crash rather than a harness failure)"""
    global _M
    if _M is None:
        try:
            from lib.strformat import c
            _M = c
        except BaseException as exc:      # SyntaxError, NameError at import time, ...
            import types
            err = exc
            class Error(Exception):
                pass
            class Broken:
                def __init__(self, s):
                    raise RuntimeError(f'lib.strformat.c cannot be imported: {type(err).__name__}: {err}')
            _M = types.SimpleNamespace(FormatString=Broken, Error=Error, Conversion=Broken, VariableWidth=Broken, VariablePrecision=Broken)
    return _M

def hexchars(s):
    return '.'.join('%x' % ord(c) for c in s) if s else '-'

# ------------------------------------------------------------------ the real code, canonically

def impl_parse(s, cls=None):
    """canonical one-liner of `FormatString(s)`: same grammar as Driver/CFmt.lean `showResult`"""
    m = M()
    try:
        fmt = (cls or m.FormatString)(s)
    except Exception as exc:        # own Error subclasses and crashes alike: the class name is the outcome
        return 'err ' + type(exc).__name__
    items = list(fmt)
    pos = {id(x): i for i, x in enumerate(items)}
    args = []
    for uses in fmt.arguments:
        ent = []
        for a in uses:
            if isinstance(a, m.VariableWidth):
                ent.append(f"W:{a.type.replace(' ', '~')}@{pos.get(id(a.parent), '?')}")
            elif isinstance(a, m.VariablePrecision):
                ent.append(f"P:{a.type.replace(' ', '~')}@{pos.get(id(a.parent), '?')}")
            else:
                ent.append(f"C:{str(a.type).replace(' ', '~')}@{pos.get(id(a), '?')}")
        args.append(','.join(ent))
    ws = ','.join(type(w).__name__ for w in fmt.warnings)
    return f"ok n={len(fmt.arguments)} items={len(items)} args=[{';'.join(args)}] warnings=[{ws}]"

def impl_items(s):
    m = M()
    try:
        fmt = m.FormatString(s)
    except Exception as exc:
        return None
    out = []
    for x in fmt:
        if isinstance(x, str):
            out.append(f'L{len(x)}')
        else:
            out.append(f"D:{x.type.replace(' ', '~')}:{1 if x.integer else 0}")
    return 'complete ' + ' '.join(out)

def own_error(name):
    m = M()
    v = getattr(m, name, None)
    return isinstance(v, type) and issubclass(v, m.Error)

# ------------------------------------------------------------------ independent reference, written from printf(3)

class Invalid(Exception):
    pass

_SIGNED = {'': 'int', 'hh': 'signed char', 'h': 'short int', 'l': 'long int', 'll': 'long long int', 'q': 'long long int',
           'L': 'long long int', 'j': 'intmax_t', 'z': 'ssize_t', 'Z': 'ssize_t', 't': 'ptrdiff_t'}
_UNSIGNED = {'': 'unsigned int', 'hh': 'unsigned char', 'h': 'unsigned short int', 'l': 'unsigned long int',
             'll': 'unsigned long long int', 'q': 'unsigned long long int', 'L': 'unsigned long long int', 'j': 'uintmax_t',
             'z': 'size_t', 'Z': 'size_t', 't': '[unsigned ptrdiff_t]'}
REF_NL_ARGMAX = 4096
REF_INT_MAX = 2 ** 31 - 1

def ref_type(length, conv):
    """C type named by the man page for a length modifier + conversion; Invalid if the pair is not described"""
    if conv in 'di':
        return _SIGNED[length]
    if conv in 'ouxX':
        return _UNSIGNED[length]
    if conv == 'n':
        return _SIGNED[length] + ' *'
    if conv in 'eEfFgGaA':
        if length in ('', 'l'):
            return 'double'
        if length == 'L':
            return 'long double'
        raise Invalid('length')
    if conv == 'c':
        if length == '': return 'char'
        if length == 'l': return 'wint_t'
        raise Invalid('length')
    if conv == 's':
        if length == '': return 'const char *'
        if length == 'l': return 'const wchar_t *'
        raise Invalid('length')
    if length:
        raise Invalid('length')
    return {'C': 'wint_t', 'S': 'const wchar_t *', 'p': 'void *', 'm': None, '%': None}[conv]

def ref_printf(s):
    """('ok', [C type of each argument in order]) or ('invalid', why).  Recursive-descent over the man-page syntax
    %[argno$][flags][width][.precision][length]conversion, plus gettext's <PRI…> spelling of the inttypes macros."""
    i, n = 0, len(s)
    uses = []          # (argno or None, type)
    def digits(j):
        k = j
        while k < n and s[k] in '0123456789':
            k += 1
        return k
    def argno(j):
        """optional `digits$` at j → (value or None, new j)"""
        k = digits(j)
        if k > j and k < n and s[k] == '$':
            v = int(s[j:k].lstrip('0') or '0')      # the harness process has no int() digit limit once lib is imported; lstrip keeps it cheap
            return v, k + 1
        return None, j
    try:
        while i < n:
            if s[i] != '%':
                i += 1
                continue
            i += 1
            this = []
            idx, i = argno(i)
            flags = set()
            while i < n and s[i] in "#0-+ 'I":
                flags.add(s[i]); i += 1
            width = None
            if i < n and s[i] == '*':
                j, i = argno(i + 1)
                width = '*'
                this.append((j, 'int'))
                if j is not None and not 1 <= j <= REF_NL_ARGMAX: raise Invalid('argno')
            elif i < n and s[i] in '123456789':
                k = digits(i)
                width = s[i:k]; i = k
                if len(width.lstrip('0')) > 10 or int(width.lstrip('0') or '0') > REF_INT_MAX: raise Invalid('width')
            prec = None
            if i < n and s[i] == '.':
                i += 1
                if i < n and s[i] == '*':
                    j, i = argno(i + 1)
                    prec = '*'
                    this.append((j, 'int'))
                    if j is not None and not 1 <= j <= REF_NL_ARGMAX: raise Invalid('argno')
                else:
                    k = digits(i)
                    prec = s[i:k].lstrip('0'); i = k
                    if len(prec.lstrip('0')) > 10 or int(prec.lstrip('0') or '0') > REF_INT_MAX: raise Invalid('precision')
            if s.startswith('<PRI', i):
                k = s.find('>', i)
                name = s[i + 4:k] if k >= 0 else ''
                conv, size = name[:1], name[1:]
                if conv == '' or conv not in 'diouxX': raise Invalid('syntax')
                kinds = {'': '', 'LEAST': '_least', 'FAST': '_fast'}
                for pre, mid in kinds.items():
                    if size.startswith(pre) and size[len(pre):] in ('8', '16', '32', '64') and (pre or not size.startswith(('L', 'F'))):
                        tp = ('int' if conv in 'di' else 'uint') + mid + size[len(pre):] + '_t'
                        break
                else:
                    if size in ('MAX', 'PTR'):
                        tp = ('int' if conv in 'di' else 'uint') + size.lower() + '_t'
                    else:
                        raise Invalid('syntax')
                i = k + 1
            else:
                length = ''
                for cand in ('hh', 'll', 'h', 'l', 'q', 'L', 'j', 'z', 'Z', 't'):
                    if s.startswith(cand, i):
                        length = cand; i += len(cand); break
                if i >= n or s[i] not in 'diouxXeEfFgGaAcsCSpnm%': raise Invalid('syntax')
                conv = s[i]; i += 1
                tp = ref_type(length, conv)
            if idx is not None and not 1 <= idx <= REF_NL_ARGMAX: raise Invalid('argno')
            # "%%": the complete conversion specification is '%%'
            if conv == '%' and (flags or width is not None or prec is not None or idx is not None): raise Invalid('%%')
            # n: no flags, width, precision
            if conv == 'n' and (flags or width is not None or prec is not None): raise Invalid('n')
            if '#' in flags and conv not in 'oxXaAeEfFgG': raise Invalid('#')
            if '0' in flags and conv not in 'diouxXaAeEfFgG': raise Invalid('0')
            if "'" in flags and conv not in 'diufFgG': raise Invalid("'")
            if prec is not None and conv not in 'diouxXaAeEfFgGsS': raise Invalid('precision')
            if tp is not None:
                this.append((idx, tp))
            uses += this
    except Invalid as exc:
        return ('invalid', str(exc))
    if not uses:
        return ('ok', [])
    numbered = [u for u in uses if u[0] is not None]
    if numbered and len(numbered) != len(uses):
        return ('invalid', 'mixture')
    if not numbered:
        if len(uses) > REF_NL_ARGMAX:
            return ('invalid', 'too many')
        return ('ok', [t for _, t in uses])
    top = max(j for j, _ in uses)
    types = {}
    for j, t in uses:
        types.setdefault(j, set()).add(t)
    if set(types) != set(range(1, top + 1)):
        return ('invalid', 'gap')
    if any(len(v) > 1 for v in types.values()):
        return ('invalid', 'type clash')
    return ('ok', [next(iter(types[j])) for j in range(1, top + 1)])

# ------------------------------------------------------------------ glibc

_glibc = None
def glibc_count(s):
    """number of arguments glibc's parse_printf_format reports, or None if unavailable / not applicable"""
    global _glibc
    if _glibc is None:
        try:
            import ctypes
            libc = ctypes.CDLL('libc.so.6')
            f = libc.parse_printf_format
            f.argtypes = [ctypes.c_char_p, ctypes.c_size_t, ctypes.POINTER(ctypes.c_int)]
            f.restype = ctypes.c_size_t
            _glibc = f
        except Exception:
            _glibc = False
    if not _glibc:
        return None
    try:
        b = s.encode('utf-8')
    except UnicodeEncodeError:
        return None
    if b'\0' in b:
        return None
    return int(_glibc(b, 0, None))

import re as _re
_PRI = _re.compile(r'<PRI([diouxX])([A-Z0-9]*)>')

def glibc_applicable(s):
    """glibc counts `%1$m` as needing one argument (it takes the largest number it sees); the tool documents `%n$m` as
    tolerated and argument-free.  That class is excluded from the count comparison."""
    return _re.search(r'%[0-9]+\$[^%]*?m', s) is None

def _pri_expansion(conv, size):
    """what <inttypes.h> of glibc on an LP64 platform expands PRI<conv><size> to (8/16/32-bit types are promoted to int;
    64-bit, FAST16/32/64, MAX and PTR are `long`)"""
    long_ = size in ('64', 'LEAST64', 'FAST16', 'FAST32', 'FAST64', 'MAX', 'PTR')
    return ('l' if long_ else '') + conv

def expand_pri(s):
    return _PRI.sub(lambda m: _pri_expansion(m.group(1), m.group(2)), s)

# glibc <printf.h>
PA_INT, PA_CHAR, PA_WCHAR, PA_STRING, PA_WSTRING, PA_POINTER, PA_FLOAT, PA_DOUBLE = range(8)
PA_FLAG_LONG_LONG = PA_FLAG_LONG_DOUBLE = 1 << 8
PA_FLAG_LONG, PA_FLAG_SHORT, PA_FLAG_PTR = 1 << 9, 1 << 10, 1 << 11
_PA_NAMES = {PA_INT: 'PA_INT', PA_CHAR: 'PA_CHAR', PA_WCHAR: 'PA_WCHAR', PA_STRING: 'PA_STRING', PA_WSTRING: 'PA_WSTRING',
             PA_POINTER: 'PA_POINTER', PA_FLOAT: 'PA_FLOAT', PA_DOUBLE: 'PA_DOUBLE'}

def pa_name(code):
    base = _PA_NAMES.get(code & 0xff, str(code & 0xff))
    fl = [n for bit, n in ((PA_FLAG_LONG_LONG, 'PA_FLAG_LONG_LONG'), (PA_FLAG_LONG, 'PA_FLAG_LONG'), (PA_FLAG_SHORT, 'PA_FLAG_SHORT'),
                           (PA_FLAG_PTR, 'PA_FLAG_PTR')) if code & bit]
    return '|'.join([base] + fl)

def glibc_types(s):
    """the argument types glibc's parse_printf_format reports (list of PA_* codes), or None"""
    k = glibc_count(s)
    if k is None:
        return None
    import ctypes
    arr = (ctypes.c_int * max(k, 1))()
    n = int(_glibc(s.encode('utf-8'), k, arr))
    return [int(arr[i]) for i in range(min(n, k))]

_LP64 = None
def lp64():
    global _LP64
    if _LP64 is None:
        import ctypes
        _LP64 = (ctypes.sizeof(ctypes.c_long) == 8 and ctypes.sizeof(ctypes.c_longlong) == 8 and ctypes.sizeof(ctypes.c_void_p) == 8
                 and ctypes.sizeof(ctypes.c_size_t) == 8)
    return _LP64

def expected_pa(tp):
    """the PA_* code glibc (LP64) reports for an argument of the C type the tool names — for the types where glibc's report and
    C99 agree; None = not comparable.  Independent of the tool's tables: written from <printf.h> and the ABI."""
    if tp.endswith(' *') and tp not in ('const char *', 'const wchar_t *', 'void *'):
        # %n: glibc reports PA_INT|PA_FLAG_PTR whatever the length modifier
        return (PA_INT | PA_FLAG_PTR) if expected_pa(tp[:-2]) is not None and (expected_pa(tp[:-2]) & 0xff) in (PA_INT, PA_CHAR) else None
    table = {
        'int': PA_INT, 'unsigned int': PA_INT,                                   # glibc does not report signedness
        'signed char': PA_CHAR, 'unsigned char': PA_CHAR,                        # hh: reported like %c
        'short int': PA_INT | PA_FLAG_SHORT, 'unsigned short int': PA_INT | PA_FLAG_SHORT,
        'long int': PA_INT | PA_FLAG_LONG, 'unsigned long int': PA_INT | PA_FLAG_LONG,
        # LP64: long long has the size of long and glibc reports it as PA_FLAG_LONG (LONG_MAX == LONG_LONG_MAX branch)
        'long long int': PA_INT | PA_FLAG_LONG, 'unsigned long long int': PA_INT | PA_FLAG_LONG,
        'intmax_t': PA_INT | PA_FLAG_LONG, 'uintmax_t': PA_INT | PA_FLAG_LONG, 'ssize_t': PA_INT | PA_FLAG_LONG, 'size_t': PA_INT | PA_FLAG_LONG,
        'ptrdiff_t': PA_INT | PA_FLAG_LONG, '[unsigned ptrdiff_t]': PA_INT | PA_FLAG_LONG,
        'double': PA_DOUBLE, 'long double': PA_DOUBLE | PA_FLAG_LONG_DOUBLE,
        'char': PA_CHAR, 'wint_t': PA_WCHAR, 'const char *': PA_STRING, 'const wchar_t *': PA_WSTRING, 'void *': PA_POINTER,
        'intptr_t': PA_INT | PA_FLAG_LONG, 'uintptr_t': PA_INT | PA_FLAG_LONG,
    }
    if tp in table:
        return table[tp]
    m = _re.fullmatch(r'u?int(?:_(least|fast))?(8|16|32|64)_t', tp)
    if m:
        kind, bits = m.group(1), int(m.group(2))
        long_ = bits == 64 or (kind == 'fast' and bits >= 16)
        return PA_INT | (PA_FLAG_LONG if long_ else 0)
    return None

_DIRECTIVE = _re.compile(r"%(?:[0-9]+\$)?[#0 +'I-]*(?:\*(?:[0-9]+\$)?|[0-9]+)?(?:\.(?:\*(?:[0-9]+\$)?|[0-9]*))?(hh|ll|[hlqjzZtL])?([A-Za-z%])")

def glibc_types_applicable(s):
    """Where glibc's parse_printf_format and C99/the man page legitimately differ in the TYPE they give (observed with glibc on
    LP64, and visible in stdio-common/printf-parsemb.c):
    * `q` / `L` with an integer conversion: the man page says long long; glibc's parser sets is_long_double, whose integer branch
      is compiled out when LONG_MAX == LONG_LONG_MAX, and reports plain PA_INT;
    * `%lc`, `%ls`: C99 says wint_t / wchar_t*; the parser looks at the conversion letter only and reports PA_CHAR / PA_STRING
      (`%C`, `%S` are reported wide);
    * `%n`: always PA_INT|PA_FLAG_PTR, the length modifier is dropped (handled in expected_pa);
    * signedness is never reported, `hh` is reported as PA_CHAR, `j z Z t ll` by their size (handled in expected_pa);
    * the class `%n$m` (see glibc_applicable).
    Strings with one of the first two are left out of the type comparison (the count is still compared)."""
    if not glibc_applicable(s) or not lp64():
        return False
    for m in _DIRECTIVE.finditer(s):
        ln, cv = m.group(1), m.group(2)
        if ln in ('q', 'L') and cv in 'diouxXn':
            return False
        if ln == 'l' and cv in 'cs':
            return False
    return True

# ------------------------------------------------------------------ the property on the real code

class _NoWarn:
    cls = None

def nowarn_class():
    if _NoWarn.cls is None:
        m = M()
        class NoWarn(m.FormatString):
            def warn(self, *a, **k):
                pass
        _NoWarn.cls = NoWarn
    return _NoWarn.cls

DIGIT_LIMIT_KEY = 'crash:ValueError:int-digit-limit:lib/strformat/c.py'
STATS = {'glibc_types_compared': 0}

def has_long_numeral(s):
    return _re.search(r'[0-9]{4301}', s) is not None

def check_property(s):
    """C11 evaluated on the real code for one string, against the independent reference (+ glibc).
    Returns None or a replay dict (with 'key' for the known-finding match)."""
    m = M()
    rep = {'input': s if len(s) < 300 else s[:120] + f'…[{len(s)} chars]…' + s[-60:], 'input_hex': hexchars(s) if len(s) < 2000 else None,
           'replay': f'import lib.strformat.c as M; M.FormatString({s!r})' if len(s) < 2000 else 'see input'}
    try:
        fmt = m.FormatString(s)
        got = ('ok', [sorted({a.type for a in uses}) for uses in fmt.arguments])
    except m.Error as exc:
        got = ('err', type(exc).__name__)
    except Exception as exc:
        rep.update(kind='crash', observed=f'{type(exc).__name__}: {exc}'[:200], expected="only the parser's own Error classes")
        if isinstance(exc, ValueError) and has_long_numeral(s):
            rep['key'] = DIGIT_LIMIT_KEY
        else:
            rep['key'] = f'crash:{type(exc).__name__}:{s[:80]}'
        return rep
    ref = ref_printf(s)
    if (got[0] == 'ok') != (ref[0] == 'ok'):
        rep.update(kind='acceptance', observed=f'FormatString: {got}', expected=f'printf reference: {ref}', key='acceptance:' + s[:80])
        if got[0] == 'err' and has_long_numeral(s):
            rep['key'] = DIGIT_LIMIT_KEY      # the same site: a valid string refused because int() refuses a numeral
        return rep
    if got[0] == 'ok':
        if any(len(t) != 1 for t in got[1]) or [t[0] for t in got[1]] != ref[1]:
            rep.update(kind='signature', observed=f'arguments {got[1]}', expected=f'printf reference: {ref[1]}', key='signature:' + s[:80])
            return rep
        if glibc_applicable(s):
            k = glibc_count(expand_pri(s))
            if k is not None and k != len(got[1]):
                rep.update(kind='glibc-count', observed=f'{len(got[1])} arguments', expected=f'glibc parse_printf_format: {k}', key='glibc:' + s[:80])
                return rep
            if k is not None and glibc_types_applicable(s):
                pa = glibc_types(expand_pri(s))
                want = [expected_pa(t[0]) for t in got[1]]
                if pa is not None and None not in want and pa != want:
                    i = next(j for j in range(len(want)) if j >= len(pa) or pa[j] != want[j])
                    rep.update(kind='glibc-types', observed=f'argument {i + 1} reported as {got[1][i][0]!r} (glibc code expected: {pa_name(want[i])})',
                               expected=f'glibc parse_printf_format: {pa_name(pa[i]) if i < len(pa) else "missing"}', key='glibc-types:' + s[:80])
                    return rep
                STATS['glibc_types_compared'] += 1
    # warnings never change acceptance or the argument list
    a = impl_parse(s)
    b = impl_parse(s, nowarn_class())
    strip = lambda o: o.split(' warnings=')[0]
    if strip(a) != strip(b):
        rep.update(kind='warnings-not-inert', observed=a, expected=b, key='warnings:' + s[:80])
        return rep
    return None

# ------------------------------------------------------------------ the kernel tie of the scanner to the live regex

TIE_MODULE = 'I18n.Props.C11Tie'

def prove_tie(chk):
    """Props/C11Tie.lean: directive_regex (scanner = first match of the LIVE parse tree of _directive_re under the backtracking
    semantics, group spans included), segmentation_is_finditer (the finditer loop of FormatString.__init__ = CFmt.scan),
    generated_conversion_eq_model (Conversion.__init__ regenerated from source = CFmt.conversion).  The trees/definitions
    are regenerated by chk.prove(..., generated=('cfmt',)) just before; a failure lands in chk.broken (then the falsifier
    must find an input or the check reports `no-failing-input-found`)."""
    tie = common.lean_check(TIE_MODULE, generated=(), extra_targets=(), leanchecker=chk.thorough)
    tr = chk.lean.translation.get('cfmt', '')
    tie_ok = tie.ok and not tr.startswith('untranslatable')
    lean = chk.lean
    lean.obligations += tie.obligations
    lean.discharged += tie.discharged if tie_ok else 0
    lean.theorems = list(lean.theorems) + list(tie.theorems)
    lean.axioms.update(tie.axioms)
    if not tie.ok:
        lean.ok = False
        lean.problems = list(lean.problems) + [TIE_MODULE + ': ' + p for p in tie.problems]
        chk.broken.append({'kind': 'proof', 'module': TIE_MODULE, 'translation': tr, 'problems': tie.problems,
                           'meaning': 'the scanner / finditer loop / Conversion.__init__ of the model are no longer proved equal to what was '
                                      'regenerated from the current lib/strformat/c.py (parse tree of _directive_re, translated decision code)'})
    chk.coverage['tie'] = {'module': TIE_MODULE, 'translator': 'tools/translate/cfmt2lean.py', 'translation': tr, 'checked': tie_ok,
                           'theorems': tie.theorems, 'problems': tie.problems[:8]}
    return tie_ok

# ------------------------------------------------------------------ input families

def stream_inputs(chk, n_single, n_multi, n_bad):
    rng = chk.rng
    fam = {}
    fam['boundary'] = G.boundary_strings()
    fam['context'] = G.context_strings()
    fam['single'] = G.singles(rng, n_single)
    multi = []
    for _ in range(n_multi):
        r = rng.random()
        multi.append(G.gen_numbered_perm(rng) if r < 0.25 else G.gen_string(rng))
    fam['multi'] = multi
    bad = []
    for _ in range(n_bad):
        r = rng.random()
        if r < 0.3:
            bad.append(G.gen_garbage(rng))
        else:
            s = rng.choice(multi) if multi and r < 0.8 else G.single(rng.randrange(G.n_single()))
            s = G.mutate(rng, s)
            if rng.random() < 0.3:
                s = G.mutate(rng, s)
            bad.append(s)
    fam['malformed'] = bad
    fam['regex'] = regex_samples(rng, max(2000, n_bad // 2))
    return fam

# ------------------------------------------------------------------ inputs drawn from the LIVE regex

def regex_samples(rng, n):
    """strings generated from the parse tree of the live `_directive_re` (random member of every class, random branch, repeats
    0..3 times) and one-edit neighbours of them: whatever the current pattern accepts — including anything a changed pattern
    accepts in addition — is represented, so a language extension shows up as an input the printf reference rejects.
    Also `%` + every near miss obtained by dropping one element of a sampled directive."""
    try:
        import re._parser as sp, re._constants as sc
        rx = M()._directive_re
        tree = sp.parse(rx.pattern, rx.flags)
    except Exception:
        return []
    def cls_member(av):
        neg = any(op is sc.NEGATE for op, _ in av)
        pool = []
        for op, a in av:
            if op is sc.LITERAL: pool.append(chr(a))
            elif op is sc.RANGE: pool += [chr(a[0]), chr(a[1]), chr(rng.randint(a[0], a[1]))]
            elif op is sc.CATEGORY:
                pool += {sc.CATEGORY_DIGIT: ['0', '7', '٣'], sc.CATEGORY_WORD: ['a', '_', 'é'], sc.CATEGORY_SPACE: [' ', '\n']}.get(a, ['x'])
        if neg:
            cands = [c for c in 'a b%d$*.<>0\n' if c not in pool]
            return rng.choice(cands) if cands else 'x'
        return rng.choice(pool) if pool else ''
    def gen(items):
        out = []
        for op, av in items:
            if op is sc.LITERAL: out.append(chr(av))
            elif op is sc.NOT_LITERAL: out.append(rng.choice([c for c in 'ab 1$' if ord(c) != av]))
            elif op is sc.IN: out.append(cls_member(av))
            elif op is sc.ANY: out.append(rng.choice('a%\n'))
            elif op is sc.BRANCH: out.append(gen(rng.choice(av[1])))
            elif op is sc.SUBPATTERN: out.append(gen(av[3]))
            elif op in (sc.MAX_REPEAT, sc.MIN_REPEAT):
                lo, hi, p = av
                k = lo + (rng.randint(0, 3) if hi is sc.MAXREPEAT else rng.randint(0, max(0, min(hi, lo + 3) - lo)))
                out.append(''.join(gen(p) for _ in range(k)))
            elif op is sc.AT: pass
            else: out.append('')
        return ''.join(out)
    res = []
    for _ in range(n):
        try:
            parts = [gen(tree) for _ in range(rng.choice((1, 1, 1, 2, 3)))]
        except Exception:
            break
        s = ''.join(parts)
        res.append(s)
        if s and rng.random() < 0.5:
            i = rng.randrange(len(s))
            res.append(s[:i] + s[i + 1:])                 # drop one character
        if s and rng.random() < 0.25:
            i = rng.randrange(len(s) + 1)
            res.append(s[:i] + rng.choice("0$*.hlLI%<>1 ") + s[i:])
    return res

def corpus():
    d = os.path.join(common.VERIF, 'corpus', 'C11')
    out = []
    if os.path.isdir(d):
        for f in sorted(os.listdir(d)):
            with open(os.path.join(d, f), encoding='utf-8', newline='') as fh:
                out.append(fh.read())
    return out

def run_stream(chk, fam):
    res = {}
    for name, strings in fam.items():
        lines = ['cfmt parse ' + hexchars(s) for s in strings]
        outs = [impl_parse(s) for s in strings]
        dis, _model = chk.stream('cfmt-' + name, lines, outs)
        res[name] = [strings[i] for i in dis]
        chk.note_cases({s for s, o in zip(strings, outs) if o.startswith('ok n=') and not o.startswith('ok n=0 ')})
    return res

def falsify(chk, strings, budget):
    """the property on the real code; returns (first genuine counterexample or None, tried, known-finding hits)"""
    tried = 0
    for s in strings:
        if tried >= budget:
            break
        tried += 1
        rep = check_property(s)
        if rep is None:
            continue
        key = rep.pop('key')
        if chk.violation(rep['kind'], rep, key=key):
            return rep, tried
    return None, tried
