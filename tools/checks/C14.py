#!/venv/bin/python
"""C14 — translations are flagged iff their format arguments disagree."""
import collections, json, os, shutil, sys, tempfile
sys.path.insert(0, os.path.join(os.path.dirname(os.path.abspath(__file__)), '..'))
import common

def main():
    chk = common.Check('C14')
    import fmtcheck_common as C
    proved = chk.prove('I18n.Props.C14', generated=('cfmt', 'pyfmt', 'tagsites', 'intexpr', 'grammar', 'fmtcheck', 'fmtargs', 'fmtmsg'), extra_targets=())
    # the tie: check_args x4 + get_last_integer_conversion regenerated from the current source and proved equal to the model (Props/C14Tie.lean)
    tie_ok = common.prove_tie(chk, 'I18n.Props.C14Tie', ('fmtargs',),
                              'the check_args / get_last_integer_conversion regenerated from the current lib/check/msgformat/*.py and lib/strformat/c.py are no '
                              'longer proved equal to the comparators of Model/FmtCheck.lean (generated_*_check_args_eq_model and their corollaries)')
    problems = ' '.join(chk.lean.problems)
    driver_ok = os.path.exists(common.driver_path()) and not any('untranslatable' in s for s in chk.lean.translation.values()) \
        and 'Driver' not in problems and 'I18n.Model' not in problems and 'I18n.Spec' not in problems
    # second part of the tie: check_message itself regenerated from lib/check/msgformat/__init__.py and proved equal to checkMessage (Props/C14MsgTie.lean)
    msg_tie_ok = common.prove_tie(chk, 'I18n.Props.C14MsgTie', ('fmtmsg',),
                                  'check_message regenerated from the current lib/check/msgformat/__init__.py is no longer proved equal to FmtCheck.checkMessage '
                                  '(generated_check_message_eq_model, generated_msg_check_formats_eq_model and their corollaries)') and tie_ok
    C.H.ready()
    rng = chk.rng
    boost = 3 if chk.broken else 1
    n_unit = (300000 if chk.thorough else 30000) * boost
    n_files = (15000 if chk.thorough else 900) * boost
    n_lastint = (80000 if chk.thorough else 8000) * boost
    per_file = 8

    stats = collections.Counter()
    found = {}

    def consider(r):
        if r is None:
            return
        cls = r['kind'] + ':' + r['format']
        size = len(json.dumps(r, default=str))
        if cls not in found or size < found[cls][0]:
            found[cls] = (size, r)

    # ---- unit level: _check_message_formats on synthetic ctx / message / flags
    cases = C.corpus_cases() + [C.gen_case(rng) for _ in range(n_unit)]
    lines, outs, runs = [], [], []
    slines, souts = [], []          # the brace kinds once more, as raw strings (the model parses them itself)
    for case in cases:
        out, calls = C.run_unit(case)
        runs.append((case, calls, out))
        outs.append(out)
        stats['kind:' + case['primary']] += 1
        stats['shape:' + ('plural' if case['msgid_plural'] is not None else 'plain')] += 1
        for name, _ in calls:
            stats['tag:' + name] += 1
        if out.startswith('err'):
            stats['outcome:' + out] += 1
        if driver_ok:
            try:
                lines.append(C.encode(case))
            except Exception as exc:                       # the harness' own calls into the real parser
                lines.append('fmtcheck bad-case')
                stats['encode-failed:' + type(exc).__name__] += 1
            if C.has_brace(case):
                try:
                    slines.append(C.encode(case, raw=True))
                    souts.append(out)
                except Exception as exc:
                    stats['encode-failed:' + type(exc).__name__] += 1
    if driver_ok:
        chk.stream('fmtcheck-unit', lines, outs)
        chk.stream('fmtcheck-unit-strings', slines, souts)
        ll, lo = C.lastint_cases(rng, n_lastint)
        chk.stream('fmtcheck-lastint', ll, lo)
        if tie_ok:          # the same inputs through the definitions regenerated from the source (driver ops grun / gruns / glastint)
            g = lambda ls: [l.replace('fmtcheck runs ', 'fmtcheck gruns ', 1).replace('fmtcheck run ', 'fmtcheck grun ', 1).replace('fmtcheck lastint ', 'fmtcheck glastint ', 1) for l in ls]
            chk.stream('fmtcheck-unit-generated', g(lines), outs)
            chk.stream('fmtcheck-unit-strings-generated', g(slines), souts)
            chk.stream('fmtcheck-lastint-generated', g(ll), lo)
        if msg_tie_ok:      # … and through the regenerated check_message over the regenerated check_args (driver ops mrun / mruns)
            gm = lambda ls: [l.replace('fmtcheck runs ', 'fmtcheck mruns ', 1).replace('fmtcheck run ', 'fmtcheck mrun ', 1) for l in ls]
            chk.stream('fmtcheck-unit-generated-msg', gm(lines), outs)
            chk.stream('fmtcheck-unit-strings-generated-msg', gm(slines), souts)
    else:
        chk.broken.append({'kind': 'correspondence', 'stream': 'fmtcheck-*', 'problem': 'driver could not be rebuilt from the regenerated model'})
    chk.note_cases({(c['primary'], c['msgid']['text'], c['msgstr']['text'], tuple(sorted((i, s['text']) for i, s in c['msgstr_plural'].items())))
                    for c, calls, out in runs if any(C.is_format_tag(n) for n, _ in calls)})

    # ---- end to end: PO files through Checker.check
    work = tempfile.mkdtemp(prefix='i18n-verif-c14.')
    e2e_runs = []
    try:
        lines, outs = [], []
        slines, souts = [], []
        for _ in range(n_files):
            fcases, pf, template, charset = C.gen_file(rng, per_file)
            fouts, per = C.run_e2e(fcases, pf, template, charset, work)
            info = C.plural_info(pf)
            stats['e2e-plural-forms:' + ('none' if info is None else 'unknown' if info == 'unknown' else 'clean')] += 1
            for j, (case, out) in enumerate(zip(fcases, fouts)):
                own = per[j] if isinstance(per, dict) else []
                e2e_runs.append((case, own, out, info))
                outs.append(out)
                if driver_ok:
                    lines.append(C.encode_e2e(case, pf))
                    if C.has_brace(case):
                        slines.append(C.encode_e2e(case, pf, raw=True))
                        souts.append(out)
        if driver_ok:
            chk.stream('fmtcheck-e2e', lines, outs)
            chk.stream('fmtcheck-e2e-strings', slines, souts)
            if tie_ok:
                chk.stream('fmtcheck-e2e-generated', g(lines), outs)
            if msg_tie_ok:
                chk.stream('fmtcheck-e2e-generated-msg', gm(lines), outs)
    finally:
        shutil.rmtree(work, ignore_errors=True)

    # ---- falsifier: the statement itself, over the signatures the strings were built to have, on the real code's tags
    checked = 0
    for case, calls, out in runs:
        r = C.check_case(case, calls, out)
        checked += 1
        consider(r)
        for key in C.classify(case):
            stats[key] += 1
    for case, calls, out, info in e2e_runs:
        r = C.check_case(case, calls, out, pf_info=info, e2e=True)
        checked += 1
        consider(r)
    chk.evaluations += checked
    chk.coverage['falsifier'] = {'runs_checked_against_reference_comparison': checked, 'violation_classes': sorted(found)}
    chk.coverage['distribution'] = dict(sorted(stats.items()))

    reported = False
    for cls, (_, r) in sorted(found.items()):
        if chk.violation(f'format argument diagnostics disagree with the signatures ({cls})', r, key='C14:' + cls):
            reported = True
    if not reported and chk.broken and not chk.violations:
        chk.violation('proof obligation or correspondence no longer checks', {'broken': chk.broken}, no_input=True)
    chk.finish(
        level='proof',
        rule='messages are built from a drawn signature per format kind (c / python / python-brace / perl-brace): msgid, msgid_plural, msgstr, msgstr[i] '
             'are independent renderings (unnumbered / numbered+shuffled / named+shuffled, repeated references) of the signature under a perturbation '
             '(same, drop last / first / any / two / the integer one, add, retype, respell same type, rename, renumber, switch named<->unnamed, toggle *, '
             'invalid); shapes plain / plural; unit level: synthetic ctx.plural_preimage (None, {}, missing keys, lists of 0..n elements incl. [1], '
             '[0,k], three elements, unsorted), range flags incl. empty and inverted, fuzzy, template, no charset, several format flags per message, '
             'flags without checker; end to end: PO files (8 messages each) with 27 Plural-Forms values (registry shapes, forms selected for one n, '
             '{0,k}, three n, outside the window, broken declarations) x range flags through Checker.check.  non-trivial = distinct message with at '
             'least one format tag',
        trusted=['Lean 4.33 kernel', 'axioms: propext, Classical.choice, Quot.sound only',
                 'translators cfmt2lean / pyfmt2lean (type tables), tagsites2lean (tag call inventory), intexpr2lean / grammar2lean (plural evaluators), fmtcheck2lean (probes of check_args and get_last_integer_conversion, re-computed by the model in the kernel)',
                 'the comparators check_args x4 and get_last_integer_conversion are tied by translation + proof: tools/translate/fmtargs2lean.py (over tools/translate/pytr; rules and '
                 'representation conventions in its docstring and DESIGN-notes/fmtcheck.md) and the kit lean/I18n/PyKit.lean are trusted; the regenerated definitions are PROVED equal to the model '
                 '(Props/C14Tie.lean) and are exercised against CPython by the *-generated streams; check_message is tied the same way (tools/translate/fmtmsg2lean.py, Props/C14MsgTie.lean, *-generated-msg streams); '
                 'check_string, check_msgids and the dispatch are hand-written: tied by the fmtcheck-* streams',
                 'the parsers: C and Python-% through the models of C11 / C12, python-brace and perl-brace through the models of C13 (their own streams); '
                 'the brace kinds are streamed both with the signature extracted from the real parser object and as raw strings',
                 'message_repr (prefix) is an input computed by calling the real function; single-string diagnostics are compared by name and prefix only',
                 'the reference comparison of the falsifier (tools/checks/fmtcheck_common.py: compare / check_case) over by-construction signatures'],
        explanation=EXPLANATION)

EXPLANATION = (
    'TIE (2): Generated/FmtMsg.lean is regenerated from the current lib/check/msgformat/__init__.py (check_message) on every run; Props/C14MsgTie.lean proves generated_check_message_eq_model '
    '(every back end, context, message, flags) and generated_msg_check_formats_eq_model, and restates plain_message / invalid_msgstr_error / message_tags / nocrash about the regenerated definition.  '
    'TIE: Generated/FmtArgs.lean is regenerated from the current lib/check/msgformat/{c,python,pybrace,perlbrace}.py (check_args) and lib/strformat/c.py (get_last_integer_conversion) on '
    'every run; Props/C14Tie.lean proves each regenerated function equal to the model for all inputs (generated_*_check_args_eq_model, generated_get_last_integer_conversion_eq_model, '
    'generated_check_formats_eq_model) and restates the args_tags_iff theorems about the regenerated definitions; a source change breaks a proof or the translation (coverage.tie) and starts the falsifier.  '
    'Proved in Lean (Props/C14.lean), for all inputs: c_args_tags_iff (for all valid printf item lists src, dst: excess / missing / type-mismatch '
    'tags are emitted iff the signatures of Spec.Printf differ in count / in the type at a common position, one type tag per such position, nothing '
    'else), c_same_signature_silent, c_reorder_silent (same arguments at the same types through numbered references in any order => no tag), '
    'last_int_conv_spec + c_tolerated_iff (get_last_integer_conversion(n) = c iff the last n arguments are used by conversion c only, its own value '
    'among them, and c is an integer conversion of the printf spec; no IndexError inside check_args), python_args_tags_iff / python_tolerated_iff / '
    'python_same_signature_silent (number-mismatch, positional and per-key type mismatch, unknown, missing iff; one missing all-int key tolerated), '
    'pybrace_args_tags_iff / pybrace_tolerated_iff / pybrace_same_signature_silent and perlbrace_* (over the parsed signatures), *_check_args_nocrash, '
    'message_tags / plain_message / invalid_msgstr_error / invalid_plural_form_error / invalid_msgid_silent (what check_message emits, generically in '
    'the kind), plural_form_is_compared / plural_form_plan (every parsed msgstr[i] with a preimage entry is compared; source = msgid iff the form is '
    'selected exactly for n = 1, else msgid_plural; omission tolerated only if the filtered preimage has at most one element or is [0, k]), '
    'omission_window (the preimage is the increasing list of n < 200 at which the declared expression evaluates to i, then filtered by the range flag), '
    'c/python/pybrace/perlbrace_check_message_nocrash (no exception leaves check_message, templates included), dispatch_unknown / dispatch_single, '
    'tag_sites_pin, probes_pin (kernel evaluation of the model on ~250 rows probed from the live check_args / get_last_integer_conversion each run).  Readings made explicit: the corresponding source of the form selected exactly for n = 1 is msgid (as the tags print and data/tags '
    'documents); "a single n" includes no n; the 200-window is part of the statement; python-brace identifies an argument by its full field name.  '
    'On strings for the brace kinds (composition with C13): brace_conversion_faithful, brace_signature_of_string, pybrace_args_tags_iff_strings, '
    'pybrace_reorder_silent, pybrace_reorder_silent_rendered (parse_renderPlain: renderings of brace-free text and plain fields are accepted with exactly the '
    'expected arguments), pybrace_plain_message_strings, pybrace_invalid_msgstr_error, perlbrace_args_tags_iff_strings, perlbrace_tolerated_iff_strings, '
    'perlbrace_reorder_silent, perlbrace_reorder_silent_rendered, perlbrace_invalid_msgstr_error, pybrace/perlbrace_check_message_nocrash_strings, '
    'string_probes_pin.  Also: c_plain_message_iff / python_plain_message_iff / pybrace_plain_message / perlbrace_plain_message (the first sentence of the statement as one '
    'theorem about check_message per kind), python_reorder_silent (same (key, type) pairs among the named specifications the scanner reads), '
    'c_reorder_silent_perm, perlbrace/pybrace/python/c_output_determined + output_lists_unique (sorted() emits keys in strictly increasing order - '
    'numbers before names for python-brace - so the whole output list, order included, is determined by the signatures).  '
    'Findings fixed in /repo: 56d8ddf (python-brace check_args raised TypeError when a numbered and a named argument were both missing), 4dd2807 (an object '
    'address in the python-brace-format-string-error line for msgstr {0:{}}; recorded under C03).  Test level only: '
    'the tie of the hand model to the code (fmtcheck-unit / -lastint / -e2e streams and their -strings twins that run the composed parser+comparator '
    'model on raw strings), the extras of single-string '
    'diagnostics beyond the prefix.  c_reorder_silent_numbered is the constructive form of reorder_silent: number every reference of an unnumbered '
    'valid string (numberDirs: 1$, 2$, ... in fetch order, * widths and precisions included), let dst be any valid string whose directives are '
    'those in some order => no tag.  OUTSTANDING: nothing of the design list is missing; template-only behaviour (msgid vs msgid_plural, python template tags, qt-plural) is '
    'modelled, streamed and covered by the nocrash theorems but has no iff theorem (the statement does not speak about templates).')

if __name__ == '__main__':
    common.main_wrapper(main)
