#!/venv/bin/python
"""Helper of tools/checks/C03.py, run in a process of its own:  c03_probe.py <REPO> <mode>   (JSON plan on stdin, JSON result on stdout)

mode driver   the REAL cli.check_all (sequential loop / ProcessPoolExecutor + check_file_s) around a STUB check_file that sleeps
              and prints a token: which tokens come out, in which order, for which job count and completion order.
mode cache    the REAL cli.check_all around a stub check_file that decodes texts through a REAL functools.lru_cache — keyed on all of its
              inputs (`full`) or on less (`lossy`): what the cache model of Model/CliState.lean says about functools.lru_cache
mode patch    a sequence of Checker.patch_environment() / Checker(...) calls in this fresh process: the once-flag
mode inproc   the REAL cli.main() with check_all called several times in ONE process (phases): same relative paths with other
              contents (the phase changes the working directory), other orders, other job counts; optional line trace of lib/.
"""
import io, json, os, sys, time, traceback

def load_cli(repo):
    sys.dont_write_bytecode = True
    sys.path.insert(0, repo)
    from lib import cli
    return cli

def canon(s):
    return s.encode('utf-8', 'backslashreplace').decode('utf-8')

def mode_driver(repo, plan):
    cli = load_cli(repo)
    import argparse
    def stub(path, *, options):
        tok, delay = path.rsplit('@', 1)
        time.sleep(int(delay) / 1000.0)
        print(tok)
    cli.check_file = stub
    out = []
    for case in plan['cases']:
        options = argparse.Namespace(jobs=case['jobs'], unpack_deb=False, ignore_tags=set(), fake_root=None, language=None, file_type=None, traceback=False)
        paths = [f'{t}@{d}' for t, d in zip(case['tokens'], case['delays'])]
        buf = io.StringIO()
        old = sys.stdout
        sys.stdout = buf
        err = None
        try:
            cli.check_all(paths, options=options)
        except BaseException as exc:      # a modified tree may do anything
            err = f'{type(exc).__name__}: {exc}'
        finally:
            sys.stdout = old
        out.append({'lines': buf.getvalue().split('\n')[:-1] if buf.getvalue().endswith('\n') else buf.getvalue().split('\n'), 'error': err})
    return {'cases': out}

def mode_cache(repo, plan):
    cli = load_cli(repo)
    import argparse, functools
    state = {'cs': None, 'mode': 'full'}
    @functools.lru_cache(maxsize=None)
    def dec_full(text, cs):
        return f'{cs}:{text}'
    @functools.lru_cache(maxsize=None)
    def dec_lossy(text):
        return f"{state['cs']}:{text}"      # depends on something that is not in the key
    def stub(path, *, options):
        cs, texts = path.split('/')
        state['cs'] = cs
        for t in texts.split('+'):
            print(dec_full(t, cs) if state['mode'] == 'full' else dec_lossy(t))
    cli.check_file = stub
    out = []
    for case in plan['cases']:
        dec_full.cache_clear()
        dec_lossy.cache_clear()
        state['mode'] = case['mode']
        options = argparse.Namespace(jobs=case['jobs'], unpack_deb=False, ignore_tags=set(), fake_root=None, language=None, file_type=None, traceback=False)
        buf = io.StringIO()
        old = sys.stdout
        sys.stdout = buf
        err = None
        try:
            cli.check_all(list(case['specs']), options=options)
        except BaseException as exc:
            err = f'{type(exc).__name__}: {exc}'
        finally:
            sys.stdout = old
        text = buf.getvalue()
        out.append({'lines': text.split('\n')[:-1] if text.endswith('\n') else text.split('\n'), 'error': err})
    return {'cases': out}

def mode_patch(repo, plan):
    cli = load_cli(repo)
    import argparse
    options = argparse.Namespace(jobs=1, unpack_deb=False, ignore_tags=set(), fake_root=None, language=None, file_type=None, traceback=False)
    out = []
    for op in plan['ops']:
        try:
            if op == 'p':
                cli.Checker.patch_environment()
            else:
                cli.Checker('x.po', options=options)
            out.append('ok')
        except BaseException as exc:
            out.append(type(exc).__name__)
    return {'outcomes': out}

def mode_inproc(repo, plan):
    cli = load_cli(repo)
    results = []
    lines = {}
    libdir = os.path.join(os.path.realpath(repo), 'lib') + os.sep
    def tracer(frame, event, arg):
        fn = frame.f_code.co_filename
        if not fn.startswith(libdir):
            return None
        rel = fn[len(libdir) - 4:]
        s = lines.setdefault(rel, set())
        def local(frame, event, arg):
            if event == 'line':
                s.add(frame.f_lineno)
            return local
        s.add(frame.f_lineno)
        return local
    real = cli.check_all
    def phases(paths, *, options):
        del paths
        for ph in plan['phases']:
            os.chdir(ph['cwd'])
            options.jobs = ph['jobs']
            buf = io.StringIO()
            old = sys.stdout
            sys.stdout = buf
            err = None
            if ph.get('trace'):
                sys.settrace(tracer)
            try:
                real(list(ph['files']), options=options)
            except BaseException as exc:
                err = f'{type(exc).__name__}: {exc}'
            finally:
                sys.settrace(None)
                sys.stdout = old
            results.append({'stdout': canon(buf.getvalue()), 'error': err})
    cli.check_all = phases
    sys.argv = ['i18nspector'] + list(plan.get('argv', [])) + ['placeholder.po']
    err = None
    try:
        cli.main()
    except SystemExit as exc:
        err = f'SystemExit({exc.code})' if exc.code else None
    except BaseException as exc:
        err = f'{type(exc).__name__}: {exc}'
    return {'phases': results, 'error': err, 'lines': {k: sorted(v) for k, v in lines.items()}}

def main():
    repo, mode = sys.argv[1], sys.argv[2]
    plan = json.load(sys.stdin)
    real_stdout = sys.stdout
    try:
        res = {'driver': mode_driver, 'cache': mode_cache, 'patch': mode_patch, 'inproc': mode_inproc}[mode](repo, plan)
    except BaseException:
        res = {'fatal': traceback.format_exc()[-2000:]}
    real_stdout.write(json.dumps(res))

if __name__ == '__main__':
    main()
