#!/venv/bin/python
"""C16 — message-level diagnostics match their documented conditions."""
import collections, json, os, subprocess, sys, tempfile, shutil
sys.path.insert(0, os.path.join(os.path.dirname(os.path.abspath(__file__)), '..'))
import common
from gen import msg as G

CORPUS = os.path.join(common.VERIF, 'corpus', 'C16')

def corpus():
    """[(name, [(ctx, entries), …])]: single files and file sequences"""
    out = []
    if os.path.isdir(CORPUS):
        for f in sorted(os.listdir(CORPUS)):
            if not f.endswith('.json'):
                continue
            d = json.load(open(os.path.join(CORPUS, f), encoding='utf-8'))
            files = d['files'] if 'files' in d else [d]
            out.append((f, [(x['ctx'], [G.E.from_dict(e) for e in x['entries']]) for x in files]))
    return out

def latin1(e):
    """the entry as read when UTF-8 bytes are decoded as ISO-8859-1"""
    def m(x):
        return None if x is None else x.encode('utf-8').decode('latin-1')
    return G.E(m(e.msgid), m(e.msgctxt), m(e.msgid_plural), m(e.msgstr), {k: m(v) for k, v in e.msgstr_plural.items()}, [m(f) for f in e.flags], e.obsolete,
               m(e.previous_msgctxt), m(e.previous_msgid), m(e.previous_msgid_plural), m(e.comment))

def tree_chars(pattern, flags=0):
    """every literal / range end point of the CURRENT regex tree (look-arounds included), and its neighbours"""
    import re._parser as P
    out = set()
    def walk(x):
        if isinstance(x, (list, tuple, P.SubPattern)):
            items = list(x)
            if len(items) == 2 and str(items[0]) in ('LITERAL', 'NOT_LITERAL') and isinstance(items[1], int):
                out.update((items[1] - 1, items[1], items[1] + 1))
            elif len(items) == 2 and str(items[0]) == 'RANGE':
                a, b = items[1]
                out.update((a - 1, a, b, b + 1))
            else:
                for y in items:
                    walk(y)
    try:
        walk(P.parse(pattern, flags))
    except Exception:
        pass
    return sorted(chr(c) for c in out if 0 <= c < 0x110000 and not 0xd800 <= c <= 0xdfff)

def directed_catalogs(rng, big):
    """one-message catalogs whose translation / flag / comment is a string directed at one of the four regexes, generated from the
    regex trees as they are NOW in /repo (so that a changed class changes the inputs)"""
    PO = {'is_template': False, 'is_binary': False, 'hidden': False, 'encoding': True}
    POT = dict(PO, is_template=True)
    out = []
    try:
        from lib import check, gettext
        uchars = tree_chars(check.find_unusual_characters.__self__.pattern) + ['a', '_']
        mchars = tree_chars(gettext.search_for_conflict_marker.__self__.pattern, gettext.search_for_conflict_marker.__self__.flags)
    except Exception:
        uchars, mchars = ['\x1b', '[', 'a', '\xbf'], ['#', '-', ' ']
    pairs = [a + b for a in uchars for b in uchars]
    if not big:
        pairs = rng.sample(pairs, min(len(pairs), 1500))
    for s in uchars + pairs:
        out.append((PO, [G.E('m', msgstr=s)]))
    k = 3000 if big else 400
    for s in G.marker_strings(rng, k)[: (20000 if big else 1500)]:
        out.append((PO, [G.E('m', msgstr=s)]))
    for c in mchars:
        out.append((PO, [G.E('m', msgstr='#-#-#-#-#  ' + c + '  #-#-#-#-#')]))
        out.append((PO, [G.E('m', msgstr='#-#-#-#-#  x  #-#-#-#-#' + c)]))
        out.append((PO, [G.E('m', msgstr=c + '#-#-#-#-#  x  #-#-#-#-#')]))
    for s in G.range_strings(rng, k)[: (20000 if big else 1500)]:
        out.append((PO, [G.E('m', msgid_plural='ms', msgstr=None, msgstr_plural={0: 'x', 1: 'y'}, flags=[s, rng.choice(['range:1..2', 'range:5..7', s])])]))
    for s in G.gate_strings(rng, k)[: (20000 if big else 1500)]:
        out.append((POT, [G.E('<b>x', msgstr='', comment=s)]))
    return out

def format_pair_catalogs(fmts):
    """EXHAUSTIVE: every unordered pair of positive format flags, every format alone and with each prefixed variant of itself; one
    single-message catalog each, so that a wrong row of the data table yields a minimal replay whichever format it concerns"""
    PO = {'is_template': False, 'is_binary': False, 'hidden': False, 'encoding': True}
    out = []
    for i, a in enumerate(fmts):
        out.append((PO, [G.E(a, msgstr='x', flags=[a + '-format'])]))
        for b in fmts[i + 1:]:
            out.append((PO, [G.E('m', msgstr='x', flags=[a + '-format', b + '-format'])]))
        for p, q in (('', 'no-'), ('', 'possible-'), ('', 'impossible-'), ('no-', 'possible-'), ('no-', 'impossible-'), ('possible-', 'impossible-')):
            out.append((PO, [G.E('m', msgstr='x', flags=[p + a + '-format', q + a + '-format'])]))
    return out

def case_json(ctx, entries):
    return {'ctx': ctx, 'entries': [e.as_dict() for e in entries]}

def replay_sequence(files):
    """run a sequence of catalogs through the real `check_messages` in ONE fresh process; canonical lines"""
    payload = json.dumps([case_json(c, es) for c, es in files])
    env = dict(os.environ)
    env['VERIF_REPO'] = common.REPO
    p = subprocess.run([common.PY, os.path.abspath(__file__), '--sequence'], input=payload, capture_output=True, text=True, timeout=300, env=env)
    if p.returncode != 0:
        return None
    return json.loads(p.stdout)

def sequence_main():
    import msg_common as M
    M.H.ready()
    files = json.load(sys.stdin)
    out = []
    for x in files:
        line, calls, tail = M.run_impl(x['ctx'], [G.E.from_dict(e) for e in x['entries']])
        out.append(line)
    json.dump(out, sys.stdout)

def main():
    chk = common.Check('C16')
    import msg_common as M
    proved = chk.prove('I18n.Props.C16', generated=('msg', 'unicode', 'tagregistry', 'msgchk'), extra_targets=())
    # the tie by translation: _check_message_flags regenerated from the current lib/check/__init__.py and proved equal to the model (Props/C16Tie.lean)
    tie_ok = common.prove_tie(chk, 'I18n.Props.C16Tie', ('msgchk',),
                              'Checker._check_message_flags regenerated from the current lib/check/__init__.py is no longer proved equal to '
                              'Msg.checkMessageFlags (generated_check_message_flags_eq_model and its corollaries), or the regenerated check_messages no longer agrees with the model on the witness files')
    problems = ' '.join(chk.lean.problems)
    driver_ok = os.path.exists(common.driver_path()) and not any('untranslatable' in s for s in chk.lean.translation.values()) \
        and 'Driver' not in problems and 'I18n.Model' not in problems and 'I18n.Generated' not in problems
    M.H.ready()
    rng = chk.rng
    big = chk.thorough
    boost = 3 if chk.broken else 1
    try:
        from lib import gettext
        formats = {k: frozenset(v) for k, v in gettext.string_formats.items()}
    except Exception:
        formats = {}
    # the falsifier's reference rules decide known formats and their compatibility with the HAND-MAINTAINED reference table
    # (Spec/StringFormatsRef.lean), not with the data file the tool (and the regenerated model) read
    ref_view = M.reference_view(formats)
    fmts = sorted(ref_view) or G.formats()

    # ---------------- inputs
    seeds = corpus()
    cases = [f for _, files in seeds for f in files]
    n_cat = (60000 if big else 7000) * boost
    cases += [G.gen_catalog(rng, fmts) for _ in range(n_cat)]
    cases += directed_catalogs(rng, big)
    cases += format_pair_catalogs(fmts)
    results = [M.run_impl(ctx, entries) for ctx, entries in cases]     # (line, attributed calls, tail)

    # ---------------- correspondence: real code vs Lean model
    dis_cases = []
    if driver_ok:
        lines = [M.check_line(ctx, entries) for ctx, entries in cases]
        outs = [r[0] for r in results]
        dis, _ = chk.stream('check-messages', lines, outs)
        # the same through check_messages REGENERATED from the source (Generated.MsgChk; runs that end in an exception are left out: the
        # regenerated method loses the emissions before it)
        gi = [i for i, o in enumerate(outs) if '!' not in o]
        chk.stream('check-messages-generated', [lines[i].replace('msg check ', 'msg gcheck ', 1) for i in gi], [outs[i] for i in gi])
        dis_cases = [cases[i] for i in dis]
        chk.note_cases(set(outs))
        hist = collections.Counter()
        for o in outs:
            for part in o[3:].split(';'):
                hist[part.split('(')[0]] += 1
        chk.coverage['check_messages_tag_histogram'] = dict(hist)
        chk.coverage['catalog_sizes'] = dict(collections.Counter(min(len(es), 9) for _, es in cases))
        # the reference rules themselves (Spec.MessageRules, evaluated by the driver) against the REAL code
        clean = [i for i, o in enumerate(outs) if '!' not in o]
        chk.stream('spec-vs-code', [lines[i].replace('msg check', 'msg spec', 1) for i in clean], [outs[i] for i in clean])
        # message_repr with the two templates (the model uses its closed form)
        reprs = [(rng.random() < 0.5, e.msgid, e.msgctxt) for _, es in cases[:3000] for e in es][:4000]
        reprs += [(c, m, x) for c in (False, True) for m in ('', 'a', 'a b', "it's", '"q"', '\x1b', 'é', '{}', '{0}', '{id}', 'a\nb', '\\') for x in (None, '', 'c', '{ctxt}', "c'")]
        chk.stream('message-repr', ['msg repr %d %s %s' % (1 if c else 0, M.hs(m), M.ho(x)) for c, m, x in reprs], [M.impl_repr(c, m, x) for c, m, x in reprs])
        # _check_message_flags alone, one entry per line (returned info + tags)
        flag_entries = [e for _, es in cases[:len(cases) // 2] for e in es if e.flags][: (60000 if big else 8000)]
        flag_entries += [G.E('m', msgid_plural=rng.choice([None, 'ms']), msgstr_plural={}, flags=G.gen_flags(rng, fmts)) for _ in range((30000 if big else 4000) * boost)]
        flag_lines, flag_outs = [M.flags_line(e) for e in flag_entries], [M.run_flags_impl(e) for e in flag_entries]
        chk.stream('check-message-flags', flag_lines, flag_outs)
        # the same through the regenerated method (an exception loses the emissions before it: `err crash`)
        chk.stream('check-message-flags-generated', [l.replace('msg flags ', 'msg gflags ', 1) for l in flag_lines],
                   ['err crash' if '!' in o else o for o in flag_outs])
        # the hand-modelled regexes
        k = (20000 if big else 1500) * boost
        for name, gen, impl in [('unusual', G.unusual_strings, M.impl_unusual), ('marker', G.marker_strings, M.impl_marker),
                                ('gate', G.gate_strings, M.impl_gate), ('range', G.range_strings, M.impl_range)]:
            ss = gen(rng, k, thorough=big)
            if name == 'range':
                ss = [s for s in ss if s.startswith('range:')]
            chk.stream('re-' + name, ['msg %s %s' % (name, M.hs(s)) for s in ss], [impl(s) for s in ss])
        # end to end: PO/POT files through Checker.check() (real loader, real header checks, real format checkers)
        e2e_n = (4000 if big else 500) * boost
        work = tempfile.mkdtemp(prefix='i18n-verif-c16.')
        try:
            e2e_dis = 0
            e2e_rt = 0
            others = collections.Counter()
            batch = []
            for i in range(e2e_n):
                ctx, entries = G.gen_catalog(rng, fmts)
                entries = [e for e in entries if G.writable(e)]
                for e in entries:       # what the loader yields: no msgstr attribute value for plural entries, '' for an empty singular one
                    e.msgstr = None if e.msgid_plural is not None else (e.msgstr or '')
                ctx = {'is_template': ctx['is_template'], 'is_binary': False, 'hidden': False, 'encoding': rng.random() < 0.85}
                name = 'f%d.%s' % (i, 'pot' if ctx['is_template'] else 'po')
                text = G.render_po(entries, with_header=ctx['encoding'])
                impl, other = M.run_e2e(work, name, text)
                if not ctx['encoding'] and not text.isascii():
                    # no charset declaration: the loader falls back to ISO-8859-1 (broken-encoding); the entries the checks see
                    entries = [latin1(e) for e in entries]
                ok = True
                if i % 5 == 0:
                    try:
                        loaded = [e for e in M.load_entries(os.path.join(work, name)) if not (e.msgid == '' and e.msgctxt is None)]
                        ok = [e.as_dict() for e in loaded] == [e.as_dict() for e in entries]
                    except Exception:
                        ok = False
                os.unlink(os.path.join(work, name))
                if not ok:
                    e2e_rt += 1
                    continue
                for o in other:
                    others[o] += 1
                batch.append((ctx, entries, impl, text))
            models = common.run_driver([M.check_line(ctx, entries) for ctx, entries, _, _ in batch])
            done = len(batch)
            for (ctx, entries, impl, text), model in zip(batch, models):
                mparts = sorted(p for p in model[3:].split(';') if p != '-' and not p.startswith('@format'))
                if mparts != impl:
                    e2e_dis += 1
                    dis_cases.append((ctx, entries))
                    if e2e_dis <= 3:
                        chk.broken.append({'kind': 'correspondence', 'stream': 'e2e-files', 'case': case_json(ctx, entries), 'file': text, 'impl': impl, 'model': mparts})
            chk.coverage['streams']['e2e-files'] = {'cases': done, 'disagreements': e2e_dis, 'outcomes': {'writer_roundtrip_mismatch_skipped': e2e_rt},
                                                    'other_tags_seen': dict(others.most_common(12))}
            chk.evaluations += done
        finally:
            shutil.rmtree(work, ignore_errors=True)
    else:
        chk.broken.append({'kind': 'correspondence', 'stream': 'msg-*', 'problem': 'driver could not be rebuilt from the regenerated model'})

    # ---------------- falsifier: the rules of the statement (Appendix B), independently implemented, against the real code
    from lib.check.msgrepr import message_repr
    from lib import encodings as encinfo
    def repr_of(e, colon):
        return str(message_repr(M.to_obj(e), template='{}:' if colon else '{}'))
    def xml_verdict(s):
        v = M.expat_verdict(s)
        if v == '~':
            return None
        if v == '!':
            return '<exception>'
        return ''.join(chr(int(h, 16)) for h in v[1:].split('.')) if v != 'e-' else ''
    def ctl_name(ch):
        n = M.char_name(ch)
        if n is None:
            try:
                n = encinfo.get_character_name(ch)
            except Exception:
                n = '?'
        return n
    def expected_of(ctx, entries):
        per, tail = M.ref_rules(ctx, entries, ref_view, repr_of, xml_verdict, ctl_name)
        return [sorted(tuple(str(x) for x in item) for item in out) for out in per], [tuple(t) for t in tail]
    def observed_of(calls, tail, n):
        per = [[] for _ in range(n)]
        rest = []
        for idx, name, extra in calls:
            if name == '@format':
                continue
            item = (name,) + tuple(str(x) for x in extra)
            if idx is None or idx >= n:
                rest.append(item)
            else:
                per[idx].append(item)
        return [sorted(p) for p in per], rest + [(t,) for t in tail]
    found = {}
    tried = 0
    def examine(ctx, entries, result, origin):
        nonlocal tried
        tried += 1
        line, calls, tail = result
        try:
            exp = expected_of(ctx, entries)
        except Exception as exc:
            return
        obs = observed_of(calls, tail, len(entries))
        if exp == obs:
            return
        # which tag differs (smallest symmetric difference first)
        diff = collections.Counter()
        for a, b in zip(exp[0] + [exp[1]], obs[0] + [obs[1]]):
            ca, cb = collections.Counter(a), collections.Counter(b)
            for item in (ca - cb):
                diff['missing:' + item[0]] += 1
            for item in (cb - ca):
                diff['unexpected:' + item[0]] += 1
        cls = sorted(diff)[0] if diff else 'order'
        size = sum(len(e.flags) + 1 for e in entries)
        if cls not in found or size < found[cls][0]:
            found[cls] = (size, ctx, entries, exp, obs, origin)
    for (ctx, entries), r in zip(cases, results):
        examine(ctx, entries, r, 'unit')
    if chk.broken:
        for _ in range(n_cat):
            ctx, entries = G.gen_catalog(rng, fmts)
            examine(ctx, entries, M.run_impl(ctx, entries), 'unit-extra')
    # no state may leak from one file to the next: the same catalog twice in a row must give the same answer twice
    leak = None
    probe = [c for c, r in zip(cases, results) if 'unusual-character' in r[0] or 'duplicate-message-definition' in r[0]][: (3000 if big else 300)]
    for ctx, entries in probe:
        a = M.run_impl(ctx, entries)[0]
        b = M.run_impl(ctx, entries)[0]
        tried += 1
        if a != b:
            leak = (ctx, entries, a, b)
            break
    chk.evaluations += tried
    chk.coverage['falsifier'] = {'catalogs_checked_against_reference_rules': tried, 'violation_classes': sorted(found), 'leak_probe_catalogs': len(probe)}

    reported = False
    for cls, (size, ctx, entries, exp, obs, origin) in sorted(found.items()):
        # confirm in a fresh process: alone, then twice in a row
        alone = replay_sequence([(ctx, entries)])
        twice = replay_sequence([(ctx, entries), (ctx, entries)])
        rep = {'kind': cls, 'file': case_json(ctx, entries), 'expected_per_entry': exp[0], 'expected_file_level': exp[1], 'observed_per_entry': obs[0],
               'observed_file_level': obs[1], 'po_text': G.render_po([e for e in entries if G.writable(e)], with_header=ctx['encoding']),
               'replay': 'VERIF_REPO=%s %s %s --sequence < (this file\'s "sequence" as JSON list)' % (common.REPO, common.PY, os.path.abspath(__file__))}
        rep['sequence'] = [case_json(ctx, entries)]
        if twice is not None and len(twice) == 2 and twice[0] != twice[1]:
            rep['kind'] = cls + ' (state leaks between files: the same catalog checked twice in one process answers differently)'
            rep['sequence'] = [case_json(ctx, entries)] * 2
            rep['observed_first'], rep['observed_second'] = twice
        elif alone is not None:
            rep['observed_alone'] = alone[0]
        if chk.violation(f'message diagnostics differ from the documented rules ({cls})', rep, key='C16:' + cls):
            reported = True
    if leak is not None and not found:
        ctx, entries, a, b = leak
        if chk.violation('state leaks between files', {'sequence': [case_json(ctx, entries)] * 2, 'observed_first': a, 'observed_second': b}, key='C16:leak'):
            reported = True
    if not reported and chk.broken and not chk.violations:
        chk.violation('proof obligation or correspondence no longer checks', {'broken': chk.broken}, no_input=True)
    chk.finish(
        level='proof',
        rule='catalogs from an entry grammar: 0-8 entries; msgid/msgctxt drawn from a pool (forces duplicates) incl. header-shaped and context-only-empty ids; plural shapes with '
             '1-4 forms (shuffled / gapped keys, empty forms, msgstr+msgstr[n], forms without msgid_plural); newline shapes on every string; flag lists of 0-9 flags from fuzzy / wrap / '
             'no-wrap / markdown-text / 45 range spellings (blanks, leading zeros, min>=max, Unicode digits, junk, 4400-digit numerals) / [no-|possible-|impossible-]<fmt>-format over '
             'data/string-formats / near-miss flags, with duplicates and directed conflicting / redundant pairs, plus EXHAUSTIVELY every pair of positive format flags and every format with each pair of its prefixed variants; obsolete, previous-msgid annotations; unusual characters (explained by '
             'msgid, reported earlier in the file, ESC[ and word+U+00BF contexts); conflict markers and near misses; `type: Content of:` comments and near misses with well- and ill-formed XML; '
             'x {po, pot} x {binary, hidden strings} x {charset usable or not}. non-trivial = distinct canonical outputs of check_messages',
        trusted=['Lean 4.33 kernel', 'axioms: propext, Classical.choice, Quot.sound only',
                 'tools/translate/msg2lean.py (regex trees -> data interpreted by the model; string-formats; probed character names)',
                 'hand-written model of check_messages / _check_message_flags / XML gate tied by the check-messages, check-message-flags, re-* and e2e-files streams',
                 'expat verdicts, tags._escape / message_repr (C02), the format checkers (C14: opaque dispatch stage) are inputs of the model',
                 'Spec.MessageRules is my reading of data/tags + DESIGN Appendix B; ref_rules (Python) is a second, independent reading used by the falsifier',
                 'Spec/StringFormatsRef.lean: HAND-MAINTAINED reference of the gettext format languages and their example directives (my reading of the gettext manual); data/string-formats is pinned against its compatibility relation, and the falsifier decides format conflicts with it'],
        explanation=EXPLANATION)

EXPLANATION = (
    'TIE BY TRANSLATION (Props/C16Tie.lean): Checker._check_message_flags is regenerated from the current source on every run (msgchk2lean.py) and proved equal, for all '
    'entries, to Msg.checkMessageFlags (generated_check_message_flags_eq_model, live_env_is_source, message_flags_eq_generated, check_message_flags_total_generated); the '
    'regenerated method also runs against the real code in the check-message-flags-generated stream. check_messages is regenerated as well; its equality with the model is '
    'OUTSTANDING for all inputs - discharged: kernel-evaluated equality with the model and the rule set on 15 witness files (…_on_witnesses, witnesses_cover_tags) and the '
    'check-messages-generated stream against the real code. '
    'Proved in Lean for ALL entry lists, contexts and sane environments (Props/C16.lean): message_tags_eq / check_messages_eq (the imperative model of check_messages with its '
    'accumulators msgid_counter and found_unusual_characters, of _check_message_flags and of the XML gate = the rule set Spec.MessageRules, per entry and file-level, with extras and order), '
    'message_flags_eq, trace_at, and one theorem per tag read off the rule set: duplicate_message_definition_iff, duplicate_message_definition_file_iff, empty_file_iff / empty_file_po_iff, translation_in_template_iff, '
    'inconsistent_leading_newlines_iff, inconsistent_trailing_newlines_iff (+ considered_mem), partially_translated_message_iff, conflict_marker_in_translation_iff, '
    'unusual_character_in_translation_iff (+ mem_reported, mem_seenBefore, mem_unusualTags, reported_sorted), stray_previous_msgid_iff, unknown_message_flag_iff (+ flag_kind_known), '
    'duplicate_message_flag_iff, conflicting_message_flags_iff, redundant_message_flag_iff, invalid_range_flag_iff, range_flag_without_plural_string_iff, malformed_xml_iff, malformed_xml_only_if, '
    'obsolete_exempt, header_entry_exempt, fuzzy_exemptions, clean_entry_silent, clean_catalog_silent, msg_nocrash, live_env_sane, live_message_tags; pins emitted_tags_pin, string_formats_compat_pin (+ positive_conflict_by_reference), prefixes_unambiguous, unusual_class_pin, '
    'unusual_class_documented, conflict_marker_pin, flag_syntax_pin, xml_gate_pin, checker_keys_pin. Test-level (correspondence, not proof): that the model IS the Python code (streams check-messages, '
    'check-message-flags, spec-vs-code, message-repr, re-unusual, re-marker, re-gate, re-range, e2e-files), expat, the format checkers behind the dispatch (C14), tags._escape inside message_repr (C02). '
    'Declarative readings of the scanners and flag shapes: duplicate_message_flag_decl_iff, conflict_marker_line_iff, lines_spec, range_flag_grammar, format_flag_shape_live, find_unusual_iff.')

if __name__ == '__main__':
    if len(sys.argv) > 1 and sys.argv[1] == '--sequence':
        common.setup_repo_import()
        sequence_main()
    else:
        common.main_wrapper(main)
