#!/venv/bin/python
"""C01 — every input file is handled without crash, hang or abnormal exit.

Proof side: Props/C01.lean (the exception-to-tag mapping of Checker.check and the run pipeline, composed with the
NoCrash / closed-error-set theorems of the component models).  Test side (what no model can exhibit: CPython's regex
engine time, third-party code, the OS): a crash- and hang-seeking end-to-end search on the REAL code, in-process
(`Checker.check`) and through the command line (`rc`, stderr, line grammar), plus a size-doubling timing stream."""
import collections, json, multiprocessing, os, re, shutil, sys, tempfile, time, traceback, unicodedata
sys.path.insert(0, os.path.join(os.path.dirname(os.path.abspath(__file__)), '..'))
import common
import e2e_common as E
import pipeline_common as P
import regex_screen as RX
from gen import hostile as HG
from gen import catalog as CAT
from gen import cfmt as GC
from gen import pyfmt as GP
from gen import pybrace as GB
from gen import sweep as SW

LINE_RE = re.compile(r'\A[EWIP]: [^\n]*\Z')
def _bad_class():
    """a character class of everything in categories Cc, Cf, Zl, Zp, Cs, as ranges"""
    out, start, prev = [], None, None
    for c in range(sys.maxunicode + 1):
        if unicodedata.category(chr(c)) in ('Cc', 'Cf', 'Zl', 'Zp', 'Cs'):
            if start is None:
                start = c
            prev = c
        elif start is not None:
            out.append((start, prev)); start = None
    if start is not None:
        out.append((start, prev))
    return '[' + ''.join('\\U%08x-\\U%08x' % r for r in out) + ']'
BAD_CHAR_RE = re.compile(_bad_class())     # what must never reach a terminal unescaped
HANG_S = 45            # wall seconds after which one file (≤ 256 KiB) counts as a hang (the slowest file of the unchanged tree needs ~2 s)
_worker = {}

def _init_worker():
    import checker_harness as H
    H.ready()
    _worker['H'] = H
    _worker['dir'] = tempfile.mkdtemp(prefix='i18n-verif-c01.')
    # a cache directory of its own (rply's table cache): the workers of this harness must not race with each other —
    # the race between the tool's OWN -j workers is what the fresh-cache command-line runs below look for
    os.environ['XDG_CACHE_HOME'] = os.path.join(_worker['dir'], '.cache')
    import atexit
    atexit.register(lambda: shutil.rmtree(_worker['dir'], ignore_errors=True))
    # TextIsScalar (Props/C01 §9): the Lean models hold text as `List Char`; note every loaded file that has a string outside
    # that type (lone surrogates from raw_unicode_escape / unicode_escape), so that it is counted and decided by the falsifier alone
    import polib
    def watch(fn):
        def loader(*a, **kw):
            f = fn(*a, **kw)
            try:
                _worker['nonscalar'] = file_not_scalar(f)
            except Exception:
                _worker['nonscalar'] = None
            return f
        return loader
    polib.pofile = watch(polib.pofile)
    polib.mofile = watch(polib.mofile)

SURROGATE_RE = re.compile('[\ud800-\udfff]')

def file_not_scalar(f):
    """does any string of a loaded polib file hold a code point that is not a Unicode scalar value?"""
    def bad(x):
        return isinstance(x, str) and SURROGATE_RE.search(x) is not None
    if bad(getattr(f, 'header', '')) or any(bad(k) or bad(v) for k, v in (getattr(f, 'metadata', None) or {}).items()):
        return True
    for e in f:
        for a in ('msgid', 'msgstr', 'msgctxt', 'msgid_plural', 'comment', 'tcomment', 'previous_msgid', 'previous_msgctxt', 'previous_msgid_plural'):
            if bad(getattr(e, a, None)):
                return True
        if any(bad(v) for v in (getattr(e, 'msgstr_plural', None) or {}).values()) or any(bad(x) for x in (getattr(e, 'flags', None) or ())):
            return True
    return False

def _site(tb):
    """innermost frame inside REPO/lib → 'lib/x.py:function'"""
    site = None
    for fr in traceback.extract_tb(tb):
        fn = os.path.abspath(fr.filename)
        if fn.startswith(os.path.join(common.REPO, 'lib') + os.sep):
            site = os.path.relpath(fn, common.REPO) + ':' + fr.name
    return site or 'outside-lib'

def rply_race_case(idx):
    """the first-use race of `-j N` workers on rply's cache directory, made deterministic: the directory appears between rply's
    `os.path.exists(cache_dir)` and its `os.makedirs(cache_dir)` (another worker has just created it)"""
    out = {'idx': idx, 'ntags': 0, 'cpu': 0}
    from lib import intexpr
    cache = tempfile.mkdtemp(prefix='i18n-verif-c01r.')
    saved_env = os.environ.get('XDG_CACHE_HOME')
    os.environ['XDG_CACHE_HOME'] = cache
    rdir = os.path.join(cache, 'rply')
    orig_exists = os.path.exists
    state = {'fired': False}
    def exists(p):
        if not state['fired'] and os.fspath(p) == rdir:
            state['fired'] = True
            os.makedirs(rdir, exist_ok=True)      # the other worker wins the race here
            return False
        return orig_exists(p)
    try:
        intexpr.create_lexer.cache_clear()
        intexpr.create_parser.cache_clear()
        os.path.exists = exists
        try:
            intexpr.Parser().parse('n != 1')
            out['kind'] = 'ok' if state['fired'] else 'ok'
            out['tags'] = ['rply-cache-race-simulated'] if state['fired'] else []
        except BaseException as exc:     # noqa
            out.update(kind='crash', exc=type(exc).__name__, site=_site(exc.__traceback__), msg=str(exc)[:200],
                       tb=''.join(traceback.format_exception(type(exc), exc, exc.__traceback__))[-1500:])
    finally:
        os.path.exists = orig_exists
        if saved_env is None:
            os.environ.pop('XDG_CACHE_HOME', None)
        else:
            os.environ['XDG_CACHE_HOME'] = saved_env
        intexpr.create_lexer.cache_clear()
        intexpr.create_parser.cache_clear()
        shutil.rmtree(cache, ignore_errors=True)
    return out

def run_case(case):
    """(index, data, ext, opts) → dict outcome; runs the real Checker.check in this worker process"""
    idx, data, ext, opts = case
    H = _worker['H']
    if opts.get('special') == 'rply-cache-race':
        return rply_race_case(idx)
    from lib import tags, ling
    sub = opts.get('subdir', '')
    d = os.path.join(_worker['dir'], sub if sub else 'plain')
    os.makedirs(d, exist_ok=True)
    path = os.path.join(d, opts.get('basename', 'f%d' % (idx % 7)) + ext)
    with open(path, 'wb') as f:
        f.write(data)
    kw = {}
    if opts.get('language'):
        try:
            lang = ling.parse_language(opts['language'])
            lang.fix_codes()
            lang.remove_encoding()
            lang.remove_nonlinguistic_modifier()
            kw['language'] = lang
        except Exception:
            pass
    if opts.get('file_type'):
        kw['file_type'] = opts['file_type']
    checker, calls = H.make_checker(path, **kw)
    out = {'idx': idx, 'ntags': 0}
    _worker['nonscalar'] = False
    t0 = time.process_time()
    import warnings, io, contextlib
    err = io.StringIO()
    try:
        with warnings.catch_warnings(record=True) as wlist, contextlib.redirect_stderr(err), contextlib.redirect_stdout(err):
            warnings.simplefilter('always')      # every occurrence, not once per location (workers see many files) …
            for cat in (DeprecationWarning, PendingDeprecationWarning, ImportWarning, ResourceWarning):
                warnings.simplefilter('ignore', cat)   # … minus the categories CPython hides by default outside __main__
            checker.check()
        if wlist or err.getvalue():
            w = '; '.join(f'{type(x.message).__name__}: {x.message}' for x in wlist)[:300] or err.getvalue()[:300]
            out.update(kind='crash', exc='stderr-output', site=(type(wlist[0].message).__name__ if wlist else 'print'), msg=w, tb='')
            return out
    except BaseException as exc:      # noqa: the whole point
        out.update(kind='crash', exc=type(exc).__name__, site=_site(exc.__traceback__), msg=str(exc)[:200],
                   tb=''.join(traceback.format_exception(type(exc), exc, exc.__traceback__))[-1500:])
        return out
    finally:
        out['cpu'] = time.process_time() - t0
        out['nonscalar'] = _worker.get('nonscalar')
        try:
            os.unlink(path)
        except OSError:
            pass
    out['ntags'] = len(calls)
    names = []
    for name, extra in calls:
        names.append(name)
        try:
            line = tags.get_tag(name).format('x' + ext, *extra, color=False)
        except BaseException as exc:
            out.update(kind='crash', exc=type(exc).__name__, site='tag.format:' + name, msg=str(exc)[:200], tb='')
            return out
        bad = (not LINE_RE.match(line)) or BAD_CHAR_RE.search(line) is not None
        if bad:
            out.update(kind='badline', line=line[:300], tag=name)
            return out
    out['kind'] = 'ok'
    out['tags'] = sorted(set(names))
    return out

def _worker_loop(conn):
    try:
        _init_worker()
    except BaseException as exc:     # noqa
        conn.send({'idx': -1, 'kind': 'worker-init-failed', 'msg': repr(exc)[:300]})
        return
    while True:
        try:
            case = conn.recv()
        except EOFError:
            return
        if case is None:
            return
        try:
            conn.send(run_case(case))
        except BaseException as exc:     # noqa
            try:
                conn.send({'idx': case[0], 'kind': 'crash', 'exc': 'HarnessError', 'site': 'harness', 'msg': repr(exc)[:200], 'tb': '', 'cpu': 0})
            except Exception:
                return

def run_cases(cases, workers, on_result, hang_s=None, max_hangs=3, depends=None):
    """run_case over the cases in `workers` child processes, one case at a time per child; a case that does not return within
    `hang_s` wall seconds is a hang: only its child is killed.  After `max_hangs` hangs the remaining cases are not run (reported
    to `on_result` as kind 'skipped').  `depends[idx] = idx of a smaller case`: a case is not run (kind 'hang', skipped_after=…)
    when the smaller one hung or needed more than a quarter of the limit."""
    import multiprocessing.connection as mpc
    hang_s = hang_s or HANG_S
    depends = depends or {}
    ctx = multiprocessing.get_context('fork')
    pending = collections.deque(cases)
    done = {}
    busy = {}        # conn -> (proc, case, t0)
    idle = []        # (proc, conn)
    hangs = 0
    def spawn():
        parent, child = ctx.Pipe()
        pr = ctx.Process(target=_worker_loop, args=(child,))
        pr.daemon = True
        pr.start()
        child.close()
        return pr, parent
    def finish(case, r):
        done[case[0]] = r
        on_result(r)
    try:
        while pending or busy:
            # hand out work
            postponed = 0
            while pending and (idle or len(busy) < workers) and postponed <= len(pending):
                case = pending.popleft()
                if hangs >= max_hangs:
                    finish(case, {'idx': case[0], 'kind': 'skipped', 'cpu': 0, 'ntags': 0})
                    continue
                dep = depends.get(case[0])
                if dep is not None:
                    if dep not in done:
                        pending.append(case)
                        postponed += 1
                        continue
                    d = done[dep]
                    if d['kind'] in ('hang', 'skipped') or d.get('cpu', 0) > hang_s / 4:
                        finish(case, {'idx': case[0], 'kind': 'hang', 'cpu': hang_s, 'ntags': 0, 'skipped_after': dep})
                        continue
                pr, conn = idle.pop() if idle else spawn()
                conn.send(case)
                busy[conn] = (pr, case, time.time())
            if not busy:
                if pending and postponed > len(pending):
                    # only cases waiting for cases that will never finish: cannot happen (dependencies are acyclic), but do not spin
                    case = pending.popleft()
                    finish(case, {'idx': case[0], 'kind': 'skipped', 'cpu': 0, 'ntags': 0})
                continue
            for conn in mpc.wait(list(busy), timeout=0.5):
                pr, case, t0 = busy.pop(conn)
                try:
                    r = conn.recv()
                except (EOFError, OSError):
                    r = {'idx': case[0], 'kind': 'crash', 'exc': 'WorkerDied', 'site': 'process', 'msg': 'the worker process died (exit code %r)' % (pr.exitcode,), 'tb': '', 'cpu': time.time() - t0}
                    finish(case, r)
                    continue
                if r.get('kind') == 'worker-init-failed':
                    raise common.Infra('worker could not import the tool: ' + r.get('msg', ''))
                finish(case, r)
                idle.append((pr, conn))
            now = time.time()
            for conn in list(busy):
                pr, case, t0 = busy[conn]
                if now - t0 > hang_s:
                    busy.pop(conn)
                    pr.terminate()
                    pr.join(2)
                    if pr.is_alive():
                        pr.kill()
                    conn.close()
                    hangs += 1
                    finish(case, {'idx': case[0], 'kind': 'hang', 'cpu': hang_s, 'ntags': 0})
    finally:
        for pr, conn in idle:
            try:
                conn.send(None)
            except Exception:
                pass
        for pr, conn in idle:
            pr.join(1)
            if pr.is_alive():
                pr.terminate()
        for conn, (pr, case, t0) in busy.items():
            pr.terminate()

def lang_ok(s):
    """would `-l s` be accepted?  (decided by the harness on the real ling module, only to know what to expect of the run)"""
    try:
        from lib import ling
        ling.parse_language(s).fix_codes()
        return True
    except Exception:
        return False

def make_opts(rng):
    o = {}
    r = rng.random()
    if r < 0.2:
        o['language'] = rng.choice(['pl', 'pl_PL', 'de', 'sr@latin', 'pt_BR', 'zh_TW', 'ja', 'en_GB.UTF-8', 'ca@valencia', 'pol', 'pl', 'de', 'zz', 'xx_YY!', 'POLISH', 'tlh'])
    if rng.random() < 0.12:
        o['file_type'] = rng.choice(['po', 'pot', 'mo', 'gmo'])
    r = rng.random()
    if r < 0.15:
        o['basename'] = rng.choice(['pl', 'de', 'pt_BR', 'sr@latin', 'xx', 'pl_PL.UTF-8', 'None', 'messages', 'django', 'pol', 'zh_Hant'])
    if rng.random() < 0.1:
        o['subdir'] = rng.choice(['pl/LC_MESSAGES', 'de_DE/LC_MESSAGES', 'xx/LC_MESSAGES', 'LC_MESSAGES', 'None/LC_MESSAGES', 'po', 'pl', 'sr@latin/LC_MESSAGES'])
    return o

def hexs(s):
    return '.'.join('%x' % ord(c) for c in s) if s else '-'

def route_scalar(chk, kind, strings):
    """TextIsScalar: the Lean text type is `List Char`; a string with a lone surrogate cannot cross the line protocol faithfully.
    Such strings (and a fixed set of them, so that the route is exercised on every run) go to the real check_string directly:
    no exception may leave it.  Returns the scalar strings for the correspondence."""
    scalar = [x for x in strings if not SURROGATE_RE.search(x)]
    odd = [x for x in strings if SURROGATE_RE.search(x)] + ['\ud800', 'a \udc00 b', '%\ud800', '%(\udfff)s', '{\ud800}', '{0:\udc00}', '{a\ud800}', '%1$\ud800d', '%d \ud800 %s']
    st = chk.coverage.setdefault('non_scalar_strings', {'note': 'strings with a lone surrogate: outside the Lean text type, decided on the real check_string alone', 'by_kind': {}})
    st['by_kind'][kind] = len(odd)
    for x in odd:
        out = P.impl_string(kind, x)
        chk.evaluations += 1
        if not out.endswith(' -'):
            chk.violation('check_string of the %s checker raised on a string with a lone surrogate' % kind,
                          {'kind': 'crash', 'checker': kind, 'string_codepoints': [hex(ord(c)) for c in x][:80], 'observed': out, 'expected': 'a tag or nothing; no exception'},
                          key='crash:nonscalar-string:' + kind)
    return scalar

def model_streams(chk, rng):
    """correspondence of the pipeline model with the real code (scripted collaborators): see pipeline_common.py"""
    big = chk.thorough
    try:
        if chk.lean is not None and any(v == 'changed' for v in chk.lean.translation.values()):
            with common.Lock():
                rc, log = common.lake_build(['driver'])
            if rc != 0:
                chk.broken.append({'kind': 'correspondence', 'stream': 'pipeline-*', 'problem': 'driver could not be rebuilt from the regenerated exception map'})
                return
        data = P.excmap_json()
        if data is None:
            chk.broken.append({'kind': 'correspondence', 'stream': 'pipeline-*', 'problem': 'exception map could not be extracted'})
            return
        with tempfile.TemporaryDirectory(prefix='i18n-verif-c01p.') as wd:
            lines, impl = P.dispatch_cases(data)
            chk.stream('pipeline-dispatch', lines, impl)
            lines = P.gen_check_lines(rng, 3000 if big else 900, data['classes'])
            chk.stream('pipeline-check', lines, [P.impl_check(l, wd) for l in lines])
            lines = [l for l in P.gen_main_lines(rng, 400 if big else 70)]
            impl = [P.impl_main(l) for l in lines]
            keep = [i for i, o in enumerate(impl) if o is not None]
            chk.stream('pipeline-main', [lines[i] for i in keep], [impl[i] for i in keep])
            lines = P.gen_file_lines(rng, 600 if big else 150)
            chk.stream('pipeline-file', lines, [P.impl_file(l, wd) for l in lines])
            n = 20000 if big else 2500
            cs = GC.boundary_strings() + GC.context_strings() + [GC.gen_string(rng) if rng.random() < 0.7 else GC.mutate(rng, GC.gen_string(rng)) for _ in range(n)] + HG.CFMT
            cs = [x for x in cs if x and len(x) < 3000]
            cs = route_scalar(chk, 'c', cs)
            chk.stream('pipeline-cstring', ['pipeline cstring ' + hexs(x) for x in cs], [P.impl_string('c', x) for x in cs])
            ps = GP.boundary_strings() + GP.context_strings() + [GP.gen_string(rng) if rng.random() < 0.7 else GP.mutate(rng, GP.gen_string(rng)) for _ in range(n)] + HG.PYFMT
            ps = [x for x in ps if x and len(x) < 3000]
            ps = route_scalar(chk, 'python', ps)
            chk.stream('pipeline-pystring', ['pipeline pystring ' + hexs(x) for x in ps], [P.impl_string('python', x) for x in ps])
            bs = GB.boundary_strings() + GB.fixed_singles() + [GB.gen_string(rng) if rng.random() < 0.6 else GB.mutate(rng, GB.gen_string(rng)) for _ in range(n)] + [GB.gen_clash(rng) for _ in range(n // 10)] + HG.BRACE
            bs = [x for x in bs if x and len(x) < 3000]
            bs = route_scalar(chk, 'python-brace', bs)
            chk.stream('pipeline-pybstring', ['pipeline pybstring ' + hexs(x) for x in bs], [P.impl_string('python-brace', x) for x in bs])
            qs = [GB.gen_perl(rng) for _ in range(n // 2)] + [GB.mutate(rng, GB.gen_perl(rng)) for _ in range(n // 4)] + HG.PERL
            qs = [x for x in qs if x and len(x) < 3000]
            qs = route_scalar(chk, 'perl-brace', qs)
            chk.stream('pipeline-perlstring', ['pipeline perlstring ' + hexs(x) for x in qs], [P.impl_string('perl-brace', x) for x in qs])
    except common.Infra:
        raise
    except Exception as exc:
        chk.broken.append({'kind': 'correspondence', 'stream': 'pipeline-*', 'problem': 'harness failed on the real code: %r' % (exc,)})

def main():
    chk = common.Check('C01')
    sect = {}
    chk.coverage['section_wall_s'] = sect
    # the exception map of the source, and every data table of /repo/data that a C01 obligation quantifies over (Props/C01 §8)
    chk.prove('I18n.Props.C01', generated=('excmap', 'pluralforms', 'tagregistry', 'tagsites', 'locale', 'charset', 'date', 'msg', 'checkload'))
    # the tie: the control flow of Checker.check regenerated from the current lib/check/__init__.py and proved equal to the model Check.check
    common.prove_tie(chk, 'I18n.Props.C01Tie', ('checkload',),
                     'the control flow of Checker.check (os.stat, extension dispatch, loader call and ISO-8859-1 retry, handlers, finally, stage order) regenerated from '
                     'the current lib/check/__init__.py is no longer proved equal to the model Check.check (generated_check_eq_model, stage_order_pin)',
                     extra_targets=())
    rng = chk.rng
    model_streams(chk, rng)
    mult = 3 if chk.broken else 1
    # regex screen: in a child process, collected in section 4
    rx_samples = [(HG._wrap('#. type: Content of: <para>\n' + HG._msg('c-format, range: 1..2', '<a>%d</a>', '<a>%d</a>') + HG._msg('python-brace-format', '{0:{1}}', '{0!r:>{1}}') +
                            HG._msg('perl-brace-format', '{a}', '{a}') + HG._msg('python-format', '%(a)s', '%(a)s'), extra_fields='X-Poedit-Language: Polish\n'), '.po'),
                  (b"# SOME DESCRIPTIVE TITLE.\n# Copyright (C) YEAR THE PACKAGE'S COPYRIGHT HOLDER\n" + HG._wrap(HG._msg('', 'a', 'b')), '.pot'), (HG._mo_n(2), '.mo')]
    rx = RX.Screen(rx_samples, limit_s=100 if chk.thorough else 70)
    n_files = (60000 if chk.thorough else 4000) * mult
    workers = 4

    sect['proof+model-streams'] = round(time.time() - chk.t0 - sum(sect.values()), 1)
    # ---------------------------------------------------------------- 1. in-process crash/hang search
    cases = []
    descr = {}
    # corpus first: recorded witnesses (fixed and open findings) and the project's own black-box files, mutated
    cdir = os.path.join(common.VERIF, 'corpus', 'C01')
    if os.path.isdir(cdir):
        for name in sorted(os.listdir(cdir)):
            with open(os.path.join(cdir, name), 'rb') as f:
                data = f.read()
            ext = os.path.splitext(name)[1]
            cases.append((len(cases), data, ext, {}))
            descr[len(cases) - 1] = 'corpus:' + name
    cases.append((len(cases), b'', '.po', {'special': 'rply-cache-race'}))
    descr[len(cases) - 1] = 'simulated race of two -j workers on rply\'s cache directory (the directory appears between exists() and makedirs())'
    # every row of every data table the tool trusts, every member of the character classes its code distinguishes (gen/sweep.py)
    try:
        sweep_cases, sweep_counts = SW.all_cases(rng, thorough=chk.thorough)
    except Exception as exc:        # a data table the loaded tool can no longer read is itself a finding of the e2e runs below
        sweep_cases, sweep_counts = [], {'error': repr(exc)[:300]}
        chk.broken.append({'kind': 'falsifier', 'problem': 'table sweep could not be generated from the loaded tool: %r' % (exc,)})
    for data, ext, opts, what in sweep_cases:
        cases.append((len(cases), data, ext, opts))
        descr[len(cases) - 1] = what
    n_fixed = len(cases)
    bb = CAT.corpus(common.REPO)
    for name, data in bb:
        if rng.random() < (1.0 if chk.thorough else 0.35):
            ext = os.path.splitext(name)[1]
            cases.append((len(cases), CAT.mutate_bytes(rng, data), ext, make_opts(rng)))
            descr[len(cases) - 1] = 'blackbox-mutant:' + name
    kinds = collections.Counter()
    while len(cases) < n_files + n_fixed:
        data, ext, kind = HG.gen_file(rng)
        kinds[kind] += 1
        cases.append((len(cases), data, ext, make_opts(rng)))
        descr[len(cases) - 1] = kind
    stats = collections.Counter()
    tagcount = collections.Counter()
    crashes = {}
    slow = []
    nonscalar = collections.Counter()
    def on_result(r):
        stats[r['kind']] += 1
        if r.get('nonscalar'):
            nonscalar[descr.get(r['idx'], '?').split(':')[0].split(' ')[0]] += 1
        for t in r.get('tags', ()):
            tagcount[t] += 1
        if r['kind'] in ('crash', 'badline', 'hang'):
            r.setdefault('exc', '?'); r.setdefault('site', '?')
            key = ('crash:%s:%s' % (r['exc'], r['site'].split(':')[0] if r['exc'] == 'RecursionError' else r['site'])) if r['kind'] == 'crash' else r['kind'] + ':' + r.get('tag', '?')
            crashes.setdefault(key, []).append(r)
        if r.get('cpu', 0) > 5:
            slow.append((r['cpu'], r['idx']))
    run_cases(cases, workers, on_result)
    chk.evaluations += len(cases)
    chk.note_cases(tagcount.keys())
    chk.coverage['in_process'] = {'files': len(cases), 'by_generator': dict(kinds), 'sweeps': sweep_counts,
                                  'loaded_text_not_scalar': {'files': sum(nonscalar.values()), 'by_source': dict(nonscalar), 'note': 'files with a lone surrogate in a loaded string: outside the List Char text '
                                                             'type of the Lean models (TextIsScalar, Props/C01 §9); decided by this search alone'}, 'outcomes': dict(stats), 'distinct_tags_emitted': len(tagcount),
                                  'tags_emitted': dict(tagcount.most_common()), 'slowest_cpu_s': sorted(slow, reverse=True)[:5],
                                  'size_bytes': {'max': max(len(c[1]) for c in cases), 'mean': sum(len(c[1]) for c in cases) // len(cases)}}
    for key, rs in crashes.items():
        r = min(rs, key=lambda r: len(cases[r['idx']][1]))
        idx = r['idx']
        data, ext, opts = cases[idx][1], cases[idx][2], cases[idx][3]
        rep = {'kind': r['kind'], 'generator': descr.get(idx), 'extension': ext, 'options': opts, 'file_hex' if len(data) > 4000 else 'file_repr': data.hex() if len(data) > 4000 else repr(data),
               'observed': {k: r.get(k) for k in ('exc', 'site', 'msg', 'tb', 'line', 'tag', 'cpu')}, 'count_in_this_run': len(rs),
               'expected': 'Checker.check returns normally, every problem a tag line of the grammar',
               'replay': 'write the bytes to a file with the extension and run /repo/i18nspector on it (options as given)'}
        chk.violation(f"{r['kind']} on a generated file ({key})", rep, key=key)

    sect['in-process'] = round(time.time() - chk.t0 - sum(sect.values()), 1)
    # ---------------------------------------------------------------- 2. the command line: rc, stderr, line grammar, options
    n_cli = (600 if chk.thorough else 90) * mult
    with E.Workdir() as wd:
        runs = []          # (args, description, expectation[, extra env]); expectation: 'ok' | 'usage' | ('ok', <tag that must appear>)
        good_po = HG._wrap(HG._msg('c-format', '%d file', '%d plik'))
        good_mo = HG._mo_n(2)
        nonascii_po = HG._wrap(HG._msg('', 'a', 'za\u017c\u00f3\u0142\u0107 \U0001f600\x07')).replace(b'Language: pl', b'Language: p\xc5\x82')
        wd.write('x.po', good_po); wd.write('x.pot', good_po); wd.write('x.mo', good_mo); wd.write('x.gmo', good_mo)
        wd.write('.po', good_po); wd.write('..po', good_po); wd.write('sub/.po', good_po); wd.write('nonascii.po', nonascii_po)
        wd.write('empty.po', b''); wd.write('empty.mo', b''); wd.write('empty.pot', b''); wd.write('noext', b'msgid ""\nmsgstr ""\n'); wd.write('x.txt', b'hello')
        wd.write('corrupt.deb', b'not an archive'); wd.write('bad.dsc', b'x'); wd.write('file.po', good_po)
        os.makedirs(os.path.join(wd.path, 'dir.po'))
        os.symlink('nowhere.po', os.path.join(wd.path, 'dangling.po'))
        os.symlink('loop.po', os.path.join(wd.path, 'loop.po'))
        wd.write('noperm.po', good_po); os.chmod(os.path.join(wd.path, 'noperm.po'), 0)
        os.makedirs(os.path.join(wd.path, 'noperm.d')); wd.write('noperm.d/x.po', good_po); os.chmod(os.path.join(wd.path, 'noperm.d'), 0)
        weird = os.fsdecode(b'pl\xff.po')
        with open(os.path.join(os.fsencode(wd.path), os.fsencode(weird)), 'wb') as f:
            f.write(good_po)
        root = (os.geteuid() == 0)
        runs += [
            (['nonexistent.po'], 'missing file', ('ok', 'os-error')), (['dir.po'], 'directory', 'ok'), (['dangling.po'], 'dangling symlink', ('ok', 'os-error')),
            (['loop.po'], 'symlink loop', ('ok', 'os-error')), (['file.po/x.po'], 'path through a regular file', ('ok', 'os-error')),
            (['noperm.po'], 'mode 000 file', 'ok' if root else ('ok', 'os-error')), (['noperm.d/x.po'], 'file in a mode 000 directory', 'ok' if root else ('ok', 'os-error')),
            (['a' * 300 + '.po'], 'name too long', ('ok', 'os-error')), ([weird], 'undecodable file name', 'ok'),
            (['empty.po'], 'empty', 'ok'), (['empty.mo'], 'empty', ('ok', 'invalid-mo-file')), (['empty.pot'], 'empty', 'ok'),
            (['noext'], 'no extension', ('ok', 'unknown-file-type')), (['x.txt'], 'other extension', ('ok', 'unknown-file-type')),
            (['-l', 'pl', 'x.po'], '-l', 'ok'), (['-l', 'pl_PL.UTF-8@euro', 'x.po'], '-l', 'ok'), (['--language', 'sr@latin', 'x.mo'], '-l', 'ok'), (['-l', 'de', 'x.po'], '-l other', ('ok', 'language-disparity')),
            (['-l', 'xx_INVALID!', 'x.po'], '-l invalid', 'usage'), (['-l', '', 'x.po'], '-l empty', 'usage'), (['-l', 'pl\n', 'x.po'], '-l with newline', 'usage'),
            (['-l', 'zz', 'x.po'], '-l unknown code', 'usage'), (['-l', '\udcff', 'x.po'], '-l undecodable', 'usage'),
            (['--file-type', 'po', '.po'], '--file-type po on a base name without extension', 'ok'), (['--file-type', 'po', '..po'], '--file-type', 'ok'),
            (['--file-type', 'po', 'sub/.po'], '--file-type', 'ok'), (['--file-type', 'pot', '.po'], '--file-type', 'ok'), (['--file-type', 'mo', '.po'], '--file-type', ('ok', 'invalid-mo-file')),
            (['--file-type', 'mo', 'x.po'], '--file-type mo on a PO file', ('ok', 'invalid-mo-file')), (['--file-type', 'po', 'x.mo'], '--file-type po on an MO file', 'ok'),
            (['--file-type', 'gmo', 'x.mo'], '--file-type', 'ok'), (['--file-type', 'pot', 'x.po'], '--file-type', 'ok'), (['--file-type', 'xyz', 'x.po'], '--file-type unknown', ('ok', 'unknown-file-type')),
            (['--file-type', '', 'x.po'], '--file-type empty', ('ok', 'unknown-file-type')), (['--file-type', 'po', 'x.txt'], '--file-type', 'ok'), (['--file-type', 'po', 'dir.po'], '--file-type on a directory', 'ok'), (['--file-type', 'mo', 'dir.po'], '--file-type mo on a directory', ('ok', 'os-error')),
            (['-j', '0', 'x.po'], '-j 0', 'usage'), (['-j', '-1', 'x.po'], '-j -1', 'usage'), (['-j', 'x', 'x.po'], '-j x', 'usage'), (['-j', 'auto', 'x.po', 'x.mo'], '-j auto', 'ok'),
            (['-j', '2', 'x.po'], '-j 2, one file', 'ok'), (['-j', '4', 'nonexistent.po', 'x.po', 'dir.po', 'x.mo', 'x.txt'], '-j 4 with unreadable files', ('ok', 'os-error')),
            (['-j', '2', '-l', 'pl', '--file-type', 'po', 'x.po', '.po', 'x.mo'], '-j 2 -l --file-type', 'ok'), (['--parallel', '2', 'x.po', 'x.mo'], '--parallel', 'ok'),
            (['--unpack-deb', 'corrupt.deb'], '--unpack-deb on a non-archive', ('ok', 'unknown-file-type')), (['--unpack-deb', 'bad.dsc'], '--unpack-deb on a non-dsc', ('ok', 'unknown-file-type')),
            (['--unpack-deb', 'missing.deb'], '--unpack-deb on a missing file', ('ok', 'os-error')), (['--unpack-deb', 'x.po', 'corrupt.deb'], '--unpack-deb', 'ok'), (['--unpack-deb', '-j', '2', 'corrupt.deb', 'x.po'], '--unpack-deb -j', 'ok'),
            (['nonascii.po'], 'non-ASCII tags, ASCII terminal', 'ok', {'LC_ALL': 'C', 'LANG': 'C'}), (['nonascii.po'], 'non-ASCII tags, PYTHONIOENCODING=ascii:strict', 'ok', {'PYTHONIOENCODING': 'ascii:strict'}),
            (['nonascii.po', weird], 'non-ASCII tags, latin-1 terminal', 'ok', {'PYTHONIOENCODING': 'iso-8859-1'}), (['-j', '2', 'nonascii.po', weird], 'non-ASCII tags, -j, ASCII terminal', 'ok', {'LC_ALL': 'C', 'PYTHONIOENCODING': 'ascii'}),
        ]
        # first use with -j: every worker builds the plural parser at the same moment; rply's on-disk cache does not exist yet
        for k in range(6):
            wd.write('race/p%d.po' % k, HG._wrap(HG._msg('', 'a%d' % k, 'b'), plural_forms='nplurals=2; plural=n != 1;'))
        for k in range(40 if chk.thorough else 12):
            runs.append((['-j', '6'] + ['race/p%d.po' % i for i in range(6)], '-j 6 with a fresh cache directory', 'ok', {'XDG_CACHE_HOME': os.path.join(wd.path, 'fresh-cache-%d' % k)}))
        # codec exotica through the real command line: stdout is a pipe; the terminal encodings that cannot take a surrogate
        exo = [c for c in cases if descr.get(c[0], '').startswith('exotica:')]
        exo_sur = [c for c in exo if 'surrogate' in descr[c[0]]]
        pick = rng.sample(exo_sur, min(len(exo_sur), 60 if chk.thorough else 24)) + rng.sample(exo, min(len(exo), 40 if chk.thorough else 12))
        for k, (idx, data, ext, opts) in enumerate(pick):
            name = 'exo/e%d%s' % (k, ext)
            wd.write(name, data)
            env = [None, {'PYTHONIOENCODING': 'utf-8:strict'}, {'LC_ALL': 'C', 'LANG': 'C'}, {'PYTHONIOENCODING': 'latin-1'}][k % 4]
            runs.append(([name], descr[idx], 'ok') + ((env,) if env else ()))
        if pick:
            runs.append((['-j', '2'] + ['exo/e%d%s' % (k, c[2]) for k, c in enumerate(pick[:6])], 'codec exotica, -j 2', 'ok'))
        n_special = len(runs)
        sample = rng.sample(cases, min(n_cli, len(cases)))
        for k, (idx, data, ext, opts) in enumerate(sample):
            sub = opts.get('subdir', 'd%d' % (k % 5))
            name = os.path.join(sub, opts.get('basename', 'f%d' % k) + ext)
            wd.write(name, data)
            args = []
            if opts.get('language'):
                args += ['-l', opts['language']]
            if opts.get('file_type'):
                args += ['--file-type', opts['file_type']]
            runs.append((args + [name], descr.get(idx), 'usage' if args[:1] == ['-l'] and not lang_ok(args[1]) else 'ok'))
        # multi-file and -j
        names = [r[0][-1] for r in runs[n_special:]]
        for j in (['1', '2', '4', 'auto'] if chk.thorough else ['2', '3']):
            fl = rng.sample(names, min(len(names), 6))
            runs.append((['-j', j] + fl, '-j ' + j, 'ok'))
        outs = E.parallel(lambda r: E.run_cli(r[0], wd.path, timeout=HANG_S * 2, extra_env=(r[3] if len(r) > 3 else None)), runs, workers=4)
        for d in ('noperm.d',):
            os.chmod(os.path.join(wd.path, d), 0o700)
        chk.evaluations += len(runs)
        cli_stats = collections.Counter()
        cli_kinds = collections.Counter()
        for run, r in zip(runs, outs):
            args, what, expect = run[0], run[1], run[2]
            must = None
            if isinstance(expect, tuple):
                expect, must = expect
            bad = None
            if r['timeout']:
                bad = 'hang'
            elif expect == 'usage':
                # a rejected option is not a "valid combination": argparse's usage error, status 2, nothing on stdout, no traceback
                if r['rc'] != 2 or 'Traceback' in r['stderr'] or not r['stderr'].startswith('usage:') or r['stdout']:
                    bad = 'rejected-option-not-a-usage-error'
            elif r['rc'] != 0:
                bad = 'exit-status-%s' % r['rc']
            elif r['stderr']:
                bad = 'stderr-not-empty'
            else:
                # no output at all is a legitimate result (a file without problems); otherwise every line is a tag line
                for line in ([] if r['stdout'] == '' else r['stdout'].split('\n')[:-1] if r['stdout'].endswith('\n') else r['stdout'].split('\n')):
                    if not LINE_RE.match(line) or any(unicodedata.category(c) in ('Cc', 'Cs') for c in line):
                        bad = 'line-grammar'
                        break
                if bad is None and must is not None and (' ' + must) not in r['stdout']:
                    bad = 'problem-not-reported-as-' + must
            cli_kinds[what.split(',')[0][:40] if len(run) > 2 and runs.index(run) < n_special else 'generated-file'] += 1
            cli_stats[bad or 'ok'] += 1
            if bad:
                m = re.search(r'^(\w+(?:\.\w+)*(?:Error|Exception|Interrupt|Exit)\w*)', r['stderr'].strip().splitlines()[-1] if r['stderr'].strip() else '', re.M)
                exc = m.group(1).split('.')[-1] if m else '?'
                # with -j the worker's traceback is quoted before 'The above exception was the direct cause …': the failing frame is there
                inner = r['stderr'].split('The above exception was the direct cause')[0]
                if m is None or 'RemoteTraceback' in r['stderr']:
                    m2 = re.findall(r'^(\w+(?:\.\w+)*(?:Error|Exception)\w*)', inner, re.M)
                    if m2:
                        exc = m2[-1].split('.')[-1]
                fr = re.findall(r'File "%s/(lib/[^"]+)", line \d+, in (\w+)' % re.escape(common.REPO), inner)
                site = (fr[-1][0] + ':' + fr[-1][1]) if fr else 'outside-lib'
                if exc == 'RecursionError':
                    site = site.split(':')[0]
                if exc == '?' and 'Warning' in r['stderr']:
                    mw = re.search(r'(\w+Warning)', r['stderr'])
                    exc, site = 'stderr-output', mw.group(1)
                key = f'crash:{exc}:{site}' if bad.startswith('exit') or bad == 'stderr-not-empty' else bad + ':cli'
                files = {}
                for a in args:
                    p = os.path.join(wd.path, a)
                    if os.path.isfile(p):
                        with open(p, 'rb') as f:
                            b = f.read()
                        files[a] = repr(b) if len(b) < 4000 else b.hex()
                chk.violation(f'command line run: {bad} ({what})', {'kind': bad, 'args': args, 'files': files, 'rc': r['rc'], 'stderr': r['stderr'][-1500:], 'stdout': r['stdout'][:500],
                                                                     'expected': 'exit status 0, empty stderr, only tag lines'}, key=key)
        chk.coverage['command_line'] = {'runs': len(runs), 'outcomes': dict(cli_stats), 'special_cases': n_special, 'by_case': dict(cli_kinds)}

    sect['command-line'] = round(time.time() - chk.t0 - sum(sect.values()), 1)
    # ---------------------------------------------------------------- 3. size doubling (time bounded by a low-degree polynomial)
    fam_stats = {}
    tcases = []
    tdeps = {}
    steps = 4 if chk.thorough else 3
    for name, (fn, ext, base) in sorted(HG.TIMING_FAMILIES.items()):
        for s in range(steps):
            n = base * 2 ** s
            try:
                data = fn(n)
            except Exception as exc:
                raise common.Infra(f'timing family {name} failed to generate: {exc!r}')
            if len(data) > 300000:
                break
            if s > 0 and name in fam_stats:
                tdeps[len(tcases)] = len(tcases) - 1
            tcases.append((len(tcases), data, ext, {'basename': 'pl'}))
            fam_stats.setdefault(name, []).append({'n': n, 'bytes': len(data)})
    tres = {}
    run_cases(tcases, 4, lambda r: tres.__setitem__(r['idx'], r), max_hangs=6, depends=tdeps)
    chk.evaluations += len(tcases)
    k = 0
    for name in sorted(fam_stats):
        pts = fam_stats[name]
        for p in pts:
            r = tres.get(k, {'kind': 'hang', 'cpu': HANG_S})
            p['cpu_s'] = round(r.get('cpu', 0), 3)
            p['outcome'] = r['kind']
            p['idx'] = k
            k += 1
        bad = None
        for a, b in zip(pts, pts[1:]):
            if b['outcome'] == 'hang':
                bad = ('hang', a, b)
                break
            if b['cpu_s'] > 1.5 and a['cpu_s'] > 0 and b['cpu_s'] / max(a['cpu_s'], 0.02) > 11.3:
                bad = ('superpolynomial-growth', a, b)
                break
        if pts and pts[0]['outcome'] == 'hang':
            bad = ('hang', pts[0], pts[0])
        if bad:
            idx = bad[2]['idx']
            data = tcases[idx][1]
            chk.violation(f'{bad[0]} in timing family {name}: {bad[1]["n"]} -> {bad[1]["cpu_s"]} s, {bad[2]["n"]} -> {bad[2]["cpu_s"]} s (doubling the size)',
                          {'kind': bad[0], 'family': name, 'points': pts, 'file_repr_prefix': repr(data[:600]), 'file_bytes': len(data),
                           'expected': 'CPU time bounded by a low-degree polynomial of the size (at most x11.3 per doubling once above 1.5 s; no run above %d s)' % HANG_S,
                           'replay': f'tools/gen/hostile.py TIMING_FAMILIES[{name!r}][0]({bad[2]["n"]}) written to pl{tcases[idx][2]}, then /repo/i18nspector on it'},
                          key=f'time:{name}')
    chk.coverage['timing'] = fam_stats

    sect['timing-families'] = round(time.time() - chk.t0 - sum(sect.values()), 1)
    # ---------------------------------------------------------------- 4. every regex reachable from lib.*: structural screen, pump strings, direct timing
    rxr = rx.result()
    pumps = []          # (description, function n -> string)
    if 'hang' in rxr or 'error' in rxr:
        if 'hang' in rxr:
            chk.violation('a regular expression of lib/ did not return within the time limit on a pump string', {'kind': 'regex-hang', 'in_progress': rxr['hang'],
                          'expected': 'matching time bounded by a low-degree polynomial of the subject length'}, key='time:regex-hang')
        else:
            chk.broken.append({'kind': 'falsifier', 'problem': 'regex screen failed: ' + rxr['error'][-400:]})
        chk.coverage['regex_screen'] = {k: str(v)[:300] for k, v in rxr.items()}
    else:
        flagged = []
        for e in rxr['screened']:
            m = e['measure']
            where = e['where'][0] if e['where'] else '?'
            flagged.append({'where': where, 'reason': e['reason'], 'pump': e['pump'][:60], 'exponent': m and m['exponent'], 'time_s': m and m['time_s']})
            pumps.append(('regex:%s#%d' % (where, e['hit_index']), (lambda n, e=e: RX.pump_for(e['pattern'], e['flags'], e['hit_index'], n, ' \x00'))))
            pumps.append(('regex:%s#%d:unclosed' % (where, e['hit_index']), (lambda n, e=e: RX.pump_for(e['pattern'], e['flags'], e['hit_index'], n, '')[:-1])))
            if m and m['exponent'] >= 3.0 and m['time_s'] >= 0.25:
                subject = RX.pump_for(e['pattern'], e['flags'], e['hit_index'], m['string_n'], m['killer'] if m['killer'] != '<truncated>' else '')
                if m['killer'] == '<truncated>':
                    subject = subject[:-1]
                rep = {'kind': 'regex-superlinear', 'pattern': e['pattern'], 'flags': e['flags'], 'where': e['where'], 'screen': e['reason'], 'measure': m,
                       'subject_repr': repr(subject[:300]), 'subject_length': len(subject),
                       'expected': 'matching time bounded by a low-degree polynomial of the subject length (measured growth exponent %.1f)' % m['exponent'],
                       'replay': 're.compile(pattern, flags).search/match/fullmatch/finditer on the subject; through the tool: see slot_run'}
                # through the tool: the same subject in every slot, a few sizes below the one that took the regex 0.3 s
                slot_cases = []
                for slot, data, ext in HG.slot_files(subject):
                    slot_cases.append((len(slot_cases), data, ext, {'basename': 'pl'}))
                sres = {}
                run_cases(slot_cases, 4, lambda r: sres.__setitem__(r['idx'], r), hang_s=15, max_hangs=2)
                chk.evaluations += len(slot_cases)
                worst = max(sres.values(), key=lambda r: r.get('cpu', 0)) if sres else None
                if worst is not None:
                    slot = HG.slot_files(subject)[worst['idx']]
                    rep['slot_run'] = {'slot': slot[0], 'extension': slot[2], 'outcome': worst['kind'], 'cpu_s': round(worst.get('cpu', 0), 3),
                                       'file_repr': repr(slot[1]) if len(slot[1]) < 4000 else slot[1].hex()}
                chk.violation(f"regular expression {where}: matching time grows like n^{m['exponent']} on a pump string ({m['time_s']} s at {len(subject)} characters)", rep,
                              key='time:regex:' + where)
        chk.coverage['regex_screen'] = {'patterns': rxr['patterns'], 'screened_repeats': len(rxr['screened']), 'flagged': flagged,
                                        'inventory': [(x['where'][0] if x['where'] else '?') for x in rxr['all']]}

    sect['regex-screen'] = round(time.time() - chk.t0 - sum(sect.values()), 1)
    # ---------------------------------------------------------------- 5. pump strings in every slot (two sizes)
    generic = [('a', lambda n: 'a' * n), ('%', lambda n: '%' * n), ('{', lambda n: '{' * n), ('<a>', lambda n: '<a>' * (n // 3)), ('backslash', lambda n: '\\' * n),
               ('@a.', lambda n: '@a.' * (n // 3)), ('0', lambda n: '0' * n), ('%1$s', lambda n: '%1$s' * (n // 4)), ('{0}', lambda n: '{0}' * (n // 3)), ('blank', lambda n: ' ' * n),
               ('a b', lambda n: 'a b ' * (n // 4)), ('{0[', lambda n: '{0' + '[a]' * (n // 3)), ('%(', lambda n: '%(' * (n // 2)), ('n+', lambda n: 'n+' * min(n // 2, 150) + 'n' + ' ' * n)]
    generic = [('(', lambda n: '(' * n), ('(x)', lambda n: 'a@b.c (' + '(x)' * (n // 3))] + generic
    if not chk.thorough:
        generic = generic[:3] + rng.sample(generic[3:], 1)
    sizes = (4000, 64000) if chk.thorough else (2000, 16000)
    sweep = []
    swdeps = {}
    for what, fn in generic + pumps:
        first = {}
        for n in sizes:
            try:
                subject = fn(n)
            except Exception:
                continue
            for slot, data, ext in HG.slot_files(subject):
                if n == sizes[0]:
                    first[slot] = len(sweep)
                elif slot in first:
                    swdeps[len(sweep)] = first[slot]
                sweep.append((len(sweep), data, ext, {'basename': 'pl'}, what, slot, n))
    swres = {}
    run_cases([c[:4] for c in sweep], 4, lambda r: swres.__setitem__(r['idx'], r), hang_s=30, max_hangs=4, depends=swdeps)
    chk.evaluations += len(sweep)
    by = {}
    for c in sweep:
        by.setdefault((c[4], c[5]), {})[c[6]] = swres.get(c[0], {'kind': 'hang', 'cpu': HANG_S})
    sweep_stats = collections.Counter()
    slowest = []
    for (what, slot), d in sorted(by.items()):
        small, large = d.get(sizes[0]), d.get(sizes[1])
        if small is None or large is None:
            continue
        for r, n in ((small, sizes[0]), (large, sizes[1])):
            sweep_stats[r['kind']] += 1
            if r['kind'] in ('crash', 'badline'):
                idx = [c[0] for c in sweep if (c[4], c[5], c[6]) == (what, slot, n)][0]
                key = ('crash:%s:%s' % (r['exc'], r['site'].split(':')[0] if r['exc'] == 'RecursionError' else r['site'])) if r['kind'] == 'crash' else 'badline:' + r.get('tag', '?')
                chk.violation(f"{r['kind']} with pump string {what!r} x{n} in slot {slot} ({key})",
                              {'kind': r['kind'], 'pump': what, 'slot': slot, 'n': n, 'extension': sweep[idx][2], 'file_hex': sweep[idx][1].hex() if len(sweep[idx][1]) < 40000 else sweep[idx][1][:40000].hex(),
                               'observed': {k: r.get(k) for k in ('exc', 'site', 'msg', 'tb', 'line', 'tag')}, 'expected': 'Checker.check returns normally'}, key=key)
        slowest.append((round(large.get('cpu', 0), 3), what, slot))
        ratio = large.get('cpu', 0) / max(small.get('cpu', 0), 0.02)
        degree = (ratio and (__import__('math').log(max(ratio, 1e-9)) / __import__('math').log(sizes[1] / sizes[0])))
        if large['kind'] == 'hang' or small['kind'] == 'hang' or (large.get('cpu', 0) > 1.5 and degree > 3.3):
            idx = [c[0] for c in sweep if (c[4], c[5], c[6]) == (what, slot, sizes[1])][0]
            kind = 'hang' if 'hang' in (large['kind'], small['kind']) else 'superpolynomial-growth'
            chk.violation(f'{kind}: pump string {what!r} in slot {slot}: {sizes[0]} -> {round(small.get("cpu", 0), 3)} s, {sizes[1]} -> {round(large.get("cpu", 0), 3)} s',
                          {'kind': kind, 'pump': what, 'slot': slot, 'sizes': sizes, 'cpu_s': [small.get('cpu'), large.get('cpu')], 'extension': sweep[idx][2],
                           'file_repr_prefix': repr(sweep[idx][1][:1500]), 'file_bytes': len(sweep[idx][1]),
                           'expected': 'CPU time bounded by a low-degree polynomial of the size (degree estimate above 3.3 over the two sizes, or no answer within %d s)' % HANG_S,
                           'replay': 'tools/gen/hostile.py slot_files(<pump string of the given size>) — the file of that slot written to pl<extension>, then /repo/i18nspector on it'},
                          key=f'time:slot:{what}:{slot}')
    chk.coverage['slot_sweep'] = {'pumps': [w for w, _ in generic + pumps], 'sizes': sizes, 'files': len(sweep), 'outcomes': dict(sweep_stats), 'slowest_cpu_s': sorted(slowest, reverse=True)[:6]}

    sect['slot-sweep'] = round(time.time() - chk.t0 - sum(sect.values()), 1)
    if chk.broken and not chk.violations:
        chk.violation('proof obligation no longer checks', {'broken': chk.broken}, no_input=True)
    chk.finish(
        level='proof',
        rule='in-process: corpus/C01 witnesses + codec-exotica sweep (every accepted codec that decodes ASCII bytes to surrogates / NUL / noncharacters / non-ASCII, each probe in 54 slots, PO and MO) + MO cut at every length + table sweeps (every row of data/languages x language sources, characters, iso codes, charsets, header fields, string formats, timezones, control characters, '
             'special domains, read from the loaded tool) + character-class sweeps (every str.isspace character as a line at 11 positions and as separator in 18 slots, every non-ASCII str.isdigit '
             'character in 17 numeric slots) + byte-mutated black-box corpus + slot-grammar files (header fields incl. X-Poedit-* and malformed names, flags, format strings of the four kinds, '
             'plural declarations with boundary numerals / 4300-4301 digits / nesting 3..1500, 130 charset names incl. the tool\'s own, non-ASCII-compatible and non-text codecs, bodies encoded in the '
             'declared or in a wide/stateful codec, dates, locale names, addresses with nested comments, XML-gated messages, PO lexical/structural shapes), MO files from a serializer (hostile headers, '
             'corrupted words, truncation), random bytes, other extensions x options (-l valid/invalid, --file-type, base name, LC_MESSAGES directory); command line: special cases (unreadable paths, '
             'options, -j, --unpack-deb, terminal encodings) + generated files; size-doubling families; regex screen with pump strings; pump strings in every slot at two sizes. '
             'distinct_nontrivial = distinct tags emitted by the in-process runs (a measured lower bound on the distinct behaviours reached)',
        trusted=['Lean 4.33 kernel', 'axioms: propext, Classical.choice, Quot.sound only',
                 'tools/translate/excmap2lean.py: ast walk over lib/, exception class expressions evaluated on the live modules; dispatch = first clause one of whose classes is in the MRO '
                 '(compared with issubclass on every try site x class pair: stream pipeline-dispatch)',
                 'Checker.check is tied by translation + proof: tools/translate/checkload2lean.py (symbolic execution of the method over the finite abstraction os.stat ok / extension class / '
                 'loader outcome kinds; class table of the handlers; tag arguments and local string computations not followed) is trusted, the regenerated function is PROVED equal to Check.check (Props/C01Tie.lean)',
                 'the models of Checker.check, cli.main/check_all/check_file/check_deb and check_string are compared with the REAL functions under scripted collaborators '
                 '(streams pipeline-check, -main, -file, -cstring, -pystring, -pybstring, -perlstring), not proved equal to them',
                 'component theorems used (C02, C04-C07, C09-C20) are tied to the source by their own checks, not re-tied here',
                 'TextIsScalar: the composed models hold text as List Char (no lone surrogates); loaded files outside that type are counted (coverage.in_process.loaded_text_not_scalar) and decided by the search alone',
                 'pipeline_nocrash_unconditional has no hypothesis about any loader or stage; it assumes, by name, facts about the world outside the checked file: WorldOk (plural registry = the shipped one, '
                 'kernel-checked clean by C07; C20\'s charset fragment total; expat raises only ExpatError; the format checkers get the message\'s own strings), Po.CodecsBehave (a codec the tool classified as '
                 'ASCII-compatible raises only UnicodeError; ISO-8859-1 decodes every byte string) and C09.Latin1OK; worldOk_live derives WorldOk for the generated tables from two third-party contracts',
                 'time, recursion depth, the regex engine, polib/rply/expat/iconv/email internals, the OS, -j process handling and terminal encodings are outside every model: decided by the search (test level)'],
        explanation='PARTIAL. PROOF (Props/C01.lean): exception closure of the modelled pipeline with the exception-to-tag mapping regenerated from the source on every run: pins strformat_errors_caught '
                    '(every own-Error subclass and every raised class of each strformat module is reported as that format\'s *-format-string-error and swallowed for msgids), warnings_caught, plural_errors_caught, '
                    'arithmetic_errors_caught, date_errors_caught, xml_errors_caught, charset_errors_caught, language_errors_caught, deb_errors_caught, check_sites_pin, loader_classification; '
                    'checkString_nocrash, cCheckString_nocrash/_error_tag, pyCheckString_nocrash/_error_tag (C11, C12), pybraceCheckString_nocrash/_error_tag, perlbraceCheckString_nocrash (C13 brace_error_own, perl_error_own); check_uncaught_iff, check_total, '
                    'loader_failure_lines, unreadable_is_tag, unknown_type_is_tag, broken_encoding_iff, mo_check_total, mo_load_agrees (C09), plurals_stage_total (C04-C07), dates_stage_total (C18), '
                    'language_stage_total (C19); main_rc_zero_iff, main_ok, main_invalid_language, runSeq/runPar_fails_iff, checkFile_ok; pipeline_nocrash (the composition law over abstract stages, hypotheses `Pending`), '
                    'pipeline_nocrash_unconditional (every Pending field discharged: loaders = C09 Mo.parse and C10 Po.load (Lemmas/PoNoCrash: closed outcome set), stages = C17\'s Meta.Real.pipeline with the models of '
                    'C15, C19, C04-C07, C20, C18, C16, C14 over the parsers of C11/C12/C13 (Lemmas/PipelineBrace, PipelineReal): status 0, empty stderr, only tag lines for every list of arguments incl. ARBITRARY '
                    'byte strings as MO/PO/POT, every accepted -l, every -j), real_mo_nocrash, real_po_nocrash, worldOk_live, pipeline_crash_visible, '
                    'line_is_tag_line (C02), recursion_budget; the encode step in front of expat and the TextIsScalar gap (check_fragment_sane, check_fragment_strict_refuted, xml_encode_site_pin, model_text_is_scalar, strict_encode_never_fails_on_model_text); the trusted data tables as obligations over Generated files regenerated by this check: registry_parses_strictly (C07 shipped_registry_clean), registry_language_nocrash, tags_registered, locale_tables_sane, charset_tables_sane, timezone_table_sane, message_tables_sane. OUTSTANDING: nothing about a stage; the world contracts named under trusted_base; any theorem about time; recursion depth (REFUTED on the real code: open finding '
                    'crash:RecursionError:lib/intexpr.py, plural expressions nested deeper than ~490, replayed from corpus/C01 on every run). '
                    'TEST (this run): %d in-process files, %d command-line runs, %d size-doubling families, %d regexes screened (%d repeats pumped), %d slot-sweep files. '
                    'FIXED by this check\'s findings in /repo: 4ff67ee, d16b49e, 875595a (+ recorded 2f85d76, 9de4551).'
                    % (len(cases), chk.coverage.get('command_line', {}).get('runs', 0), len(HG.TIMING_FAMILIES), chk.coverage.get('regex_screen', {}).get('patterns', 0),
                       chk.coverage.get('regex_screen', {}).get('screened_repeats', 0), chk.coverage.get('slot_sweep', {}).get('files', 0)))

if __name__ == '__main__':
    common.main_wrapper(main)
