"""The COMPOSED model against the real tool on whole files (stream `whole-files`).

For one file (path, bytes) and one option set (`-l`, `--file-type`):

* the REAL side: `lib.check.Checker(path, options).check()` in-process with a capturing `tag()`, every stage method wrapped
  so that each tag call carries the stage that made it (`misc.utc_now` pinned to `hdr_common.NOW`);
* the MODEL side: the driver op `whole check` (lean/I18n/Driver/Whole.lean) = `Real.wholeCheck`: loader model (C10 `Po` / C08 `Mo`)
  then `Real.pipeline`.  The library answers the stage models take as inputs are computed HERE by calling the libraries directly,
  with the encoders of the stage harnesses: codec facts (`po_common.oracle_for`, `mo_common.oracle_for`), difflib close matches /
  `email.utils.parseaddr` / `urlparse` / `str.lower` (`hdr_common`), expat verdicts (`msg_common.expat_verdict`), the clock
  (`hdr_common.NOW_US`).  Two answers depend on `ctx.language`, which `check_language` computes from the file: the language's
  characters with their encodability in the charsets of the Content-Type field (C20 fragment), and
  `language.get_plural_forms()`.  They cannot be precomputed without knowing the language, and taking the language from the
  real run would hand the model a stage's OUTPUT — so the driver is asked first (`… ?` → `lang=<str>`, the model's own
  `Locale.checkLanguage` on the model's own metadata), and the answers for THAT language are passed in the second call.

Which strings the tables are keyed by is taken from the entries the real loader produced (the header text is parsed with
`hdr_common.ref_parse_header`, the independent reference): a key the model asks for and the table lacks is answered with the
marker `<oracle-miss>`, which shows up as a disagreement — never silently.

Compared: the full sequence of tag calls — name, every extra (type and text), order — and whether an exception left `check()`.
Known abstractions of the models (applied to BOTH sides by `canon`): the five tags `check()` itself emits (`os-error`,
`unknown-file-type`, `invalid-mo-file`, `syntax-error-in-po-file`, `broken-encoding`) are compared by name (their extras quote OS /
loader messages no model carries); the single-string diagnostics of the format checkers (`fmtcheck_common.SINGLE_STRING_SUFFIXES`) are
compared by name and message prefix (C14 models them so).
"""
import argparse, collections, os, sys
sys.path.insert(0, os.path.join(os.path.dirname(os.path.abspath(__file__)), '..'))
import common
import checker_harness as H
import hdr_common as HD
import po_common as PO
import mo_common as MO
import msg_common as MS
import fmtcheck_common as FC

STAGES = ('check_comments', 'check_headers', 'check_language', 'check_plurals', 'check_mime', 'check_dates', 'check_project',
          'check_translator', 'check_messages')
CHECK_OWN = ('os-error', 'unknown-file-type', 'invalid-mo-file', 'syntax-error-in-po-file', 'broken-encoding')

hexs = HD.hexs

def hexo(s):
    return '~' if s is None else hexs(s)

# ----------------------------------------------------------------------------- the real side

def option_language(opt):
    """what cli.main() stores in options.language for `-l opt`: ('ok', Language | None) or ('invalid', reason)"""
    import locale_common as LC
    return LC.option_language(opt)

def canon_call(name, extra):
    if name in CHECK_OWN:
        extra = ()
    elif name.endswith(FC.SINGLE_STRING_SUFFIXES):
        extra = extra[:1]
    return name + '(' + ','.join(HD.canon_extra(x) for x in extra) + ')'

def real_run(path, lang_opt=None, file_type=None):
    """→ dict(lines=[canonical call], stages=[stage of each call | None], uncaught=0|1, exc=…, entries=[polib entries] | None,
    snapshot=[hdr_common entry dicts] | None, language=str | None)"""
    HD.M()
    from lib import check as K, misc
    kind, lang = option_language(lang_opt)
    if kind != 'ok':
        return {'lines': [], 'stages': [], 'uncaught': 0, 'exc': None, 'entries': None, 'snapshot': None, 'language': None,
                'cli_error': f'{kind}: {lang}'}
    calls = []
    info = {'entries': None, 'snapshot': None, 'language': None}
    stage = [None]
    class Cap(K.Checker):
        def tag(self, tagname, *extra):
            calls.append((stage[0], tagname, extra))
    def wrap(name):
        orig = getattr(K.Checker, name)
        def method(self, ctx, *a, **kw):
            stage[0] = name
            try:
                if info['entries'] is None:
                    try:
                        info['entries'] = list(ctx.file)
                        info['snapshot'] = HD.snapshot(ctx.file)
                    except Exception:
                        pass
                return orig(self, ctx, *a, **kw)
            finally:
                if name == 'check_language':
                    l = getattr(ctx, 'language', None)
                    info['language'] = None if l is None else str(l)
                stage[0] = None
        return method
    for name in STAGES:
        try:
            setattr(Cap, name, wrap(name))
        except AttributeError:
            pass
    options = argparse.Namespace(ignore_tags=set(), fake_root=None, file_type=file_type, language=lang, unpack_deb=False, jobs=1)
    saved = getattr(misc, 'utc_now', None)
    misc.utc_now = lambda: HD.NOW
    exc = None
    try:
        Cap(path, options=options).check()
    except BaseException as e:
        if isinstance(e, (KeyboardInterrupt, SystemExit)):
            raise
        exc = f'{type(e).__name__}: {e}'[:200]
    finally:
        misc.utc_now = saved
    return {'lines': [canon_call(n, x) for _s, n, x in calls], 'stages': [s for s, _n, _x in calls], 'uncaught': 1 if exc else 0, 'exc': exc,
            'entries': info['entries'], 'snapshot': info['snapshot'], 'language': info['language']}

def show_real(r):
    return (';'.join(r['lines']) or '-') + f" uncaught={r['uncaught']}"

# ----------------------------------------------------------------------------- the oracle answers

def is_binary_ext(path, file_type):
    ext = ('.' + file_type) if file_type is not None else os.path.splitext(path)[-1]
    return ext in ('.mo', '.gmo'), ext in ('.po', '.pot', '.mo', '.gmo')

def base_args(path, data, real, lang_opt=None, file_type=None, stat=True):
    """everything of the `whole check` line that does not depend on ctx.language → (list of tokens, skip reason | None)"""
    binary, known = is_binary_ext(path, file_type)
    skip = None
    po_or, mo_or = '-', '-'
    if known and stat:
        if binary:
            mo_or, sk = MO.oracle_for(data, 'ISO-8859-1')
            if sk:
                skip = 'mo-codec-family'
        else:
            po_or, sk = PO.oracle_for(data, 'ISO-8859-1', table_ok=False)
            if sk:
                skip = 'po-' + sk
    es = real['snapshot'] or []
    lines = HD.fields_of_case(es)
    a, s, l = HD.tables_for(lines)
    toks = []
    for t in MS.xml_tokens(real['entries'] or []):
        _x, k, v = t.split('=')
        toks.append(k + '=' + v)
    xml = ','.join(toks) or '_'
    args = [hexs(path), hexo(file_type), hexo(lang_opt), '1' if stat else '0', data.hex() or '-', po_or, mo_or, str(HD.NOW_US),
            HD.fuzzy_arg(es), HD.field_arg(es), a, s, l, xml]
    return args, skip, lines

def language_args(lines, lang_hex):
    """the answers that depend on the language the MODEL found (`lang=<hex|~>` of the first call)"""
    if lang_hex == '~':
        lang_str = None
    else:
        lang_str = ''.join(chr(int(h, 16)) for h in lang_hex.split('.')) if lang_hex != '-' else ''
    cs, encs = HD.charset_args(lines, lang_str)
    pf = 'N'
    if lang_str is not None:
        try:
            from lib import ling, tags
            lang = ling.parse_language(lang_str)
            correct = lang.get_plural_forms()
            if correct is not None:
                correct = list(correct)
                pf = ('+'.join(hexs(c) for c in correct) or '_') + '/' + ('+'.join(hexs(tags._escape(c)) for c in correct) or '_')
        except Exception:
            pf = 'N'
    return [lang_hex, cs, encs, pf]

# ----------------------------------------------------------------------------- one batch

def compare(chk, name, cases, workdir):
    """cases: [(relative path, bytes, lang_opt, file_type)] → list of results
    dict(case=…, real=…, model=<line> | None, skip=<reason> | None, agree=bool)"""
    prepared = []
    for rel, data, lang_opt, file_type in cases:
        path = os.path.join(workdir, rel)
        os.makedirs(os.path.dirname(path), exist_ok=True)
        with open(path, 'wb') as f:
            f.write(data)
        real = real_run(path, lang_opt, file_type)
        if real.get('cli_error'):
            prepared.append({'case': (rel, data, lang_opt, file_type), 'real': real, 'skip': 'cli-rejects-language', 'args': None})
            continue
        try:
            args, skip, lines = base_args(path, data, real, lang_opt, file_type)
        except BaseException as exc:
            if isinstance(exc, (KeyboardInterrupt, SystemExit)):
                raise
            args, skip, lines = None, 'oracle-failed:' + type(exc).__name__, []
        prepared.append({'case': (rel, data, lang_opt, file_type), 'real': real, 'skip': skip, 'args': args, 'lines': lines, 'path': path})
    todo = [p for p in prepared if p['skip'] is None]
    first = common.run_driver(['whole check ' + ' '.join(p['args']) + ' ?' for p in todo])
    second_lines = []
    for p, ans in zip(todo, first):
        if not ans.startswith('lang='):
            p['model'] = ans
            p['lang_model'] = None
            second_lines.append(None)
            continue
        p['lang_model'] = ans[5:]
        try:
            la = language_args(p['lines'], ans[5:])
        except BaseException as exc:
            if isinstance(exc, (KeyboardInterrupt, SystemExit)):
                raise
            p['skip'] = 'language-oracle-failed:' + type(exc).__name__
            second_lines.append(None)
            continue
        p['line'] = 'whole check ' + ' '.join(p['args'] + la)
        second_lines.append(p['line'])
    idx = [i for i, l in enumerate(second_lines) if l is not None]
    outs = common.run_driver([second_lines[i] for i in idx])
    for i, o in zip(idx, outs):
        todo[i]['model'] = o
    st = chk.coverage['streams'].setdefault(name, {'cases': 0, 'disagreements': 0, 'skipped': {}, 'outcomes': {}})
    for p in prepared:
        if p['skip'] is not None:
            st['skipped'][p['skip']] = st['skipped'].get(p['skip'], 0) + 1
            p['agree'] = True
            continue
        st['cases'] += 1
        chk.evaluations += 1
        want = show_real(p['real'])
        p['agree'] = (p.get('model') == want)
        key = 'uncaught' if p['real']['uncaught'] else ('loader-tag' if any(l.split('(')[0] in CHECK_OWN for l in p['real']['lines']) else 'stages')
        st['outcomes'][key] = st['outcomes'].get(key, 0) + 1
        if not p['agree']:
            st['disagreements'] += 1
    return prepared

def first_difference(p):
    """→ dict(index, real, model, stage): the first differing line and the stage that made the real one (or the model's origin)"""
    want = p['real']['lines']
    model = p.get('model') or ''
    body, _, tail = model.rpartition(' uncaught=')
    got = [] if body in ('-', '') else body.split(';')
    for i in range(max(len(want), len(got))):
        a = want[i] if i < len(want) else None
        b = got[i] if i < len(got) else None
        if a != b:
            stage = p['real']['stages'][i] if i < len(want) else None
            return {'index': i, 'real': a, 'model': b, 'stage_of_real_call': stage,
                    'previous_real_stage': p['real']['stages'][i - 1] if 0 < i <= len(want) else None}
    if tail != str(p['real']['uncaught']):
        return {'index': len(want), 'real': f"uncaught={p['real']['uncaught']} {p['real']['exc']}", 'model': 'uncaught=' + tail, 'stage_of_real_call': None}
    return None
