"""The COMPOSED model against the real tool on whole files (stream `whole-files`).

For one file (path, bytes) and one option set (`-l`, `--file-type`):

* the REAL side: `lib.check.Checker(path, options).check()` in-process with a capturing `tag()`, every stage method wrapped
  so that each tag call carries the stage that made it (`misc.utc_now` pinned to `hdr_common.NOW`);
* the MODEL side: the driver op `whole check` (lean/I18n/Driver/Whole.lean) = `Real.wholeCheck`: loader model (C10 `Po` / C08 `Mo`)
  then `Real.pipeline`.  The library answers the stage models take as inputs are computed HERE by calling the libraries directly,
  with the encoders of the stage harnesses: codec facts (`po_common.oracle_for`, `mo_common.oracle_for`), difflib close matches /
  `email.utils.parseaddr` / `urlparse` / `str.lower` (`hdr_common`), expat verdicts (`msg_common.expat_verdict`), the clock
  (`hdr_common.NOW_US`).  Two answers depend on `ctx.language`, which `check_language` computes from the file: the language's
  characters with their encodability in the charsets of the Content-Type field (C20 fragment), and
  `language.get_plural_forms()`.  They cannot be precomputed without knowing the language, and taking the language from the
  real run would hand the model a stage's OUTPUT — so the driver is asked first (`… ?` → `lang=<str>`, the model's own
  `Locale.checkLanguage` on the model's own metadata), and the answers for THAT language are passed in the second call.

Which strings the tables are keyed by is taken from the entries the real loader produced (the header text is parsed with
`hdr_common.ref_parse_header`, the independent reference): a key the model asks for and the table lacks is answered with the
marker `<oracle-miss>`, which shows up as a disagreement — never silently.

Compared: the full sequence of tag calls — name, every extra (type and text), order — and whether an exception left `check()`.
Known abstractions of the models (applied to BOTH sides by `canon`): the five tags `check()` itself emits (`os-error`,
`unknown-file-type`, `invalid-mo-file`, `syntax-error-in-po-file`, `broken-encoding`) are compared by name (their extras quote OS /
loader messages no model carries); the single-string diagnostics of the format checkers (`fmtcheck_common.SINGLE_STRING_SUFFIXES`) are
compared by name and message prefix (C14 models them so).
"""
import argparse, collections, os, sys
sys.path.insert(0, os.path.join(os.path.dirname(os.path.abspath(__file__)), '..'))
import common
import checker_harness as H
import hdr_common as HD
import po_common as PO
import mo_common as MO
import msg_common as MS
import fmtcheck_common as FC

STAGES = ('check_comments', 'check_headers', 'check_language', 'check_plurals', 'check_mime', 'check_dates', 'check_project',
          'check_translator', 'check_messages')
CHECK_OWN = ('os-error', 'unknown-file-type', 'invalid-mo-file', 'syntax-error-in-po-file', 'broken-encoding')

hexs = HD.hexs

def hexo(s):
    return '~' if s is None else hexs(s)

# ----------------------------------------------------------------------------- the real side

def option_language(opt):
    """what cli.main() stores in options.language for `-l opt`: ('ok', Language | None) or ('invalid', reason)"""
    import locale_common as LC
    return LC.option_language(opt)

def canon_call(name, extra):
    if name in CHECK_OWN:
        extra = ()
    elif name.endswith(FC.SINGLE_STRING_SUFFIXES):
        extra = extra[:1]
    return name + '(' + ','.join(HD.canon_extra(x) for x in extra) + ')'

def real_run(path, lang_opt=None, file_type=None):
    """→ dict(lines=[canonical call], stages=[stage of each call | None], uncaught=0|1, exc=…, entries=[polib entries] | None,
    snapshot=[hdr_common entry dicts] | None, language=str | None)"""
    HD.M()
    from lib import check as K, misc
    kind, lang = option_language(lang_opt)
    if kind != 'ok':
        return {'lines': [], 'stages': [], 'uncaught': 0, 'exc': None, 'entries': None, 'snapshot': None, 'language': None,
                'cli_error': f'{kind}: {lang}'}
    calls = []
    info = {'entries': None, 'snapshot': None, 'language': None}
    stage = [None]
    class Cap(K.Checker):
        def tag(self, tagname, *extra):
            calls.append((stage[0], tagname, extra))
    def wrap(name):
        orig = getattr(K.Checker, name)
        def method(self, ctx, *a, **kw):
            stage[0] = name
            try:
                if info['entries'] is None:
                    try:
                        info['entries'] = list(ctx.file)
                        info['snapshot'] = HD.snapshot(ctx.file)
                    except Exception:
                        pass
                return orig(self, ctx, *a, **kw)
            finally:
                if name == 'check_language':
                    l = getattr(ctx, 'language', None)
                    info['language'] = None if l is None else str(l)
                stage[0] = None
        return method
    for name in STAGES:
        try:
            setattr(Cap, name, wrap(name))
        except AttributeError:
            pass
    options = argparse.Namespace(ignore_tags=set(), fake_root=None, file_type=file_type, language=lang, unpack_deb=False, jobs=1)
    saved = getattr(misc, 'utc_now', None)
    misc.utc_now = lambda: HD.NOW
    exc = None
    try:
        Cap(path, options=options).check()
    except BaseException as e:
        if isinstance(e, (KeyboardInterrupt, SystemExit)):
            raise
        exc = f'{type(e).__name__}: {e}'[:200]
    finally:
        misc.utc_now = saved
    for st_, n_, _x in calls:
        if st_ is not None:
            NAME_STAGE.setdefault(n_, st_)
    return {'lines': [canon_call(n, x) for _s, n, x in calls], 'stages': [s for s, _n, _x in calls], 'uncaught': 1 if exc else 0, 'exc': exc,
            'entries': info['entries'], 'snapshot': info['snapshot'], 'language': info['language']}

def show_real(r):
    return (';'.join(r['lines']) or '-') + f" uncaught={r['uncaught']}"

# ----------------------------------------------------------------------------- the oracle answers

def is_binary_ext(path, file_type):
    ext = ('.' + file_type) if file_type is not None else os.path.splitext(path)[-1]
    return ext in ('.mo', '.gmo'), ext in ('.po', '.pot', '.mo', '.gmo')

def _table_oracle(oracle, chars):
    """replace the `q` (no decoder in the driver) entries of a PO oracle by a prefix-free table over `chars` — only for files whose
    text is known (generated here) to stay inside `chars`; → (oracle, all replaced?)"""
    items, ok = [], True
    for item in oracle.split(','):
        try:
            hn, compat, kind = item.split(':', 2)
        except ValueError:
            items.append(item)
            continue
        if kind != 'q':
            items.append(item)
            continue
        name = bytes.fromhex(hn).decode('ascii')
        try:
            probe = bytes(range(0x20, 0x7f))
            if compat != '1' or probe.decode(name) != probe.decode('ascii'):
                raise ValueError
            pairs = []
            for ch in sorted(chars):
                if ord(ch) < 128:
                    continue
                b = ch.encode(name)
                if b.decode(name) != ch or b[0] < 128:
                    raise ValueError
                pairs.append((b, ch))
            keys = [b for b, _ in pairs]
            if any(a != b and b.startswith(a) for a in keys for b in keys) or not pairs:
                raise ValueError
            items.append(f'{hn}:{compat}:k' + ';'.join(f'{b.hex()}={ord(ch):x}' for b, ch in pairs))
        except Exception:
            items.append(item)
            ok = False
    return ','.join(items), ok

def base_args(path, data, real, lang_opt=None, file_type=None, stat=True, known_chars=None):
    """everything of the `whole check` line that does not depend on ctx.language → (list of tokens, skip reason | None)"""
    binary, known = is_binary_ext(path, file_type)
    skip = None
    po_or, mo_or = '-', '-'
    if known and stat:
        if binary:
            mo_or, sk = MO.oracle_for(data, 'ISO-8859-1')
            if sk:
                skip = 'mo-codec-family'
        else:
            po_or, sk = PO.oracle_for(data, 'ISO-8859-1', table_ok=False)
            if sk in ('codec-family', 'codec-family-escape') and known_chars is not None:
                po_or, ok = _table_oracle(po_or, known_chars)
                if ok:
                    sk = None
            if sk:
                skip = 'po-' + sk
    es = real['snapshot'] or []
    lines = HD.fields_of_case(es)
    a, s, l = HD.tables_for(lines)
    toks = []
    for t in MS.xml_tokens(real['entries'] or []):
        _x, k, v = t.split('=')
        toks.append(k + '=' + v)
    xml = ','.join(toks) or '_'
    args = [hexs(path), hexo(file_type), hexo(lang_opt), '1' if stat else '0', data.hex() or '-', po_or, mo_or, str(HD.NOW_US),
            HD.fuzzy_arg(es), HD.field_arg(es), a, s, l, xml]
    return args, skip, lines

def language_args(lines, lang_hex):
    """the answers that depend on the language the MODEL found (`lang=<hex|~>` of the first call)"""
    if lang_hex == '~':
        lang_str = None
    else:
        lang_str = ''.join(chr(int(h, 16)) for h in lang_hex.split('.')) if lang_hex != '-' else ''
    cs, encs = HD.charset_args(lines, lang_str)
    pf = 'N'
    if lang_str is not None:
        try:
            from lib import ling, tags
            lang = ling.parse_language(lang_str)
            correct = lang.get_plural_forms()
            if correct is not None:
                correct = list(correct)
                pf = ('+'.join(hexs(c) for c in correct) or '_') + '/' + ('+'.join(hexs(tags._escape(c)) for c in correct) or '_')
        except Exception:
            pf = 'N'
    return [lang_hex, cs, encs, pf]

# ----------------------------------------------------------------------------- one batch

def compare(chk, name, cases, workdir):
    """cases: [(relative path, bytes, lang_opt, file_type)] → list of results
    dict(case=…, real=…, model=<line> | None, skip=<reason> | None, agree=bool)"""
    prepared = []
    for case in cases:
        rel, data, lang_opt, file_type = case[:4]
        known_chars = case[5] if len(case) > 5 else None
        path = os.path.join(workdir, rel)
        os.makedirs(os.path.dirname(path), exist_ok=True)
        missing = data is None
        if missing:
            data = b''
            if os.path.exists(path):
                os.unlink(path)
        else:
            with open(path, 'wb') as f:
                f.write(data)
        real = real_run(path, lang_opt, file_type)
        if real.get('cli_error'):
            prepared.append({'case': (rel, data, lang_opt, file_type), 'real': real, 'skip': 'cli-rejects-language', 'args': None})
            continue
        try:
            args, skip, lines = base_args(path, data, real, lang_opt, file_type, stat=not missing, known_chars=known_chars)
        except BaseException as exc:
            if isinstance(exc, (KeyboardInterrupt, SystemExit)):
                raise
            args, skip, lines = None, 'oracle-failed:' + type(exc).__name__, []
        prepared.append({'case': (rel, data, lang_opt, file_type), 'real': real, 'skip': skip, 'args': args, 'lines': lines, 'path': path})
    todo = [p for p in prepared if p['skip'] is None]
    first = common.run_driver(['whole check ' + ' '.join(p['args']) + ' ?' for p in todo])
    second_lines = []
    for p, ans in zip(todo, first):
        if not ans.startswith('lang='):
            p['model'] = ans
            p['lang_model'] = None
            second_lines.append(None)
            continue
        p['lang_model'] = ans[5:]
        try:
            la = language_args(p['lines'], ans[5:])
        except BaseException as exc:
            if isinstance(exc, (KeyboardInterrupt, SystemExit)):
                raise
            p['skip'] = 'language-oracle-failed:' + type(exc).__name__
            second_lines.append(None)
            continue
        p['line'] = 'whole check ' + ' '.join(p['args'] + la)
        second_lines.append(p['line'])
    idx = [i for i, l in enumerate(second_lines) if l is not None]
    outs = common.run_driver([second_lines[i] for i in idx])
    for i, o in zip(idx, outs):
        todo[i]['model'] = o
    st = chk.coverage['streams'].setdefault(name, {'cases': 0, 'disagreements': 0, 'skipped': {}, 'outcomes': {}})
    for p in prepared:
        if p['skip'] is not None:
            st['skipped'][p['skip']] = st['skipped'].get(p['skip'], 0) + 1
            p['agree'] = True
            continue
        st['cases'] += 1
        chk.evaluations += 1
        want = show_real(p['real'])
        p['agree'] = (p.get('model') == want)
        key = 'uncaught' if p['real']['uncaught'] else ('loader-tag' if any(l.split('(')[0] in CHECK_OWN for l in p['real']['lines']) else 'stages')
        st['outcomes'][key] = st['outcomes'].get(key, 0) + 1
        if not p['agree']:
            st['disagreements'] += 1
    return prepared

NAME_STAGE = {}          # tag name → the stage whose real calls carried it (learnt from the real runs of this process)

def _stage_rank(stage):
    return STAGES.index(stage) if stage in STAGES else (-1 if stage is None else len(STAGES))

def first_difference(p):
    """→ dict(index, real, model, stage): the first differing line and the stage that made the real one (or the model's origin)"""
    want = p['real']['lines']
    model = p.get('model') or ''
    body, _, tail = model.rpartition(' uncaught=')
    got = [] if body in ('-', '') else body.split(';')
    for i in range(max(len(want), len(got))):
        a = want[i] if i < len(want) else None
        b = got[i] if i < len(got) else None
        if a != b:
            stage = p['real']['stages'][i] if i < len(want) else None
            model_stage = NAME_STAGE.get(b.split('(')[0]) if b else None
            cands = [x for x in (stage if a is not None else None, model_stage) if x is not None]
            first = min(cands, key=_stage_rank) if cands else None
            if a is not None and stage is None:
                first = 'check (loader / file type)'
            return {'index': i, 'real': a, 'model': b, 'stage_of_real_call': stage, 'stage_of_model_line': model_stage, 'first_differing_stage': first,
                    'previous_real_stage': p['real']['stages'][i - 1] if 0 < i <= len(want) else None}
    if tail != str(p['real']['uncaught']):
        return {'index': len(want), 'real': f"uncaught={p['real']['uncaught']} {p['real']['exc']}", 'model': 'uncaught=' + tail, 'stage_of_real_call': None}
    return None

# ----------------------------------------------------------------------------- cases

LANG_OPTS = [None] * 7 + ['de', 'pl', 'pl_PL', 'sr@latin', 'en_US.UTF-8', 'pt_BR', 'zh_TW', 'de_AT', 'ja', 'ru', 'ca@valencia', 'xx']
PATHS = ['x', 'de', 'pl', 'gizmo', 'pl/LC_MESSAGES/gizmo', 'de/LC_MESSAGES/de', 'po/pl_PL', 'xx/LC_MESSAGES/x', 'a b/c', 'pl/x']

def gen_cases(rng, n, sources=('meta', 'catalog', 'hostile')):
    """[(relative path, bytes, -l value | None, --file-type | None, source)]"""
    from gen import meta as G, catalog as CAT, hostile as HO
    out = []
    k = 0
    while len(out) < n:
        k += 1
        src = rng.choice(sources)
        if src == 'meta':
            cat = G.gen_catalog(rng)
            css = G.charsets_for(cat)
            if not css:
                continue
            cs = rng.choice(css[:8]) if rng.random() < 0.8 else rng.choice(css)
            kind = rng.choice(['po', 'po', 'pot', 'mo', 'mo', 'gmo'])
            if kind in ('mo', 'gmo'):
                lay = G.gen_layout(rng)
                data = G.render_mo(cat, cs, lay)
            else:
                data = G.render_po(cat, cs, G.Style(rng, rng.choice([0, 1, 2])))
            ext = '.' + kind
        elif src == 'catalog':
            text, ext = CAT.gen_po(rng)
            data = text.encode('utf-8', 'surrogateescape')
            if rng.random() < 0.25:
                try:
                    import polib
                    tmp = '/dev/shm/whole-compile.%d' % os.getpid()
                    with open(tmp + '.po', 'wb') as f:
                        f.write(data)
                    polib.pofile(tmp + '.po').save_as_mofile(tmp + '.mo')
                    data, ext = open(tmp + '.mo', 'rb').read(), '.mo'
                except Exception:
                    pass
        else:
            data, ext, _what = HO.gen_file(rng)
            if len(data) > 20000:
                continue
        base = rng.choice(PATHS)
        r = rng.random()
        file_type = None
        if r < 0.2:
            # --file-type: agreeing with the extension, overriding it inside the PO family (po <-> pot: only is_template changes),
            # overriding it across families (a PO file read as MO and vice versa), or naming no known type
            conflict = {'.po': 'pot', '.pot': 'po', '.mo': 'gmo', '.gmo': 'mo'}
            q = rng.random()
            if q < 0.45 and ext in conflict:
                file_type = conflict[ext]
            elif q < 0.6:
                file_type = ext[1:] if ext[1:] in ('po', 'pot', 'mo', 'gmo') else 'po'
            elif q < 0.8:
                file_type = rng.choice(['po', 'pot', 'mo', 'gmo'])
                ext = rng.choice(['.po', '.pot', '.mo', '.txt', ''])
            else:
                file_type = rng.choice(['txt', 'PO', 'po~', ''])
        if rng.random() < 0.02:
            data = None            # the path does not exist: os.stat fails
        known = None
        if src == 'meta' and data is not None:
            known = set(''.join(G.all_strings(cat)))
        out.append((f'w{k}/{base}{ext}', data, rng.choice(LANG_OPTS), file_type, src, known))
    return out

# ----------------------------------------------------------------------------- shrinking and the stream

def _ddmin(items, still_bad, budget):
    """greedy chunk removal: the smallest sub-list (order kept) for which `still_bad` holds, within `budget` evaluations"""
    n = 2
    while len(items) >= 2 and budget[0] > 0:
        size = max(1, len(items) // n)
        removed = False
        for start in range(0, len(items), size):
            cand = items[:start] + items[start + size:]
            budget[0] -= 1
            if cand and still_bad(cand):
                items, n, removed = cand, max(n - 1, 2), True
                break
            if budget[0] <= 0:
                break
        if not removed:
            if size == 1:
                break
            n = min(len(items), n * 2)
    return items

def shrink(chk, case, workdir, budget=120):
    """a smaller file with the same kind of disagreement: PO files by physical lines, MO files by entries and header lines (rebuilt in
    the plainest layout); returns (bytes, first difference)"""
    rel, data, lang_opt, file_type = case[:4]
    counter = [0]
    def disagrees(d):
        counter[0] += 1
        r = compare(_Quiet(chk), 'shrink', [(f'shrink{counter[0]}/{os.path.basename(rel)}' if '/' not in rel else
                                             f'shrink{counter[0]}/' + rel.split('/', 1)[1], d, lang_opt, file_type)], workdir)[0]
        return (not r['agree']) and r['skip'] is None, r
    binary, _known = is_binary_ext(rel, file_type)
    b = [budget]
    best = data
    if not binary:
        lines = data.split(b'\n')
        lines = _ddmin(lines, lambda ls: disagrees(b'\n'.join(ls))[0], b)
        best = b'\n'.join(lines)
    else:
        try:
            from gen import mo as GM
            _hidden, kv = MO.ref_read_raw(data)
            lay = dict(be=False, major=0, minor=0, nsysdep=0, hash=0, order='ktp', pad=0, share=False, pool='kv', gap=0)
            def build(kvs):
                cat = []
                for k, v in kvs:
                    ctxt, msgid, plural, forms = MO.ref_entry(k, v)
                    cat.append((ctxt, msgid, plural, forms))
                return GM.serialize(cat, lay)
            if disagrees(build(kv))[0]:
                kv = _ddmin(kv, lambda x: disagrees(build(x))[0], b)
                if kv and kv[0][0] == b'':
                    hl = kv[0][1].split(b'\n')
                    hl = _ddmin(hl, lambda ls: disagrees(build([(b'', b'\n'.join(ls))] + kv[1:]))[0], b)
                    kv = [(b'', b'\n'.join(hl))] + kv[1:]
                best = build(kv)
        except Exception:
            pass
    bad, r = disagrees(best)
    if not bad:
        bad, r = disagrees(data)
        best = data
    return best, r

class _Quiet:
    """a stand-in for `common.Check` that keeps shrinking runs out of the evidence counters"""
    def __init__(self, chk):
        self.coverage = {'streams': {}}
        self.evaluations = 0

EXCLUDED = {
    'po-codec-family': "the file declares (or the retry needs) a charset the PO driver has no decoder for: ASCII, ISO-8859-1, UTF-8 and single-byte charmaps are decoded by "
                       "lean/I18n/Driver/Po.lean; a stateless multi-byte codec (EUC-JP, GB18030, Shift_JIS, …) is given as a table only for files generated here, whose "
                       "text is known; for other files, and for iconv-only / stateful codecs, the file is skipped",
    'po-codec-family-escape': 'the same, for escaped non-ASCII bytes that polib_unescape decodes in the declared charset',
    'po-lookup-raises': 'codecs.lookup itself raises for a declared name (embedded NUL …): outside the Po.Env oracle',
    'mo-codec-family': 'the same for lean/I18n/Driver/Mo.lean (ASCII, ISO-8859-1, UTF-8, single-byte charmaps)',
    'cli-rejects-language': "cli.main() rejects the -l value ('invalid language'): Checker.check is never reached",
    'recursion-limit': "the real run ended in RecursionError: the interpreter's stack budget is not modelled (open finding of C01, crash:RecursionError:lib/intexpr.py)",
}

_RUN = [0]

def stream(chk, work_root, rng, n, name='whole-files', sources=('meta', 'catalog', 'hostile'), max_report=3):
    """the `whole-files` stream.  → list of disagreements, each shrunk and attributed: dict(kind='whole-file', file_hex, path, options,
    first_difference{index, real, model, stage_of_real_call}, real, model, replay).  Exported for C01 / C03: `whole_common.stream(chk, dir, rng, n)`."""
    cases = gen_cases(rng, n, sources)
    _RUN[0] += 1
    cases = [(f'run{_RUN[0]}/' + c[0],) + c[1:] for c in cases]
    res = compare(chk, name, [c[:4] + (None, c[5]) for c in cases], work_root)
    st = chk.coverage['streams'][name]
    # the one documented gap between model and interpreter
    for p in res:
        if p['skip'] is None and not p['agree'] and (p['real']['exc'] or '').startswith('RecursionError'):
            p['agree'], p['skip'] = True, 'recursion-limit'
            st['disagreements'] -= 1
            st['cases'] -= 1
            st['skipped']['recursion-limit'] = st['skipped'].get('recursion-limit', 0) + 1
    st.setdefault('sources', {})
    st.setdefault('tag_calls_compared', 0)
    st.setdefault('calls_by_stage', {})
    for p, c in zip(res, cases):
        if p['skip'] is None:
            st['sources'][c[4]] = st['sources'].get(c[4], 0) + 1
            st['tag_calls_compared'] += len(p['real']['lines'])
            for s in p['real']['stages']:
                st['calls_by_stage'][s or 'check'] = st['calls_by_stage'].get(s or 'check', 0) + 1
    st['excluded_because'] = {k: EXCLUDED.get(k, k) for k in st['skipped']}
    found = []
    for p, c in zip(res, cases):
        if p['agree'] or p['skip'] is not None:
            continue
        if len(found) >= max_report:
            break
        data, r = shrink(chk, c, work_root)
        d = first_difference(r)
        found.append({'kind': 'whole-file', 'path': r['case'][0].split('/', 1)[-1], 'options': {'language': c[2], 'file_type': c[3]}, 'source': c[4],
                      'file_hex': data.hex(), 'file_text': data.decode('latin1')[:2000], 'original_size': len(c[1]), 'shrunk_size': len(data),
                      'first_difference': d, 'first_differing_stage': (d or {}).get('first_differing_stage') or (d or {}).get('stage_of_real_call') or (d or {}).get('previous_real_stage'),
                      'real': show_real(r['real'])[:3000], 'model': (r.get('model') or '')[:3000],
                      'replay': 'write bytes.fromhex(file_hex) to <dir>/<path>; run lib.check.Checker(<that path>, options).check() with a capturing tag() '
                                '(tools/checks/whole_common.real_run) and `whole check` of the Lean driver on the line whole_common.compare builds'})
        chk.broken.append({'kind': 'correspondence', 'stream': name, 'line': (r.get('line') or '')[:600], 'impl': show_real(r['real'])[:300], 'model': (r.get('model') or '')[:300]})
    return found
