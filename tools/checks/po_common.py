"""Correspondence streams and real-code falsifiers for C10 (the PO loader: polib 1.2.0 + lib/polib4us.py patches)."""
import codecs, os, re, shutil, sys, tempfile, warnings, io, contextlib
sys.path.insert(0, os.path.join(os.path.dirname(os.path.abspath(__file__)), '..'))
import common
from gen import po as G

common.setup_repo_import()

_tmp = tempfile.mkdtemp(prefix='i18n-verif-po.', dir='/dev/shm' if os.path.isdir('/dev/shm') else None)
import atexit
atexit.register(lambda: shutil.rmtree(_tmp, ignore_errors=True))
_path = os.path.join(_tmp, 'x.po')

_env = {}
def env():
    """the real modules, with the tool's environment set up the way the CLI does (extra codecs, polib patches)"""
    if not _env:
        from lib import check as lc, encodings as le, polib4us
        import polib
        try:
            lc.Checker.patch_environment()
        except Exception as exc:          # a modified tree may break this; the streams then report crashes
            _env['patch_error'] = repr(exc)
        _env.update(encodings=le, check=lc, polib=polib, polib4us=polib4us)
    return _env

def hexchars(s):
    return '.'.join(format(ord(c), 'x') for c in s) if s else '-'

def opt(s):
    return '~' if s is None else hexchars(s)

def show_list(xs):
    xs = list(xs)
    return f'{len(xs)}:' + '/'.join(xs)

# ----------------------------------------------------------------------------- canonical form of a loaded file

def canon_entry(e):
    sp = e.msgstr_plural
    keys = list(sp.keys())
    occ = []
    for o in e.occurrences:
        a, b = o
        occ.append(f'{hexchars(a)}@{hexchars(b)}')
    tr = e.translated()
    return (f'c={opt(e.msgctxt)} i={hexchars(e.msgid)} p={opt(e.msgid_plural)} s={opt(e.msgstr)} '
            f'x={show_list(f"{int(k)}={hexchars(sp[k])}" for k in keys)} o={1 if e.obsolete else 0} '
            f'f={show_list(hexchars(f) for f in e.flags)} r={show_list(occ)} '
            f'e={hexchars(e.comment)} t={hexchars(e.tcomment)} pc={opt(e.previous_msgctxt)} pm={opt(e.previous_msgid)} '
            f'pp={opt(e.previous_msgid_plural)} l={e.linenum} tr={1 if tr else 0}')

def canon_file(f):
    ents = list(f)
    return f'ok h={hexchars(f.header)} n={len(ents)}' + ''.join(' | ' + canon_entry(e) for e in ents)

_syn = re.compile(r'Syntax error in po file (.*)\(line ([0-9]+)\)(?:: (.*))?\Z', re.S)

def canon_error(exc):
    if isinstance(exc, UnicodeDecodeError):
        return 'err decode'
    if isinstance(exc, OSError) and exc.errno is None:
        m = _syn.match(str(exc))
        if m and m.group(1) in ('', _path + ' '):
            msg = m.group(3)
            if msg is None:
                k = 'plain'
            elif msg == 'unescaped double quote found':
                k = 'unescaped-quote'
            elif msg == 'invalid continuation line':
                k = 'invalid-continuation'
            elif msg.startswith('unknown keyword '):
                k = 'unknown-keyword:' + hexchars(msg[len('unknown keyword '):])
            else:
                k = 'other:' + hexchars(msg)
            return f'err syntax {int(m.group(2))} {k}'
    return 'err crash ' + type(exc).__name__

# every call into the real loader code made by THIS process, in order (C10: the result of a load must not depend on it)
_history = []

def real_load(data, encoding=None, record=True):
    """→ ('ok', POFile, stderr text) | ('err', exception, stderr text); warnings are made visible as stderr text"""
    if record:
        _history.append({'op': 'load', 'hex': data.hex(), 'enc': encoding})
    P = env()['polib']
    with open(_path, 'wb') as f:
        f.write(data)
    err = io.StringIO()
    try:
        with contextlib.redirect_stderr(err), warnings.catch_warnings():
            warnings.simplefilter('always')
            warnings.showwarning = lambda m, c, fn, ln, file=None, line=None: err.write(f'{c.__name__}: {m}\n')
            inst = P.pofile(_path) if encoding is None else P.pofile(_path, encoding=encoding)
    except BaseException as exc:
        if isinstance(exc, (KeyboardInterrupt, SystemExit)):
            raise
        return 'err', exc, err.getvalue()
    return 'ok', inst, err.getvalue()

def impl_load(data, encoding=None):
    kind, v, _stderr = real_load(data, encoding)
    if kind == 'ok':
        try:
            return canon_file(v)
        except Exception as exc:
            return 'err crash-canon ' + type(exc).__name__
    return canon_error(v)

def impl_check(data, record=True, want_file=False):
    """the loading phase of the real Checker.check: broken-encoding retry"""
    if record:
        _history.append({'op': 'check', 'hex': data.hex()})
    E = env()
    import argparse
    with open(_path, 'wb') as f:
        f.write(data)
    tags = []
    got = {}
    class _Stop(Exception):
        pass
    class C(E['check'].Checker):
        def tag(self, tagname, *extra):
            tags.append(tagname)
        def check_comments(self, ctx):
            got['file'] = ctx.file
            raise _Stop
    opts = argparse.Namespace(fake_root=None, file_type=None, language=None, unpack_deb=False, ignore_tags=set())
    try:
        C(_path, options=opts).check()
    except _Stop:
        pass
    except BaseException as exc:
        if isinstance(exc, (KeyboardInterrupt, SystemExit)):
            raise
        return f'uncaught {canon_error(exc)}'
    broken = 1 if 'broken-encoding' in tags else 0
    if 'file' in got:
        try:
            if want_file:
                return f'broken={broken} ' + canon_file(got['file']), got['file']
            return f'broken={broken} ' + canon_file(got['file'])
        except Exception as exc:
            return 'err crash-canon ' + type(exc).__name__
    if 'syntax-error-in-po-file' in tags:
        return f'broken={broken} err syntax'
    return f'broken={broken} tags=' + ','.join(tags)

# ----------------------------------------------------------------------------- codec oracle (asked of Python directly)

_INTERESTING = bytes([0, 4, 7, 8, 9, 10, 11, 12, 13, 27] + list(range(32, 127)))

_codec_cache = {}
def codec_facts(name):
    """(exists, ascii-compatible, driver kind or None) for an encoding name, asked of the interpreter, not of the tool"""
    if name in _codec_cache:
        return _codec_cache[name]
    env()
    exists = True
    try:
        codecs.lookup(name)
    except LookupError:
        exists = False
    except Exception:
        exists = None
    compat = False
    try:
        d = _INTERESTING.decode(name)
        compat = isinstance(d, str) and d == _INTERESTING.decode('ASCII')
    except Exception:
        compat = False
    kind = None
    if exists:
        import mo_common
        kind = mo_common.codec_kind(name)
        if kind is None:
            rep = G.repertoire(name)
            probe_ok = False
            try:
                # a stateless multi-byte codec whose ASCII range is ASCII: usable through a per-repertoire table
                probe_ok = compat and bytes(range(0x20, 0x7f)).decode(name) == bytes(range(0x20, 0x7f)).decode('ASCII')
            except Exception:
                probe_ok = False
            if rep and probe_ok:
                kind = 'k' + ';'.join(f'{ch.encode(name).hex()}={ord(ch):x}' for ch in rep)
    _codec_cache[name] = (exists, compat, kind)
    return _codec_cache[name]

_cand_re = re.compile(rb'(?= charset=([\w\-:.]+))')
_nonascii_escape = re.compile(rb'\\[2367][0-7][0-7]|\\x[89a-fA-F][0-9a-fA-F]')

def oracle_for(data, encoding=None, table_ok=False):
    """→ (oracle string, skip reason or None).  `table_ok`: the file is known to stay inside the repertoire of its charset,
    so a multi-byte codec may be given to the driver as a table."""
    names = {m.group(1) for m in _cand_re.finditer(data)}
    if encoding is not None:
        names.add(encoding.encode('ASCII'))
    names.add(b'ASCII')
    items, skip = [], None
    for n in sorted(names):
        s = n.decode('ASCII')
        exists, compat, kind = codec_facts(s)
        if exists is None:
            skip = 'lookup-raises'
            continue
        if not exists:
            continue
        if kind is None or (kind.startswith('k') and not table_ok):
            if compat:
                skip = 'codec-family'
            elif _nonascii_escape.search(data):
                skip = 'codec-family-escape'
            kind = 'q'
        items.append(f'{n.hex()}:{1 if compat else 0}:{kind}')
    return (','.join(items) or '-'), skip

def load_line(data, encoding=None, table_ok=False):
    o, skip = oracle_for(data, encoding, table_ok)
    if encoding is None:
        return f'po load {o} {data.hex() or "-"}', skip
    return f'po loadwith {o} {encoding.encode("ASCII").hex()} {data.hex() or "-"}', skip

def check_line(data, table_ok=False):
    o, skip = oracle_for(data, 'ISO-8859-1', table_ok)
    return f'po check {o} {data.hex() or "-"}', skip

# ----------------------------------------------------------------------------- unit-level: polib_unescape

class _FakeInstance:
    def __init__(self, encoding):
        self.encoding = encoding

class _FakeParser:
    """gives `polib_unescape` the stack frame it looks for: a method whose `self.instance.encoding` is the charset"""
    def __init__(self, encoding, fn):
        self.instance = _FakeInstance(encoding)
        self.fn = fn
    def handle(self, s):
        self = self      # noqa: the frame must have a local called `self`
        return self.fn(s)

def impl_unescape(encoding, s, record=True):
    if record:
        _history.append({'op': 'unescape', 'enc': encoding, 's': s})
    P = env()['polib4us']
    err = io.StringIO()
    try:
        with contextlib.redirect_stderr(err), warnings.catch_warnings():
            warnings.simplefilter('always')
            warnings.showwarning = lambda m, c, fn, ln, file=None, line=None: err.write(f'{c.__name__}: {m}\n')
            r = _FakeParser(encoding, P.polib_unescape).handle(s)
    except BaseException as exc:
        if isinstance(exc, (KeyboardInterrupt, SystemExit)):
            raise
        return 'err', err.getvalue(), exc
    return 'ok ' + hexchars(r), err.getvalue(), None

def unescape_line(encoding, s, table_ok=False):
    n = encoding.encode('ASCII')
    exists, compat, kind = codec_facts(encoding)
    skip = None
    if not exists or kind is None or (kind.startswith('k') and not table_ok):
        kind, skip = 'q', 'codec-family'
    return f'po unescape {n.hex()}:{1 if compat else 0}:{kind} {n.hex()} {hexchars(s)}', skip

def impl_setflags(items):
    P = env()['polib']
    try:
        e = P.POEntry()
        e.flags = list(items)
        return show_list(hexchars(f) for f in e.flags)
    except Exception as exc:
        return 'err crash ' + type(exc).__name__

def impl_preprocess(text, record=True):
    """`Codecs.open` on a UTF-8 file holding `text`"""
    if record:
        _history.append({'op': 'preprocess', 'text': text})
    P = env()['polib4us']
    p = os.path.join(_tmp, 'pre.po')
    with open(p, 'wb') as f:
        f.write(text.encode('UTF-8', 'surrogatepass'))
    try:
        lines = list(P.Codecs().open(p, 'rt', 'UTF-8'))
        return show_list(hexchars(l) for l in lines)
    except Exception as exc:
        return 'err crash ' + type(exc).__name__

def impl_detect(data, record=True):
    if record:
        _history.append({'op': 'detect', 'hex': data.hex()})
    P = env()['polib']
    with open(_path, 'wb') as f:
        f.write(data)
    try:
        return 'ok ' + P.detect_encoding(_path).encode('ASCII').hex()
    except Exception as exc:
        return 'err crash ' + type(exc).__name__

# ----------------------------------------------------------------------------- catalogs: expected vs loaded

def loaded_tuple(f):
    """the loaded file in the shape of G.expected"""
    out = []
    for e in f:
        out.append((e.msgctxt, e.msgid, e.msgid_plural, e.msgstr, {int(k): v for k, v in e.msgstr_plural.items()}, list(e.flags), bool(e.obsolete),
                    e.previous_msgctxt, e.previous_msgid, e.previous_msgid_plural, [tuple(o) for o in e.occurrences], e.comment, e.tcomment))
    return f.header, out

def diff_catalog(exp, got):
    """first difference as text, or None"""
    (eh, ee), (gh, ge) = exp, got
    if eh != gh:
        return f'header comment: expected {eh!r}, loaded {gh!r}'
    if len(ee) != len(ge):
        return f'number of entries: expected {len(ee)}, loaded {len(ge)}'
    for i, (a, b) in enumerate(zip(ee, ge)):
        for k, x, y in zip(G.FIELDS, a, b):
            if x != y:
                return f'entry {i} field {k}: expected {x!r}, loaded {y!r}'
    return None

# ----------------------------------------------------------------------------- history independence

def tuple_json(t):
    """`loaded_tuple` / `G.expected` in a JSON-stable shape"""
    header, entries = t
    out = []
    for e in entries:
        e = list(e)
        e[4] = {str(k): v for k, v in e[4].items()}
        e[5] = list(e[5])
        e[10] = [list(o) for o in e[10]]
        out.append(e)
    return [header, out]

class Fresh:
    """client of `po_fresh.py server`: every request runs in a child forked from a parent that has loaded nothing"""
    def __init__(self):
        import subprocess
        self.p = subprocess.Popen([common.PY, os.path.join(os.path.dirname(os.path.abspath(__file__)), 'po_fresh.py'), 'server'],
                                  stdin=subprocess.PIPE, stdout=subprocess.PIPE, text=True, env=dict(os.environ))
        self.requests = 0
    def run(self, ops):
        import json
        self.requests += 1
        self.p.stdin.write(json.dumps(ops) + '\n')
        self.p.stdin.flush()
        line = self.p.stdout.readline()
        if not line:
            raise common.Infra('po_fresh server died')
        return json.loads(line)
    def close(self):
        try:
            self.p.stdin.close()
            self.p.wait(timeout=10)
        except Exception:
            self.p.kill()

def new_process(ops):
    """the same ops in a brand-new interpreter (the faithful form of a replay)"""
    import json, subprocess
    r = subprocess.run([common.PY, os.path.join(os.path.dirname(os.path.abspath(__file__)), 'po_fresh.py'), 'run'],
                       input=json.dumps(ops), capture_output=True, text=True, timeout=600, env=dict(os.environ))
    if r.returncode != 0:
        raise common.Infra('po_fresh run failed: ' + r.stderr[-500:])
    return json.loads(r.stdout)

def shrink_history(fresh, prefix, last, bad, budget=400):
    """delta-debug `prefix` (ops executed before `last` in this process): a short sub-sequence after which `last` still gives a
    result for which `bad(result)` holds.  → list of ops (without `last`) or None if even the whole prefix does not reproduce it"""
    def fails(ops):
        return bad(fresh.run(ops + [last])[-1])
    if not fails(prefix):
        return None
    cur, n, used = list(prefix), 2, 1
    while len(cur) >= 2 and used < budget:
        chunk = max(1, len(cur) // n)
        subsets = [cur[i:i + chunk] for i in range(0, len(cur), chunk)]
        reduced = False
        for i, sub in enumerate(subsets):                      # a single chunk suffices?
            used += 1
            if fails(sub):
                cur, n, reduced = sub, 2, True
                break
        if not reduced:
            for i in range(len(subsets)):                      # or the complement of one
                comp = [x for j, ss in enumerate(subsets) if j != i for x in ss]
                used += 1
                if comp and fails(comp):
                    cur, n, reduced = comp, max(n - 1, 2), True
                    break
        if not reduced:
            if n >= len(cur):
                break
            n = min(len(cur), n * 2)
    return cur
