#!/venv/bin/python
"""C18 — date fields are normalised canonically and judged by the real calendar."""
import os, sys
sys.path.insert(0, os.path.join(os.path.dirname(os.path.abspath(__file__)), '..'))
import common
from gen import date as G

def main():
    chk = common.Check('C18')
    import date_common as D
    proved = chk.prove('I18n.Props.C18', generated=('date',))
    problems = ' '.join(chk.lean.problems)
    driver_ok = os.path.exists(common.driver_path()) and not any('untranslatable' in s for s in chk.lean.translation.values()) \
        and 'Driver' not in problems and 'I18n.Model' not in problems and 'I18n.Generated' not in problems
    rng = chk.rng
    abbrs = D.abbreviations()
    unique = [a for a in abbrs if len(D.TZ().get(a, [])) == 1]
    ref_tz, live_tz, _ = D.tables()
    chk.coverage['abbreviations'] = {
        'reference (Spec/TimezonesRef.lean)': len(ref_tz), 'data_file_of_the_tree': len(live_tz),
        'only_in_data_file': sorted(set(live_tz) - set(ref_tz))[:20], 'missing_from_data_file': sorted(set(ref_tz) - set(live_tz))[:20],
        'ambiguous_by_reference': sum(1 for v in ref_tz.values() if len(v) > 1),
        'every abbreviation of both tables': 'in 9 zone positions / spellings (family date-fix-abbr), in every tier'}
    scale = (20 if chk.thorough else 1) * (3 if chk.broken else 1)

    fam = {
        'corpus': D.corpus(),
        'boundary': [(d, None) for d in G.boundary_dates()] + [(d.replace(' ', 'T', 1), h) for d in G.boundary_dates()[::7] for h in (None, '-0000')],
        'abbr': G.abbr_inputs(abbrs),
        'hints': [(s, h) for s in ('2002-01-01T03:05', '2002-01-01 03:05:59 ', '2002-01-01 03:05+0100', '2002-02-30 03:05', 'YEAR-MO-DA HO:MI+ZONE', 'x')
                  for h in G.HINTS_OK + G.HINTS_BAD],
        'random': G.fix_inputs(rng, 30000 * scale, abbrs, unique),
        # every hint of the form +-dddd (every 7th in quick), on a date without zone and on one with
        'hint-domain': [(s, sg + '%04d' % k) for k in range(0, 10000, 1 if chk.thorough else 7) for sg in '+-'
                        for s in (('2002-01-01T03:05',) if k % 3 else ('2002-01-01T03:05', '2002-01-01 03:05 CET'))],
    }
    disagreeing = []
    fixed_points = []
    if driver_ok:
        for name, pairs in fam.items():
            if not pairs:
                continue
            lines = ['date fix %s %s' % (D.hexs(s), 'none' if h is None else D.hexs(h)) for s, h in pairs]
            outs = [D.impl_fix(s, h) for s, h in pairs]
            dis, _ = chk.stream('date-fix-' + name, lines, outs)
            disagreeing += [pairs[i] for i in dis]
            for (s, h), o in zip(pairs, outs):
                if o.startswith('ok'):
                    chk.nontrivial.add(o)
        # instants: every accepted result and every boundary text of canonical shape, through parse_date
        texts = sorted({r[1] for s, h in fam['boundary'] + fam['random'][:20000] + fam['abbr'] for r in [D.ref_fix(s, h)] if r[0] == 'ok'}
                       | {d for d in G.boundary_dates() if D.ref_shape(d)})
        lines = ['date instant ' + D.hexs(t) for t in texts]
        outs = [D.impl_instant(t) for t in texts]
        chk.stream('date-instant', lines, outs)
        # the calendar itself: parse_date (strptime + datetime) against the model over the whole domain of dates
        cal = G.calendar_texts(rng, chk.thorough)
        lines = ['date instant ' + D.hexs(t) for t in cal]
        outs = [D.impl_instant(t) for t in cal]
        dis, _ = chk.stream('date-calendar', lines, outs)
        disagreeing += [(cal[i], None) for i in dis]
    else:
        chk.broken.append({'kind': 'correspondence', 'stream': 'date-*', 'problem': 'driver could not be rebuilt from the regenerated model'})

    pool = [s for s, _ in fam['boundary'][:2000]] + [s for s, _ in fam['random'][:4000]] + [s for s, _ in fam['abbr'][::5]]
    ctxs = D.boundary_contexts() + D.contexts(rng, 6000 * scale, pool)
    bad_ctx = []
    if driver_ok:
        lines = [c.line() for c in ctxs]
        outs = [D.impl_check(c) for c in ctxs]
        dis, _ = chk.stream('date-check', lines, outs)
        bad_ctx = [ctxs[i] for i in dis]
        kinds = {}
        for o in outs:
            for t in (o[3:].split(';') if o.startswith('ok ') and len(o) > 3 else []):
                k = t.split('(')[0]
                kinds[k] = kinds.get(k, 0) + 1
        chk.coverage['tags_emitted'] = kinds

    # whole catalogues (.po / .pot / .mo) through Checker.check(): header parsing, file-type flags, then check_dates
    import tempfile, shutil
    fdir = tempfile.mkdtemp(prefix='i18n-verif-c18.')
    fcases = D.file_cases(rng, 250 * scale, pool)
    fpaths = []
    try:
        for i, (c, kind) in enumerate(fcases):
            try:
                fpaths.append(D.write_catalog(rng, c, kind, fdir, i))
            except Exception as exc:
                raise common.Infra(f'cannot write a catalogue: {exc}')
        bad_files = []
        if driver_ok:
            lines = [c.line() for c, _ in fcases]
            outs = [D.impl_file(c, p) for (c, _), p in zip(fcases, fpaths)]
            dis, _ = chk.stream('date-file', lines, outs)
            bad_files = dis
        file_reports = []
        for i in list(bad_files) + list(range(len(fcases))):
            c, kind = fcases[i]
            rep = D.check_file_property(c, kind, fpaths[i])
            if rep is not None:
                file_reports.append(rep)
                break
        chk.coverage['files'] = {'catalogues': len(fcases), 'kinds': {k: sum(1 for _, x in fcases if x == k) for k in ('po', 'pot', 'mo')}}
    finally:
        shutil.rmtree(fdir, ignore_errors=True)

    # falsifier: the statement itself on the real code against the independent reference
    cex = None
    tried = 0
    order = disagreeing + fam['hints'] + fam['corpus'] + fam['boundary'] + fam['abbr'] + fam['random']
    if chk.broken:
        order += G.fix_inputs(rng, 60000, abbrs, unique)
    for s, h in order:
        tried += 1
        rep = D.check_fix_property(s, h)
        if rep is not None:
            key = rep.pop('key')
            if chk.violation(rep['kind'], rep, key=key):
                cex = rep
                break
    tried_ctx = 0
    if cex is None:
        for c in bad_ctx + ctxs:
            tried_ctx += 1
            rep = D.check_tags_property(c)
            if rep is not None:
                key = rep.pop('key')
                if chk.violation(rep['kind'], rep, key=key):
                    cex = rep
                    break
    if cex is None:
        for rep in file_reports:
            key = rep.pop('key')
            if chk.violation(rep['kind'], rep, key=key):
                cex = rep
                break
    chk.evaluations += tried + tried_ctx + len(fcases)
    chk.coverage['falsifier'] = {'fix_inputs_vs_reference': tried, 'check_dates_contexts_vs_reference': tried_ctx, 'found': cex is not None}
    if cex is None and chk.broken:
        chk.violation('proof obligation or correspondence no longer checks', {'broken': chk.broken}, no_input=True)
    chk.finish(
        level='proof',
        rule='(s, tz_hint) pairs: regex-directed strings (date/time digits biased to calendar boundaries; every separator class incl. all 29 '
             'Unicode white-space characters and look-alikes; seconds; GMT/UTC prefixes; colon in the offset; every abbreviation of the reference table AND of data/timezones '
             'in 9 positions / spellings (" A", "A", " +A", ...), judged by the reference table; ambiguous and unknown abbreviations), one-edit mutants (odd digits, boilerplate bits), boilerplate placements, '
             'garbage; hints: none, valid, malformed; fixed boundary list (34 years x Feb 28/29/30, month/day 00/13/32, 24:00, :60, '
             '+2359/+2400/-0000/+9959, the epoch minute with offsets across it); check_dates contexts with utc_now patched to the instant '
             '-1us/0/+1us/+-1min, to the epoch +-, to datetime.min/max; duplicates, Publican, template and binary exemptions; '
             'whole .po/.pot/.mo catalogues with such date fields through Checker.check() (date tags only); '
             'date-calendar: parse_date vs the model on year 0000..9999 (all in thorough, ~700 stratified in quick) x month 00..13 x day 00,01,28..32, '
             'every hh:mm 00..99 x 00..99, every offset +-0000..9999; non-trivial = distinct accepted normal form',
        trusted=['Lean 4.33 kernel', 'axioms: propext, Classical.choice, Quot.sound only',
                 'tools/translate/date2lean.py (dumps lib.gettext._timezones, epoch, the white-space class of the running interpreter; pins the regex texts)',
                 'lean/I18n/Spec/TimezonesRef.lean: HAND-MAINTAINED reference of the zone abbreviations and all their offsets (tzdata 2014e, 210 rows, '
                 'written down from data/timezones as of /repo 14c240b); it defines "known abbreviation / unique offset" for the pin timezones_ref_pin and for the falsifier',
                 'Python re finds a derivation of the dumped sre_parse tree iff one exists (Spec/DateRe.lean semantics); the scanners are proved equal to the trees',
                 'strptime / datetime / aware comparison are modelled (parseCanon, Stamp.minutes), tied by the date-fix-* and date-instant streams',
                 'the correspondence harness (tools/checks/date_common.py, Driver/Date.lean); misc.utc_now is patched in the harness only'],
        explanation='Proved for all strings s and all hints (Props/C18.lean): fix_canonical, fix_idempotent, fix_preserves, written_unique, '
                    'fix_accepts (completeness), fix_rejects (exact classification of the five outcomes; the assertion never fails; the only '
                    'outcome besides ok / DateSyntaxError / BoilerplateDate is the ValueError for a malformed hint), fix_tool_outcomes, '
                    'date_tags_iff (each of the five possible tags iff its condition on the counted calendar instant; nothing else), '
                    'template_placeholder_exempt, no_date_field, check_dates_shape, sorted_set_spec, NoCrash (check_dates), parse_canon_iff, instant_counts, ordinal_counts, '
                    'parse_date_regex, parseDate_is_regex, boilerplate_regex, regex_groups (the dumped sre_parse trees mean Written / HasBoilerplate), '
                    'canonical_unique, normalises_unique, strip_stripped, regex_pin, epoch_pin, whitespace_pin, table_pin, timezones_ref_pin (every offset the hand-maintained '
                    'reference lists for an abbreviation is still in the tool\'s table: data/timezones may add abbreviations/offsets and be re-ordered, '
                    'not drop an offset), timezones_ref_wellformed, unique_offset_sound, fix_abbr_by_reference, ref_ambiguous_rejected. Finding (fixed in /repo by 303433e): '
                    'hints accepted by strptime %z but not of the form +HHMM tripped the length assertion or gave a non-ASCII result. '
                    'OUTSTANDING: nothing stated in the design is missing. Modelled rather than verified: strptime / datetime / comparison of '
                    'aware datetimes (tied by the date-fix-*, date-instant, date-check streams over the calendar boundaries); Python re is trusted to '
                    'implement the declarative semantics of the dumped sre_parse trees. Details: DESIGN-notes/date.md')

if __name__ == '__main__':
    common.main_wrapper(main)
