"""Self-validation of ./check C14: apply each seeded change to a scratch clone of /repo (never /repo itself), run the pinned test suite
there, then `VERIF_REPO=<clone> ./check C14 quick`, and print what is reported.  usage: tools/checks/C14_mutants.py [name ...]
Afterwards run ./setup.sh (Generated/ is regenerated from the clone during the runs) and re-run ./check C14 quick for the evidence."""
import subprocess, sys, os, shutil, json, re
HERE = os.path.dirname(os.path.dirname(os.path.dirname(os.path.abspath(__file__))))
MUTANTS = {
 'c-count-swapped': ('lib/check/msgformat/c.py', [("        if len(dst_args) > len(src_args):\n            self.tag('c-format-string-excess-arguments'", "        if len(dst_args) < len(src_args):\n            self.tag('c-format-string-excess-arguments'")]),
 'drop-sort-key': ('lib/check/msgformat/pybrace.py', [("for key in sorted(missing_keys, key=sort_key):", "for key in sorted(missing_keys):")]),
 'tolerance-3-elements': ('lib/check/msgformat/__init__.py', [("elif len(preimage) == 2 and preimage[0] == 0:", "elif len(preimage) <= 3 and preimage[0] == 0:")]),
 'range-ignored': ('lib/check/msgformat/__init__.py', [("if flags.range_min <= x <= flags.range_max", "if 0 <= x")]),
 'type-skip-last': ('lib/check/msgformat/c.py', [("for src_arg, dst_arg in zip(src_args, dst_args):", "for src_arg, dst_arg in zip(src_args[:-1], dst_args):")]),
 'py-missing-unknown-swapped': ('lib/check/msgformat/python.py', [("for key in sorted(dst_args.keys() - src_args.keys()):", "for key in sorted(src_args.keys() - dst_args.keys()):"), ("missing_keys = src_args.keys() - dst_args.keys()", "missing_keys = dst_args.keys() - src_args.keys()")]),
 'perl-diff-swapped': ('lib/check/msgformat/perlbrace.py', [("for key in sorted(dst_args - src_args, key=sort_key):", "for key in sorted(src_args - dst_args, key=sort_key):")]),
 'lastint-star-wrong': ('lib/strformat/c.py', [("                    if vconv is not arg.parent:\n                        return", "                    if vconv is not arg.parent:\n                        continue")]),
 'lastint-nonint-ok': ('lib/strformat/c.py', [("        if not conv.integer:\n            return\n", "")]),
 'py-type-named-skip': ('lib/check/msgformat/python.py', [("        for key in sorted(dst_args.keys() & src_args.keys()):\n            src_arg = src_args[key][0]\n            dst_arg = dst_args[key][0]\n            if src_arg.type != dst_arg.type:", "        for key in sorted(dst_args.keys() & src_args.keys()):\n            src_arg = src_args[key][0]\n            dst_arg = dst_args[key][-1]\n            if src_arg.type != dst_arg.type and len(dst_args) < 3:")]),
 'brace-int-tolerance-any-type': ('lib/check/msgformat/pybrace.py', [("if all('int' in arg.types for arg in src_args[missing_key]):", "if True:")]),
 'n1-source-plural': ('lib/check/msgformat/__init__.py', [("                    d.src_loc = 'msgid'\n                    d.src_fmt = msgid_fmt\n", "")]),
 'tolerance-two-elements': ('lib/check/msgformat/__init__.py', [("elif len(preimage) <= 1:", "elif len(preimage) <= 2:")]),
 'range-off-by-one': ('lib/check/msgformat/__init__.py', [("if flags.range_min <= x <= flags.range_max", "if flags.range_min < x <= flags.range_max")]),
 'perl-tolerance-two': ('lib/check/msgformat/perlbrace.py', [("if len(missing_keys) == 1 and omitted_int_conv_ok:", "if len(missing_keys) <= 2 and omitted_int_conv_ok:")]),
 'brace-type-first-three-keys': ('lib/check/msgformat/pybrace.py', [("for key in sorted(dst_args.keys() & src_args.keys(), key=sort_key):", "for key in sorted(dst_args.keys() & src_args.keys(), key=sort_key)[:2]:")]),
 'n1-tolerance-unconditional': ('lib/check/msgformat/__init__.py', [("                        len(msgid_fmt) == len(msgid_plural_fmt)\n", "                        True\n")]),
 'lastint-less-tolerant': ('lib/strformat/c.py', [("for i in range(len(self.arguments) - n, len(self.arguments)):", "for i in range(len(self.arguments) - n + 1, len(self.arguments)):")]),
 'msgstr-tolerant': ('lib/check/msgformat/__init__.py', [("            d.omitted_int_conv_ok = False\n            strings += [d]", "            d.omitted_int_conv_ok = True\n            strings += [d]")]),
 'preserving-rewrite': ('lib/check/msgformat/c.py', [("        if len(dst_args) > len(src_args):", "        n_dst = len(dst_args)\n        if n_dst > len(src_args):")]),
}
which = sys.argv[1:] or list(MUTANTS)
for name in which:
    path, edits = MUTANTS[name]
    d = '/tmp/c14-scratch'
    shutil.rmtree(d, ignore_errors=True)
    subprocess.run(['git', 'clone', '-q', '/repo', d], check=True)
    p = os.path.join(d, path)
    s = open(p).read()
    for a, b in edits:
        assert a in s, (name, a)
        s = s.replace(a, b, 1)
    open(p, 'w').write(s)
    t = subprocess.run(['/venv/bin/python', '-m', 'pytest', '-q', '-p', 'no:cacheprovider', '-x', '--timeout=900'], cwd=d, capture_output=True, text=True)
    suite = t.stdout.strip().splitlines()[-1] if t.stdout.strip() else t.stderr[-200:]
    env = dict(os.environ, VERIF_REPO=d)
    c = subprocess.run(['./check', 'C14', 'quick'], cwd=HERE, env=env, capture_output=True, text=True)
    print('=====', name, '| suite:', suite)
    for line in c.stdout.strip().splitlines():
        print('   ', line)
        m = re.search(r'replay=(\S+)', line)
        if m:
            r = json.load(open(os.path.join(HERE, m.group(1))))
            print('        kind:', r.get('kind'), '| dst:', r.get('destination'), '| msg:', json.dumps(r.get('message'), ensure_ascii=False)[:260], '| ctx:', str(r.get('ctx'))[:160], '| flags:', r.get('flags'))
    print('    stderr:', c.stderr[-300:])
shutil.rmtree('/tmp/c14-scratch', ignore_errors=True)
