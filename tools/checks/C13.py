#!/venv/bin/python
"""C13 — the brace-format parsers agree with the languages they model."""
import os, sys
sys.path.insert(0, os.path.join(os.path.dirname(os.path.abspath(__file__)), '..'))
import common
from gen import pybrace as G

def main():
    chk = common.Check('C13')
    import pybrace_common as C
    proved = chk.prove('I18n.Props.C13', generated=('pybrace', 'pybracefield'), extra_targets=())
    problems = ' '.join(p for p in chk.lean.problems if 'translator(pybracefield)' not in p)
    # the tie by translation: Field.__init__ / FormatString.add_argument regenerated from the current lib/strformat/pybrace.py and proved equal to
    # PyBrace.fieldInit / addArgument (Props/C13Tie.lean)
    tie_ok = common.prove_tie(chk, 'I18n.Props.C13Tie', ('pybracefield',),
                              'Field.__init__ / FormatString.add_argument regenerated from the current lib/strformat/pybrace.py (Generated/PyBraceField.lean) are no longer '
                              'proved equal to PyBrace.fieldInit / PyBrace.addArgument (generated_field_init_eq_model, generated_add_argument_eq_model, generated_parse_eq_model and the corollaries)')
    driver_ok = os.path.exists(common.driver_path()) and not any('untranslatable' in s for k, s in chk.lean.translation.items() if k != 'pybracefield') \
        and 'Driver' not in problems and 'I18n.Model' not in problems and 'I18n.Spec' not in problems

    boost = 3 if chk.broken else 1
    n_single = (400000 if chk.thorough else 24000) * boost
    n_multi = (300000 if chk.thorough else 30000) * boost
    n_bad = (200000 if chk.thorough else 20000) * boost
    n_spec = (G.n_specs() if chk.thorough else 40000 * boost)
    short_len = 5

    corpus = C.corpus()
    fam = {'corpus': corpus['py']}
    fam.update(C.py_inputs(chk, n_single, n_multi, n_bad, short_len))
    pfam = {'corpus': corpus['perl']}
    pfam.update(C.perl_inputs(chk, n_multi, n_bad, short_len + 1))

    disagreeing, pdisagreeing, oracle_dis = [], [], []
    if driver_ok:
        # the models against the code
        recorded = {}
        plain_stream = chk.stream
        def recording_stream(name, lines, outs, *a, **k):
            recorded[name] = (lines, outs)
            return plain_stream(name, lines, outs, *a, **k)
        chk.stream = recording_stream
        for name, ss in C.run_parse_stream(chk, {k: v for k, v in fam.items() if v}).items():
            disagreeing += ss
        for name, ss in C.run_parse_stream(chk, {k: v for k, v in pfam.items() if v}, 'perlbrace', C.impl_perl).items():
            pdisagreeing += ss
        disagreeing += C.run_spec_stream(chk, G.specs(chk.rng, n_spec))
        disagreeing += C.run_cfg_stream(chk, fam['corpus'] + fam['boundary'] + fam['multi'][:2500] + fam['fixed'][::7])
        chk.stream = plain_stream
        if tie_ok:
            # the same inputs (and the same outputs of the real code) through the parser whose Field.__init__ / add_argument are the definitions
            # regenerated from the source (driver ops gparse / gparse-cfg)
            for name, (lines, outs) in recorded.items():
                if lines and lines[0].startswith(('pybrace parse ', 'pybrace parse-cfg ')):
                    chk.stream(name + '-generated', [l.replace('pybrace parse', 'pybrace gparse', 1) for l in lines], outs)
        # the reference model of the interpreter against the interpreter
        ostr = fam['corpus'] + fam['boundary'] + fam['fixed'] + fam['context'] + fam['short'][::3] + fam['single'] + fam['multi'] + fam['malformed']
        oracle_dis = C.run_cpyparse_stream(chk, ostr)
        if chk.thorough:
            fstr = fam['corpus'] + fam['boundary'] + fam['fixed'] + fam['context'][::2] + fam['short'][::9] + fam['single'] + fam['multi'] + fam['malformed'][::2]
        else:
            fstr = fam['corpus'] + fam['boundary'] + fam['fixed'] + fam['context'][::3] + fam['short'][::20] + fam['single'][::2] + fam['multi'] + fam['malformed'][::3]
        fdis = C.run_cpyformat_stream(chk, fstr, per_string=2 if not chk.thorough else 3)
        oracle_dis += [s for s, _p, _k in fdis]
        if oracle_dis:
            chk.coverage['oracle_disagreements'] = [repr(s)[:200] for s in oracle_dis[:10]]
    else:
        chk.broken.append({'kind': 'correspondence', 'stream': 'pybrace-*', 'problem': 'driver could not be rebuilt from the regenerated model'})

    # falsifier: the property itself on the real code (independent of the Lean model); disagreeing inputs first
    budget = (1500000 if chk.thorough else 110000) * (3 if chk.broken else 1)
    rng = chk.rng
    order = list(disagreeing) + list(oracle_dis) + fam['corpus'] + fam['boundary'] + fam['fixed']
    fixed = len(order)
    for pool, k in ((fam['single'], budget // 3), (fam['multi'], budget // 3), (fam['context'], budget // 8), (fam['malformed'], budget // 8),
                    (fam['short'], budget // 12)):
        order += pool if len(pool) <= k else rng.sample(pool, k)
    stats = {}
    cex, tried = C.falsify(chk, order, budget + fixed, stats, C.check_py)
    chk.evaluations += tried
    porder = list(pdisagreeing) + pfam['corpus'] + pfam['context'] + pfam['multi'] + pfam['malformed']
    k = budget // 3
    porder += pfam['short'] if len(pfam['short']) <= k else rng.sample(pfam['short'], k)
    pcex, ptried = (None, 0)
    if cex is None:
        pcex, ptried = C.falsify(chk, porder, len(porder), stats, C.check_perl)
        chk.evaluations += ptried
    chk.coverage['falsifier'] = {'pybrace_strings_vs_running_interpreter': tried, 'perlbrace_strings_vs_reference': ptried, 'outcomes': stats,
                                 'found': (cex or pcex) is not None, 'interpreter': sys.version.split()[0]}

    # time: test level
    slow = []
    if cex is None and pcex is None:
        slow = C.timing_stream(chk, chk.thorough)
        for r in slow:
            rep = {'kind': 'time-' + r['verdict'], 'parser': r['parser'], 'template': r['template'], 'input': C._short(r['input']),
                   'input_len': len(r['input']), 'observed': {k: v for k, v in r.items() if k != 'input'},
                   'expected': 'time linear in the length of the string (16-fold size: about 16-fold time; limit 104-fold, or 2 s per call)',
                   'replay': f"import lib.strformat.{r['parser']} as M, time; s = {r['input'][:40]!r}[:0] + <input>; M.FormatString(s)"}
            if chk.violation(rep['kind'], rep, key=f"time:{r['parser']}:{r['template']}"):
                break

    if not chk.violations and chk.broken:
        chk.violation('proof obligation or correspondence no longer checks', {'broken': chk.broken}, no_input=True)
    chk.finish(
        level='proof',
        rule='python-brace: the product fill/align x sign x # x 0 x width x ,/_ x precision x type sampled into single fields with every kind of '
             f'name and conversion ({G.n_specs()} specifications; all in thorough), every name x conversion x tail, every string of length <= {short_len} over '
             f'{G.PY_ALPHABET!r} and <= {short_len + 1} (thorough: {short_len + 2}) over {G.PY_ALPHABET2!r} that contains a brace, both sides of every boundary of the interpreter\'s '
             '\\w and \\d tables (and U+0000..U+017F) in 21 slots of a field, numerals around 2^31-1, 2^63-1 and of 4300/4301/4400 digits, every '
             'truncation of two rich strings, multi-field strings (auto / explicit / named numbering, repeated keys with equal and different types, '
             'nested fields), 1-2-edit mutants, garbage; the overflow and digit-limit branches under patched SSIZE_MAX / sys.set_int_max_str_digits.  '
             'perl-brace: the same table boundaries in 8 slots, every string of length <= 6 over a 7-character alphabet, generated and mutated strings.  '
             'Oracle streams: string.Formatter().parse on all of these; str.format on (format, arguments) pairs with arguments fitted to the string and then '
             'perturbed (wrong type, missing/extra positional, missing key, code points at the range ends, ints at the float overflow threshold).  '
             'non-trivial = distinct accepted string with at least one field',
        trusted=['Lean 4.33 kernel', 'axioms: propext, Classical.choice, Quot.sound only',
                 'tools/translate/pybrace2lean.py (dumps the interpreter\'s \\w, \\d, isdecimal tables, the four regex parse trees, SSIZE_MAX, the digit limit, '
                 'the error classes; probes ~600 single fields)',
                 'all four scanners (perlbrace._field_re; pybrace._field_re, _simple_field_re, _format_spec_re) are PROVED to be the first match of the '
                 'generated parse trees under the backtracking semantics Spec.BraceRe.bt (my model of sre for this fragment: ordered alternatives, greedy '
                 'repeats, captures); finditer + the two position tests, _simple_field_re.findall(fmt) and Field.__init__ / add_argument / the type '
                 'intersection are modelled by hand: tied by the pybrace-* / perlbrace-* streams and probes_pin',
                 'Spec.StrFormat is my model of CPython\'s MarkupIterator / field_name_split / AutoNumber / parse_internal_render_format_spec / '
                 'str, int, float __format__ (success or exception kind; values abstracted to int n / float / str; text and memory not modelled); it is compared '
                 f'with the running interpreter on every run (pybrace-cpyparse, pybrace-cpyformat): fidelity is by correspondence with CPython {sys.version.split()[0]} (64-bit) only',
                 'time: the MODEL scanners are structurally recursive (linear); the time of the implementation is regex-engine behaviour and is only TESTED '
                 '(pump strings from a structural screen of the live parse trees + hand-written templates; 16-fold size must cost < 104-fold time, 2 s cap per call)',
                 'the correspondence harness (canonicalisers in tools/checks/pybrace_common.py, Driver/PyBrace.lean)',
                 'tie by translation + proof: tools/translate/pybracefield2lean.py (over tools/translate/pytr core + objfn) is trusted; the kit Model/PyBracePy.lean is shared by both sides; '
                 'Field.__init__ and FormatString.add_argument regenerated from the current lib/strformat/pybrace.py are PROVED equal to PyBrace.fieldInit / addArgument (Props/C13Tie.lean), '
                 'and the parser with the regenerated constructor runs against CPython in the pybrace-*-generated streams'],
        explanation=EXPLANATION)

EXPLANATION = (
    'Proved in Lean for ALL strings. perl-brace (full): perl_iff (accepted iff every { opens a {identifier} placeholder, identifier = [^\\W\\d]\\w* '
    'for the interpreter\'s tables), perl_names (arguments = exactly the set of those identifiers; the items spell the input), perl_error_own (only Error; '
    '_printable_prefix never fails), perl_regex (the scanner is the first match of the live parse tree of _field_re under backtracking semantics, end '
    'position and group spans included), classes_pin. python-brace: field_regex (scanLiteral / scanField / scanSimple are the first match of the live '
    'trees of _field_re / _simple_field_re for every string and position, group spans included), spec_regex (likewise scanSpec for _format_spec_re), '
    'brace_accept_parses (accepted => string.Formatter().parse succeeds), brace_reject '
    '(Python\'s parser rejects => rejected, with an own Error class), brace_error_own (only the module\'s own Error classes: asserts, int() ValueError, '
    '_printable_prefix AttributeError, the termination device unreachable), flat_formats_partial (flat fields, no field with "," + b/c/o/x/X or sign/# + c: '
    'str.format succeeds for EVERY argument object with a value of a reported type under every reported position/name; an int being a code point), '
    'matches_exists (every accepted string has arguments of the reported shape: keys distinct, one non-empty type set per key), quirk_rejected (conversely, an accepted flat string with such a field cannot be formatted whatever the arguments: the restriction is exact), '
    'flat_formats_refuted + witness_accepted/witness_flat/witness_rejected ({:,x} is accepted with type int and str.format fails whatever the type: the '
    'formatting clause is false as stated; open findings accept:comma-with-bcoxX and accept:sign-or-alt-with-c, pinned by the repository\'s own tests). Pins: '
    'constants_pin, regex_pin, probes_pin (kernel evaluation of the models on ~620 probes). Test level only: "time linear in the length" for the '
    'implementation (timing stream; the model scanners are structurally recursive), the fidelity of Spec.StrFormat to the interpreter (oracle streams, '
    'CPython 3.12.1 64-bit) and of the hand-written python-brace model to the code (pybrace-* streams). Fixed in /repo and recorded: 07546e5 (exponential '
    'time on an unterminated format spec), 5d38fd1 (ValueError on {²}), a481125 (nested fields with braces in an index accepted). OUTSTANDING: the '
    'unrestricted flat_formats is false (refuted, open findings); that _simple_field_re.findall(fmt) lists the nested names the scan of the format group '
    'collected is tied by correspondence only; time is test level. '
    'TIE BY TRANSLATION (Props/C13Tie.lean): Generated/PyBraceField.lean is rewritten from the current lib/strformat/pybrace.py on every run (Field.__init__, FormatString.add_argument) and proved '
    'equal to PyBrace.fieldInit / addArgument for all numbering states, all scanned fields and all values of SSIZE_MAX / the digit limit, exception class and argument included '
    '(generated_field_init_eq_model, generated_add_argument_eq_model); the Field is stored in the map before self.types is assigned, so the regenerated constructor takes the future value as a '
    'parameter and generated_field_init_types proves it returns exactly that value; the parser with the regenerated constructor in the modelled finditer loop is PyBrace.parseWith '
    '(generated_parse_eq_model), and brace_accept_parses, brace_error_own, brace_reject, flat_formats_partial, matches_exists are restated about it (*_generated). The finditer loop, the final '
    'intersection of the types per key and perlbrace.py remain hand-modelled.')

if __name__ == '__main__':
    common.main_wrapper(main)
