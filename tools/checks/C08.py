#!/venv/bin/python
"""C08 — every well-formed MO file decodes to exactly the catalog it encodes."""
import os, sys
sys.path.insert(0, os.path.join(os.path.dirname(os.path.abspath(__file__)), '..'))
import common
from gen import mo as G

WITNESS = bytes.fromhex('de120495' '00000000' '01000000' '14000000' '1c000000' '03000000' '24000000' '01000000' '28000000' '63046900' '7300')

def expected_from_catalog(cat, charset, style, with_header):
    """what loading must give, computed from the catalog itself (not from the bytes)"""
    import mo_common as P
    cs = 'ASCII'
    if with_header:
        eff = G.effective_charset(charset, style)
        if eff is not None:
            c = P.ref_compat(eff.encode('ASCII', 'replace'))
            if c is None:
                return None
            if c:
                cs = eff
    out = []
    try:
        for ctxt, msgid, plural, forms in cat:
            out.append((None if ctxt is None else ctxt.decode(cs), msgid.decode(cs),
                        None if plural is None else plural.decode(cs), [f.decode(cs) for f in forms]))
    except UnicodeDecodeError:
        return 'decode'
    return out

def swap(entries):
    return [(m, c, p, f) if c is not None else (c, m, p, f) for c, m, p, f in entries]

def falsify(chk, P, count, extra_inputs=()):
    """catalogs × layouts × charsets on the REAL parser against (a) the catalog that was serialized and (b) the
    independent reference reader.  → (first unexplained counterexample | None, first ctxt-swap example | None, stats)"""
    rng = chk.rng
    stats = {'files': 0, 'ok': 0, 'decode': 0, 'with_context': 0, 'plural': 0, 'big_endian': 0, 'minor1': 0, 'hidden': 0, 'ctxt_swap_seen': 0}
    swap_example = None
    for data in extra_inputs:
        r = P.compare_with_reference(data)
        if r:
            return dict(r, file_hex=data.hex(), source='correspondence disagreement'), swap_example, stats
    files = P.wellformed_files(rng, count, bad_bytes=0.05)
    for data, cat, lay, charset, style in files:
        stats['files'] += 1
        stats['big_endian'] += lay['be']
        stats['minor1'] += lay['minor'] == 1
        stats['with_context'] += any(e[0] is not None for e in cat)
        stats['plural'] += any(e[2] is not None for e in cat)
        hidden = lay['minor'] > 1 or (lay['minor'] == 1 and lay['nsysdep'] > 0)
        stats['hidden'] += hidden
        with_header = bool(cat) and cat[0][1] == b'' and cat[0][0] is None
        exp = expected_from_catalog(cat, charset, style, with_header)
        kind, v = P.real_parse(data)
        base = {'file_hex': data.hex(), 'layout': lay, 'charset': charset, 'header_style': style,
                'catalog': [[None if c is None else c.hex(), m.hex(), None if p is None else p.hex(), [f.hex() for f in fs]] for c, m, p, fs in cat],
                'replay': 'write bytes.fromhex(file_hex) to x.mo; list(lib.moparser.Parser("x.mo").parse())'}
        if kind == 'crash':
            return dict(base, kind='other-exception', observed=repr(v), expected='the catalog'), swap_example, stats
        if kind == 'syntax':
            return dict(base, kind='well-formed-file-rejected', observed='SyntaxError: ' + v, expected='the catalog'), swap_example, stats
        if exp is None:
            continue
        if kind == 'decode':
            stats['decode'] += 1
            if exp != 'decode':
                return dict(base, kind='decodable-file-reported-undecodable', observed='UnicodeDecodeError', expected=repr(exp)[:500]), swap_example, stats
            continue
        try:
            got_hidden, got = bool(v.possible_hidden_strings), P.entries_of(v)
        except Exception as exc:
            return dict(base, kind='other-exception', observed=repr(exc), expected='the catalog'), swap_example, stats
        stats['ok'] += 1
        if exp == 'decode':
            return dict(base, kind='undecodable-text-accepted', observed=repr(got)[:500], expected='UnicodeDecodeError'), swap_example, stats
        if got_hidden != hidden:
            return dict(base, kind='hidden-flag', observed=got_hidden, expected=hidden), swap_example, stats
        if got != exp:
            if got == swap(exp):
                stats['ctxt_swap_seen'] += 1
                return dict(base, kind='ctxt-swap', observed=repr(got)[:500], expected=repr(exp)[:500]), swap_example, stats
            else:
                return dict(base, kind='entries-differ', observed=repr(got)[:800], expected=repr(exp)[:800]), swap_example, stats
        r = P.compare_with_reference(data)          # (b) the independent reader, from the bytes alone
        if r:
            return dict(base, **r), swap_example, stats
    return None, swap_example, stats

def falsify_empty_file(chk, P, count):
    """'A file whose format revision may hide strings is flagged as such rather than reported as empty':
    run the REAL Checker.check() completely on files without messages."""
    import argparse
    E = P.env()
    rng = chk.rng
    tried = 0
    for _ in range(count):
        lay = G.gen_layout(rng)
        lay['minor'] = rng.choice([0, 1, 1, 2, 3, 0xffff])
        lay['nsysdep'] = rng.choice([0, 0, 1, 5]) if lay['minor'] == 1 else 0
        cat = [] if rng.random() < 0.5 else [(None, b'', None, [G.header_value(rng, 'UTF-8', 'std')])]
        data = G.serialize(cat, lay)
        hidden = lay['minor'] > 1 or (lay['minor'] == 1 and lay['nsysdep'] > 0)
        with open(P._path, 'wb') as f:
            f.write(data)
        tags = []
        class C(E['check'].Checker):
            def tag(self, tagname, *extra):
                tags.append(tagname)
        opts = argparse.Namespace(fake_root=None, file_type=None, language=None, unpack_deb=False, ignore_tags=set())
        try:
            C(P._path, options=opts).check()
        except Exception as exc:
            return {'kind': 'other-exception', 'file_hex': data.hex(), 'observed': repr(exc), 'expected': 'tags'}, tried
        tried += 1
        if ('empty-file' in tags) != (not hidden):
            return {'kind': 'empty-file-vs-hidden', 'file_hex': data.hex(), 'layout': lay, 'observed': sorted(set(tags)),
                    'expected': 'empty-file ' + ('absent' if hidden else 'present')}, tried
    return None, tried

def main():
    chk = common.Check('C08')
    import mo_common as P
    proved = P.prove(chk, 'I18n.Props.C08')
    extra = []
    if os.path.exists(common.driver_path()):
        n = 40000 if chk.thorough else 8000
        files = P.wellformed_files(chk.rng, n, bad_bytes=0.03)
        datas = [WITNESS] + P.seed_files() + [f[0] for f in files]
        dis, outs, kept = P.run_parse_stream(chk, 'mo-parse', datas, encodings=(None, 'ISO-8859-1'))
        extra = [kept[i] for i in dis[:50]]
        chk.note_cases({o for o in outs if o.startswith('ok') and ' n=0' not in o})
    else:
        chk.broken.append({'kind': 'correspondence', 'stream': 'mo-parse', 'problem': 'driver could not be rebuilt'})
    mult = 5 if chk.broken else 1
    cex, swap_example, stats = falsify(chk, P, (150000 if chk.thorough else 30000) * mult, extra)
    chk.evaluations += stats['files']
    cex2, tried2 = (None, 0) if cex else falsify_empty_file(chk, P, (1500 if chk.thorough else 150) * mult)
    chk.evaluations += tried2
    # the recorded finding: replay its witness on the real code
    kind, v = P.real_parse(WITNESS)
    witness_state = 'unknown'
    if kind == 'ok':
        got = P.entries_of(v)
        witness_state = 'still-failing' if got == [('i', 'c', None, ['s'])] else ('resolved' if got == [('c', 'i', None, ['s'])] else 'other: ' + repr(got))
    chk.coverage['falsifier'] = dict(stats, empty_file_runs=tried2, found=(cex or cex2) is not None, known_witness=witness_state)
    if witness_state != 'resolved' and not cex:
        # the defect repaired by the fix: commit 8953e21 (a `fixed` entry suppresses nothing)
        rep = {'kind': 'ctxt-swap', 'file_hex': WITNESS.hex(), 'observed': witness_state, 'expected': "msgctxt='c', msgid='i'"}
        chk.violation('msgctxt and msgid of an MO entry with a context are not loaded as encoded (lib/moparser.py:155)', rep, key='ctxt-swap')
    for c in (cex, cex2):
        if c is not None:
            chk.violation('a well-formed MO file does not load to the catalog it encodes', c, key=c.get('kind'))
    if not (cex or cex2) and chk.broken:
        chk.violation('proof obligation or correspondence no longer checks', {'broken': chk.broken}, no_input=True)
    chk.finish(
        level='proof',
        rule='random catalogs (0-6 entries, contexts, plurals with 1-4 forms, 12 charset names incl. non-ASCII-compatible and unknown ones, 9 header styles) x layouts '
             '(byte order, major 0/1, minor 0/1/other, sysdep count, hash table, 9 region orders, padding, gaps, shared suffixes, 4 string orders) x encoding argument '
             '(None, ISO-8859-1); non-trivial = distinct accepted outcome with at least one entry',
        trusted=['Lean 4.33 kernel', 'axioms: propext, Classical.choice, Quot.sound only',
                 'Spec.Encodes / Spec.expected are my reading of the GNU MO format (gettext manual, gmo.h) and of the charset convention of dcigettext.c',
                 'the tie of Mo.parse to lib/moparser.py: tools/translate/mo2lean.py (one Lean shape per Python construct; rules in its docstring / DESIGN-notes/mo.md) and the kit I18n.Mo.Py of CPython operations '
                 '(struct.unpack, memoryview indexing/slicing, bytes.split, bytes <, the pinned charset regex, polib.MOEntry keyword shapes); the regenerated parser is PROVED equal to Mo.parse '
                 '(Props/C08Tie.lean), and translation + kit are exercised against CPython by the *-generated streams',
                 'text decoding is a parameter (CodecDB); the driver instantiates ASCII, ISO-8859-1, UTF-8 and single-byte charmaps (tables read from Python); '
                 'files whose charset needs another codec family are skipped in the stream and counted',
                 'findCharset is the model\'s reading of re.search(b"charset=([^ \\t\\n]+)") and is shared by spec and model'],
        explanation='TIE: Generated/MoParser.lean is regenerated from the current lib/moparser.py on every run and generated_parse_eq_model (Props/C08Tie.lean) proves it equal to Mo.parse for every byte string, '
                    'so the theorems below hold of the regenerated source (parse_of_encodes_generated, parse_serialize_generated, hidden_flag_generated); a source change breaks that proof or the translation '
                    '(coverage.tie) and starts the falsifier. '
                    'Proved for all byte strings and codec databases: parse_of_encodes (every byte string satisfying Encodes parses to the catalog: msgctxt, msgid, plural, forms, file order, '
                    'charset of the header entry, hidden flag), parse_serialize, witness_parse (the 42-byte file that refuted the statement before the fix: commit 8953e21), hidden_flag, '
                    'hidden_suppresses_empty_file, unflagged_empty_is_reported, serialize_encodes (a family of layouts satisfies Encodes). '
                    'The empty-file decision is a 5-line model tied only by the falsifier (full Checker.check on message-less files).')

if __name__ == '__main__':
    common.main_wrapper(main)
