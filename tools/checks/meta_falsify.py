"""C17 falsifiers: metamorphic searches on the REAL code (independent of the Lean model).

Each function returns (list of discrepancies, stats).  A discrepancy is a concrete failing pair (or package): the two
inputs as hex, how they were made, both diagnostics lists, the first difference, and a replay recipe.
"""
import os, sys
sys.path.insert(0, os.path.join(os.path.dirname(os.path.abspath(__file__)), '..'))
import common
import meta_common as M
import checker_harness as H
from gen import meta as G

PO_NAMES = ['n/messages.po', 'pl/LC_MESSAGES/gizmo.po', 'po/de.po', 'n/x.po']

def _pair_replay(kind, cat, a, b, ta, tb, how, path):
    return {
        'kind': kind, 'path': path, 'how': how,
        'first': {'file_hex': a.hex(), 'text': a.decode('latin1')[:1500], 'diagnostics': M.show(ta)},
        'second': {'file_hex': b.hex(), 'text': b.decode('latin1')[:1500], 'diagnostics': M.show(tb)},
        'first_difference': M.first_diff(ta, tb),
        'replay': f'write bytes.fromhex(file_hex) of each side to <dir>/{path}; run /venv/bin/python /repo/i18nspector on it; compare the outputs',
    }

def po_spellings(chk, work, count, stats):
    """same catalog, same charset, different wrapping / escape style / blank lines → identical diagnostics (ordered, with extras)"""
    rng = chk.rng
    H.ready()
    found = []
    for _ in range(count):
        cat = G.gen_catalog(rng)
        css = G.charsets_for(cat)
        if not css:
            stats['no_charset'] += 1
            continue
        cs = rng.choice(css[:6] if rng.random() < 0.7 else css)
        rel = rng.choice(PO_NAMES)
        base = G.render_po(cat, cs, G.Style(rng, 0))
        t0 = M.tags_of_bytes(work, rel, base)
        stats['catalogs'] += 1
        stats['cs:' + cs] += 1
        if t0[0] == 'ok' and t0[1]:
            chk.note_cases([(n,) for n, _ in t0[1]])
        for level in (1, 2, 2):
            sp = G.render_po(cat, cs, G.Style(rng, level))
            if sp == base:
                stats['identical_spelling'] += 1
                continue
            t1 = M.tags_of_bytes(work, rel, sp)
            stats['po_spelling_pairs'] += 1
            stats['escaped' if b'\\x' in sp or b'\\3' in sp or b'\\2' in sp else 'plain'] += 1
            if t1 != t0:
                found.append(_pair_replay('po-spelling', cat, base, sp, t0, t1, {'charset': cs, 'level': level, 'family': cat['family']}, rel))
                if len(found) >= 3:
                    return found
    return found

def transcodings(chk, work, count, stats):
    """same catalog in two charsets that can encode it (charset= adjusted) → identical diagnostics apart from CHARSET_TAGS"""
    rng = chk.rng
    H.ready()
    found = []
    for _ in range(count):
        cat = G.gen_catalog(rng, family=rng.choice([f for f in G.FAMILIES if f != 'ascii'] + ['ascii']))
        css = G.charsets_for(cat)
        if len(css) < 2:
            stats['no_second_charset'] += 1
            continue
        cs0 = 'UTF-8' if 'UTF-8' in css and rng.random() < 0.6 else rng.choice(css)
        rel = rng.choice(PO_NAMES)
        a = G.render_po(cat, cs0, G.Style(rng, 0))
        ta = M.tags_of_bytes(work, rel, a)
        na = M.drop(ta, names=M.CHARSET_TAGS)
        for cs1 in rng.sample([c for c in css if c != cs0], k=min(3, len(css) - 1)):
            b = G.render_po(cat, cs1, G.Style(rng, rng.choice([0, 0, 2])))
            tb = M.tags_of_bytes(work, rel, b)
            nb = M.drop(tb, names=M.CHARSET_TAGS)
            stats['transcoding_pairs'] += 1
            stats['tc:' + cat['family']] += 1
            stats['to:' + cs1] += 1
            if ta[0] == 'ok' and tb[0] == 'ok':
                stats['charset_tags_seen'] += len(ta[1]) - len(na[1]) + len(tb[1]) - len(nb[1])
            if na != nb:
                found.append(_pair_replay('transcoding', cat, a, b, ta, tb, {'charsets': [cs0, cs1], 'family': cat['family'], 'modulo': sorted(M.CHARSET_TAGS)}, rel))
                if len(found) >= 3:
                    return found
            # the MO side of the same transcoding
            if rng.random() < 0.5:
                lay = G.gen_layout(rng, simple=True)
                ma, mb = G.render_mo(cat, cs0, lay), G.render_mo(cat, cs1, lay)
                mrel = rel[:-3] + '.mo'
                tma, tmb = M.tags_of_bytes(work, mrel, ma), M.tags_of_bytes(work, mrel, mb)
                stats['transcoding_pairs_mo'] += 1
                # msgfmt order depends on the bytes: only compare when both charsets sort the catalog the same way
                same_order = [e[1].decode(cs0) for e in G.mo_entries(cat, cs0)] == [e[1].decode(cs1) for e in G.mo_entries(cat, cs1)]
                dropn = M.CHARSET_TAGS if same_order else M.CHARSET_TAGS | M.ORDER_SENSITIVE
                xa, xb = M.drop(tma, names=dropn), M.drop(tmb, names=dropn)
                if not same_order and xa[0] == 'ok' and xb[0] == 'ok':
                    xa, xb = ('ok', sorted(xa[1])), ('ok', sorted(xb[1]))
                    stats['transcoding_mo_reordered'] += 1
                if xa != xb:
                    found.append(_pair_replay('transcoding-mo', cat, ma, mb, tma, tmb, {'charsets': [cs0, cs1], 'layout': lay, 'same_order': same_order}, mrel))
                    if len(found) >= 3:
                        return found
    return found

def mo_layouts(chk, work, count, stats):
    """same catalog, different byte order / table order / padding / overlap / hash table / revision → identical diagnostics"""
    rng = chk.rng
    H.ready()
    found = []
    for _ in range(count):
        cat = G.gen_catalog(rng, po_features=False, n=rng.choice([0, 0, 1, 2, 3, 5]))
        if rng.random() < 0.15:
            cat['header'] = []            # no header fields at all
        css = G.charsets_for(cat)
        if not css:
            continue
        cs = rng.choice(css[:5] if rng.random() < 0.7 else css)
        rel = rng.choice(['n/x.mo', 'de/LC_MESSAGES/gizmo.mo', 'n/x.gmo'])
        by_hidden = {}
        for _k in range(4):
            lay = G.gen_layout(rng)
            data = G.render_mo(cat, cs, lay)
            t = M.tags_of_bytes(work, rel, data)
            stats['mo_files'] += 1
            stats['be' if lay['be'] else 'le'] += 1
            stats['hidden'] += G.hidden_of(lay)
            key = G.hidden_of(lay)
            if key in by_hidden:
                d0, l0, t0 = by_hidden[key]
                stats['mo_layout_pairs'] += 1
                if t != t0:
                    found.append(_pair_replay('mo-layout', cat, d0, data, t0, t, {'charset': cs, 'layouts': [l0, lay]}, rel))
                    if len(found) >= 3:
                        return found
            else:
                by_hidden[key] = (data, lay, t)
        # the hidden-strings flag may only matter for a file without messages
        if len(by_hidden) == 2:
            (_, _, t_plain), (_, _, t_hidden) = by_hidden[False], by_hidden[True]
            if M.drop(t_plain, names=['empty-file']) != M.drop(t_hidden, names=['empty-file']):
                found.append(_pair_replay('mo-layout-hidden', cat, by_hidden[False][0], by_hidden[True][0], t_plain, t_hidden, {'charset': cs}, rel))
    return found

def po_vs_mo(chk, work, count, stats):
    """fully translated PO without PO-only features, in msgfmt order, vs the MO compiled from it → same diagnostics,
    except `no-date-header-field POT-Creation-Date` (tolerated in MO files)"""
    rng = chk.rng
    H.ready()
    found = []
    for _ in range(count):
        cat = G.gen_catalog(rng, po_features=False, fully_translated=True)
        css = G.charsets_for(cat)
        if not css:
            continue
        cs = rng.choice(css[:5] if rng.random() < 0.7 else css)
        d = rng.choice(['n', 'pl/LC_MESSAGES', 'de/LC_MESSAGES', 'xx'])
        scat = G.sort_catalog(cat, cs)
        po = G.render_po(scat, cs, G.Style(rng, rng.choice([0, 1, 2])))
        lay = G.gen_layout(rng)
        lay['minor'], lay['nsysdep'] = rng.choice([(0, 0), (0, 0), (1, 0)]), 0
        if isinstance(lay['minor'], tuple):
            lay['minor'], lay['nsysdep'] = lay['minor']
        mo = G.render_mo(scat, cs, lay)
        tp = M.tags_of_bytes(work, d + '/x.po', po)
        tm = M.tags_of_bytes(work, d + '/x.mo', mo)
        stats['po_mo_pairs'] += 1
        if tp[0] == 'ok':
            stats['exemption_seen'] += M.MO_EXEMPT in tp[1]
            stats['po_mo_with_diagnostics'] += bool(tp[1])
        np_ = M.drop(tp, exact=[M.MO_EXEMPT])
        if np_ != tm:
            found.append(_pair_replay('po-vs-mo', cat, po, mo, tp, tm, {'charset': cs, 'layout': lay, 'modulo': 'no-date-header-field POT-Creation-Date on the PO side'}, d + '/x.{po,mo}'))
            if len(found) >= 3:
                return found
        # unsorted PO: only the diagnostics that name "the first message that…" may move; everything else as a multiset
        if rng.random() < 0.4 and len(cat['msgs']) > 1:
            po2 = G.render_po(cat, cs, G.Style(rng, 0))
            tp2 = M.tags_of_bytes(work, d + '/x.po', po2)
            a = M.drop(tp2, names=M.ORDER_SENSITIVE, exact=[M.MO_EXEMPT])
            b = M.drop(tm, names=M.ORDER_SENSITIVE)
            stats['po_mo_unsorted_pairs'] += 1
            if a[0] == 'ok' and b[0] == 'ok':
                if M.drop(tp2, exact=[M.MO_EXEMPT])[1] != tm[1] and sorted(M.drop(tp2, exact=[M.MO_EXEMPT])[1]) != sorted(tm[1]):
                    stats['order_sensitive_moved'] += 1
                a, b = ('ok', sorted(a[1])), ('ok', sorted(b[1]))
            if a != b:
                found.append(_pair_replay('po-vs-mo-unsorted', cat, po2, mo, tp2, tm, {'charset': cs, 'modulo': 'multiset; order-sensitive tags dropped'}, d + '/x.{po,mo}'))
    return found
