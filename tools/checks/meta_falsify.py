"""C17 falsifiers: metamorphic searches on the REAL code (independent of the Lean model).

Each function returns (list of discrepancies, stats).  A discrepancy is a concrete failing pair (or package): the two
inputs as hex, how they were made, both diagnostics lists, the first difference, and a replay recipe.
"""
import os, sys
sys.path.insert(0, os.path.join(os.path.dirname(os.path.abspath(__file__)), '..'))
import common
import meta_common as M
import checker_harness as H
from gen import meta as G

PO_NAMES = ['n/messages.po', 'pl/LC_MESSAGES/gizmo.po', 'po/de.po', 'n/x.po', 'n/messages.pot', 'po/gizmo.pot']

def _pair_replay(kind, cat, a, b, ta, tb, how, path):
    return {
        'kind': kind, 'path': path, 'how': how,
        'first': {'file_hex': a.hex(), 'text': a.decode('latin1')[:1500], 'diagnostics': M.show(ta)},
        'second': {'file_hex': b.hex(), 'text': b.decode('latin1')[:1500], 'diagnostics': M.show(tb)},
        'first_difference': M.first_diff(ta, tb),
        'replay': f'write bytes.fromhex(file_hex) of each side to <dir>/{path}; run /venv/bin/python /repo/i18nspector on it; compare the outputs',
    }

def po_spellings(chk, work, count, stats):
    """same catalog, same charset, different wrapping / escape style / blank lines → identical diagnostics (ordered, with extras)"""
    rng = chk.rng
    H.ready()
    found = []
    for _ in range(count):
        cat = G.gen_catalog(rng)
        css = G.charsets_for(cat)
        if not css:
            stats['no_charset'] += 1
            continue
        cs = rng.choice(css[:6] if rng.random() < 0.7 else css)
        rel = rng.choice(PO_NAMES)
        base = G.render_po(cat, cs, G.Style(rng, 0))
        t0 = M.tags_of_bytes(work, rel, base)
        stats['catalogs'] += 1
        stats['cs:' + cs] += 1
        if t0[0] == 'ok' and t0[1]:
            chk.note_cases([(n,) for n, _ in t0[1]])
        for level in (1, 2, 2):
            sp = G.render_po(cat, cs, G.Style(rng, level))
            if sp == base:
                stats['identical_spelling'] += 1
                continue
            t1 = M.tags_of_bytes(work, rel, sp)
            stats['po_spelling_pairs'] += 1
            stats['escaped' if b'\\x' in sp or b'\\3' in sp or b'\\2' in sp else 'plain'] += 1
            if t1 != t0:
                found.append(_pair_replay('po-spelling', cat, base, sp, t0, t1, {'charset': cs, 'level': level, 'family': cat['family']}, rel))
                if len(found) >= 3:
                    return found
    return found

def transcodings(chk, work, count, stats):
    """same catalog in two charsets that can encode it (charset= adjusted) → identical diagnostics apart from CHARSET_TAGS"""
    rng = chk.rng
    H.ready()
    found = []
    for _ in range(count):
        cat = G.gen_catalog(rng, family=rng.choice([f for f in G.FAMILIES if f != 'ascii'] + ['ascii']))
        css = G.charsets_for(cat)
        if len(css) < 2:
            stats['no_second_charset'] += 1
            continue
        cs0 = 'UTF-8' if 'UTF-8' in css and rng.random() < 0.6 else rng.choice(css)
        rel = rng.choice(PO_NAMES)
        a = G.render_po(cat, cs0, G.Style(rng, 0))
        ta = M.tags_of_bytes(work, rel, a)
        na = M.drop(ta, names=M.CHARSET_TAGS)
        for cs1 in rng.sample([c for c in css if c != cs0], k=min(3, len(css) - 1)):
            b = G.render_po(cat, cs1, G.Style(rng, rng.choice([0, 0, 2])))
            tb = M.tags_of_bytes(work, rel, b)
            nb = M.drop(tb, names=M.CHARSET_TAGS)
            stats['transcoding_pairs'] += 1
            stats['tc:' + cat['family']] += 1
            stats['to:' + cs1] += 1
            if ta[0] == 'ok' and tb[0] == 'ok':
                stats['charset_tags_seen'] += len(ta[1]) - len(na[1]) + len(tb[1]) - len(nb[1])
            if na != nb:
                found.append(_pair_replay('transcoding', cat, a, b, ta, tb, {'charsets': [cs0, cs1], 'family': cat['family'], 'modulo': sorted(M.CHARSET_TAGS)}, rel))
                if len(found) >= 3:
                    return found
            # the MO side of the same transcoding
            if rng.random() < 0.5:
                lay = G.gen_layout(rng, simple=True)
                ma, mb = G.render_mo(cat, cs0, lay), G.render_mo(cat, cs1, lay)
                mrel = rel[:-3] + '.mo'
                tma, tmb = M.tags_of_bytes(work, mrel, ma), M.tags_of_bytes(work, mrel, mb)
                stats['transcoding_pairs_mo'] += 1
                # msgfmt order depends on the bytes: only compare when both charsets sort the catalog the same way
                same_order = [e[1].decode(cs0) for e in G.mo_entries(cat, cs0)] == [e[1].decode(cs1) for e in G.mo_entries(cat, cs1)]
                dropn = M.CHARSET_TAGS if same_order else M.CHARSET_TAGS | M.ORDER_SENSITIVE
                xa, xb = M.drop(tma, names=dropn), M.drop(tmb, names=dropn)
                if not same_order and xa[0] == 'ok' and xb[0] == 'ok':
                    xa, xb = ('ok', sorted(xa[1])), ('ok', sorted(xb[1]))
                    stats['transcoding_mo_reordered'] += 1
                if xa != xb:
                    found.append(_pair_replay('transcoding-mo', cat, ma, mb, tma, tmb, {'charsets': [cs0, cs1], 'layout': lay, 'same_order': same_order}, mrel))
                    if len(found) >= 3:
                        return found
    return found

def mo_layouts(chk, work, count, stats):
    """same catalog, different byte order / table order / padding / overlap / hash table / revision → identical diagnostics"""
    rng = chk.rng
    H.ready()
    found = []
    for _ in range(count):
        cat = G.gen_catalog(rng, po_features=False, n=rng.choice([0, 0, 1, 2, 3, 5]))
        if rng.random() < 0.15:
            cat['header'] = []            # no header fields at all
        css = G.charsets_for(cat)
        if not css:
            continue
        cs = rng.choice(css[:5] if rng.random() < 0.7 else css)
        rel = rng.choice(['n/x.mo', 'de/LC_MESSAGES/gizmo.mo', 'n/x.gmo'])
        by_hidden = {}
        for _k in range(4):
            lay = G.gen_layout(rng)
            data = G.render_mo(cat, cs, lay)
            t = M.tags_of_bytes(work, rel, data)
            stats['mo_files'] += 1
            stats['be' if lay['be'] else 'le'] += 1
            stats['hidden'] += G.hidden_of(lay)
            key = G.hidden_of(lay)
            if key in by_hidden:
                d0, l0, t0 = by_hidden[key]
                stats['mo_layout_pairs'] += 1
                if t != t0:
                    found.append(_pair_replay('mo-layout', cat, d0, data, t0, t, {'charset': cs, 'layouts': [l0, lay]}, rel))
                    if len(found) >= 3:
                        return found
            else:
                by_hidden[key] = (data, lay, t)
        # the hidden-strings flag may only matter for a file without messages
        if len(by_hidden) == 2:
            (_, _, t_plain), (_, _, t_hidden) = by_hidden[False], by_hidden[True]
            if M.drop(t_plain, names=['empty-file']) != M.drop(t_hidden, names=['empty-file']):
                found.append(_pair_replay('mo-layout-hidden', cat, by_hidden[False][0], by_hidden[True][0], t_plain, t_hidden, {'charset': cs}, rel))
    return found

def po_vs_mo(chk, work, count, stats):
    """fully translated PO without PO-only features, in msgfmt order, vs the MO compiled from it → same diagnostics,
    except `no-date-header-field POT-Creation-Date` (tolerated in MO files)"""
    rng = chk.rng
    H.ready()
    found = []
    for _ in range(count):
        cat = G.gen_catalog(rng, po_features=False, fully_translated=True, date_bias=True)
        css = G.charsets_for(cat)
        if not css:
            continue
        cs = rng.choice(css[:5] if rng.random() < 0.7 else css)
        d = rng.choice(['n', 'pl/LC_MESSAGES', 'de/LC_MESSAGES', 'xx'])
        scat = G.sort_catalog(cat, cs)
        po = G.render_po(scat, cs, G.Style(rng, rng.choice([0, 1, 2])))
        lay = G.gen_layout(rng)
        lay['minor'], lay['nsysdep'] = rng.choice([(0, 0), (0, 0), (1, 0)]), 0
        if isinstance(lay['minor'], tuple):
            lay['minor'], lay['nsysdep'] = lay['minor']
        mo = G.render_mo(scat, cs, lay)
        tp = M.tags_of_bytes(work, d + '/x.po', po)
        tm = M.tags_of_bytes(work, d + '/x.mo', mo)
        stats['po_mo_pairs'] += 1
        if tp[0] == 'ok':
            stats['exemption_seen'] += M.MO_EXEMPT in tp[1]
            stats['po_mo_with_diagnostics'] += bool(tp[1])
        # "both loaders produce the same polib entry model": what the checker can observe of each entry
        vp, vm = M.entry_views(work.path(d + '/x.po')), M.entry_views(work.path(d + '/x.mo'))
        stats['entry_view_pairs'] += 1
        if vp != vm:
            k = next((i for i in range(max(len(vp), len(vm))) if vp[i:i + 1] != vm[i:i + 1]), None)
            found.append(dict(_pair_replay('po-vs-mo-entry-view', cat, po, mo, tp, tm, {'charset': cs, 'layout': lay}, d + '/x.{po,mo}'),
                              entry_index=k, po_view=repr(vp[k:k + 1])[:600], mo_view=repr(vm[k:k + 1])[:600]))
            if len(found) >= 3:
                return found
        np_ = M.drop(tp, exact=[M.MO_EXEMPT])
        if np_ != tm:
            found.append(_pair_replay('po-vs-mo', cat, po, mo, tp, tm, {'charset': cs, 'layout': lay, 'modulo': 'no-date-header-field POT-Creation-Date on the PO side'}, d + '/x.{po,mo}'))
            if len(found) >= 3:
                return found
        # unsorted PO: only the diagnostics that name "the first message that…" may move; everything else as a multiset
        if rng.random() < 0.4 and len(cat['msgs']) > 1:
            po2 = G.render_po(cat, cs, G.Style(rng, 0))
            tp2 = M.tags_of_bytes(work, d + '/x.po', po2)
            a = M.drop(tp2, names=M.ORDER_SENSITIVE, exact=[M.MO_EXEMPT])
            b = M.drop(tm, names=M.ORDER_SENSITIVE)
            stats['po_mo_unsorted_pairs'] += 1
            if a[0] == 'ok' and b[0] == 'ok':
                if M.drop(tp2, exact=[M.MO_EXEMPT])[1] != tm[1] and sorted(M.drop(tp2, exact=[M.MO_EXEMPT])[1]) != sorted(tm[1]):
                    stats['order_sensitive_moved'] += 1
                a, b = ('ok', sorted(a[1])), ('ok', sorted(b[1]))
            if a != b:
                found.append(_pair_replay('po-vs-mo-unsorted', cat, po2, mo, tp2, tm, {'charset': cs, 'modulo': 'multiset; order-sensitive tags dropped'}, d + '/x.{po,mo}'))
    return found

# ----------------------------------------------------------------------------- packages

MALFORMED = [
    ('broken.po', b'msgid "a\nmsgstr "b"\n'),
    ('syntax.po', b'msgid ""\nmsgstr ""\n"Content-Type: text/plain; charset=UTF-8\\n"\n\nmsgid "a"\nmsgstr "b"\nmsgstr "c"\nbogus line\n'),
    ('latin.po', b'msgid ""\nmsgstr ""\n"Content-Type: text/plain; charset=UTF-8\\n"\n\nmsgid "a"\nmsgstr "\xe4"\n'),
    ('empty.po', b''),
    ('template.pot', b'msgid ""\nmsgstr ""\n"Content-Type: text/plain; charset=CHARSET\\n"\n\nmsgid "a"\nmsgstr ""\n'),
    ('trunc.mo', b'\xde\x12\x04\x95\x00\x00\x00\x00\x05\x00\x00\x00'),
    ('magic.mo', b'not an mo file at all'),
    ('zero.gmo', b''),
]

def gen_package(rng, idx):
    """→ (members {rel: bytes}, symlinks [(rel, target)], dirs [rel])"""
    members, symlinks, dirs = {}, [], []
    lang = rng.choice(['pl', 'de', 'ja', 'xx'])
    for k in range(rng.randint(1, 4)):
        cat = G.gen_catalog(rng, po_features=rng.random() < 0.5)
        css = G.charsets_for(cat)
        if not css:
            continue
        cs = rng.choice(css[:5])
        d = rng.choice(G.MEMBER_DIRS) % {'lang': lang}
        if rng.random() < 0.5:
            members[f'{d}/{rng.choice(["gizmo", lang, "m e s", "zażółć", "x"])}{k}.{rng.choice(["po", "po", "pot"])}'] = G.render_po(cat, cs, G.Style(rng, rng.choice([0, 2])))
        else:
            members[f'{d}/{rng.choice(["gizmo", "x", "zażółć"])}{k}.{rng.choice(["mo", "mo", "gmo"])}'] = G.render_mo(cat, cs, G.gen_layout(rng))
    for name, data in rng.sample(MALFORMED, k=rng.randint(0, 3)):
        members[f'{rng.choice(G.MEMBER_DIRS) % {"lang": lang}}/{name}'] = data
    for rel, data in rng.sample(G.OTHER_MEMBERS, k=rng.randint(1, 5)):
        members[rel] = data
    if rng.random() < 0.3:
        members['deep.po/inside.txt'] = b'a directory named like a PO file\n'
    po_members = [m for m in members if M.is_po_member(m)]
    if po_members and rng.random() < 0.5:
        symlinks.append(('usr/share/gizmo/link.po', '/' + rng.choice(po_members)))
        symlinks.append(('usr/share/gizmo/rel-link.mo', os.path.basename(rng.choice(po_members))))
    if rng.random() < 0.3:
        symlinks.append(('usr/share/gizmo/dangling.po', '/nonexistent/x.po'))
        symlinks.append(('usr/share/gizmo/dirlink', '/usr/share'))
    if rng.random() < 0.3:
        dirs.append('usr/share/gizmo/emptydir.po')
    return members, symlinks, dirs

def _pkg_replay(kind, deb, members, symlinks, extra):
    data = open(deb, 'rb').read() if os.path.exists(deb) else b''
    r = {'kind': kind, 'package_hex': data.hex() if len(data) < 60000 else data[:60000].hex() + '…',
         'members': {k: v.hex()[:4000] for k, v in members.items()}, 'symlinks': symlinks,
         'replay': 'write bytes.fromhex(package_hex) to p.deb; TMPDIR=<empty dir> /venv/bin/python /repo/i18nspector --unpack-deb p.deb; '
                   'compare with the output for each member of `dpkg-deb -x p.deb X` checked alone (X/<member> rewritten to p.deb/<member>); list TMPDIR'}
    r.update(extra)
    return r

def check_package(work, name, members, symlinks, dirs, stats, sequence=False, inject=False, via_cli=False, keep=None, source=False, lang=None):
    """one package through the real tool → list of discrepancies (empty = the clause holds on it)"""
    M.H.ready()
    from lib import cli
    found = []
    other = work.write('plain/other.txt', b'just a text file\n')
    try:
        if source:
            deb = M.build_dsc(work, name, members, symlinks, dirs)
            xroot = M.extract_dsc(work, deb, name)
            members = dict(members, **M.DSC_FILES)
            stats['source_packages'] += 1
        else:
            deb = M.build_deb(work, name, members, symlinks, dirs)
            xroot = M.extract_deb(work, deb, name)
    except common.Infra as exc:
        stats['build_failed'] += 1
        stats['build_error:' + str(exc)[:80]] += 1
        return found
    if keep is not None:
        keep.append(deb)
    stats['packages'] += 1
    stats['members'] += len(members)
    fake_root = deb + '/'
    language = None
    if lang is not None:            # `-l LANG`: the option must reach the members unchanged
        from lib import ling
        language = ling.parse_language(lang)
        language.fix_codes()
        language.remove_encoding()
        language.remove_nonlinguistic_modifier()
        stats['packages_with_language_option'] += 1
    blocks = M.expected_member_blocks(xroot, members, fake_root, 'inproc', language=language)
    stats['po_mo_members'] += len(blocks)
    stats['members_with_output'] += sum(1 for v in blocks.values() if v)
    opts = M.options(unpack_deb=True, language=language)
    with M.TmpdirGuard(work) as guard:
        out, exc = M.inproc(cli.check_file, deb, options=opts)
        left = guard.leftovers()
    lines = out.splitlines()
    base = {'package': deb, 'output': lines[:60], 'exception': exc, 'language_option': lang}
    if exc:
        found.append(_pkg_replay('package-exception', deb, members, symlinks, base))
    elif left:
        found.append(_pkg_replay('temporary-files-left', deb, members, symlinks, dict(base, leftovers=left)))
    else:
        bad = M.match_blocks(lines, blocks)
        if bad:
            found.append(_pkg_replay('package-output-differs', deb, members, symlinks, dict(base, mismatch=bad)))
        elif opts.ignore_tags or opts.fake_root is not None:
            found.append(_pkg_replay('options-changed-by-package', deb, members, symlinks, dict(base, options=repr(opts))))
    # the run after a package: a later plain file must be reported as if alone
    if sequence and not found:
        opts = M.options(unpack_deb=True, language=language)
        with M.TmpdirGuard(work) as guard:
            out2, exc2 = M.inproc(cli.check_all, [deb, other, deb], options=opts)
            left = guard.leftovers()
        exp_other, _ = M.inproc(cli.check_all, [other], options=M.options(unpack_deb=True))
        l2 = out2.splitlines()
        stats['sequence_runs'] += 1
        k = len(lines)
        if exc2 or left or l2[k:k + 1] != exp_other.splitlines() or sorted(l2[:k]) != sorted(lines) or sorted(l2[k + 1:]) != sorted(lines):
            found.append(_pkg_replay('file-after-package', deb, members, symlinks,
                                     {'args': [deb, other, deb], 'exception': exc2, 'leftovers': left, 'expected_for_other': exp_other, 'got_around': l2[max(0, k - 1):k + 2]}))
    # a member that makes the checker raise: the temporary tree must still go away (real check_deb, failing check_regular_file)
    if inject and blocks and not found:
        victim = sorted(blocks)[-1]
        orig = cli.check_regular_file
        def failing(path, *, options, _orig=orig):
            if path.endswith('/' + victim):
                raise RuntimeError('injected failure')
            return _orig(path, options=options)
        cli.check_regular_file = failing
        try:
            with M.TmpdirGuard(work) as guard:
                out3, exc3 = M.inproc(cli.check_file, deb, options=M.options(unpack_deb=True, language=language))
                left = guard.leftovers()
        finally:
            cli.check_regular_file = orig
        stats['injected_failures'] += 1
        if left or not (exc3 or '').startswith('RuntimeError'):
            found.append(_pkg_replay('temporary-files-left-after-failure', deb, members, symlinks, {'leftovers': left, 'exception': exc3, 'failing_member': victim}))
    # the command-line tool itself
    if via_cli and not found:
        tdir = M.tempfile.mkdtemp(prefix='cliT.', dir=work.root)
        rel_deb = os.path.relpath(deb, work.root)
        r = M.E.run_cli((['-l', lang] if lang else []) + ['--unpack-deb', rel_deb, 'plain/other.txt'], work.root, extra_env={'TMPDIR': tdir})
        stats['cli_runs'] += 1
        exp = [l.replace(fake_root, rel_deb + '/', 1) for l in lines]
        got = r['stdout'].splitlines()
        left = M.snapshot(tdir)
        ok = r['rc'] == 0 and not r['stderr'] and sorted(got[:-1]) == sorted(exp) and got[-1:] == ['I: plain/other.txt: unknown-file-type'] and not left
        if ok:
            ok = M.match_blocks(got[:-1], {k: [l.replace(fake_root, rel_deb + '/', 1) for l in v] for k, v in blocks.items()}) is None
        if not ok:
            found.append(_pkg_replay('cli-package-run', deb, members, symlinks, {'rc': r['rc'], 'stderr': r['stderr'][-500:], 'stdout': got[:40], 'expected_multiset': exp[:40], 'leftovers': left}))
    shutil_rm(xroot)
    return found

def packages(chk, work, count, stats, cli_every=4, keep=None):
    """--unpack-deb: output = per-member outputs under <package>/<member>, nothing else, nothing left in TMPDIR"""
    rng = chk.rng
    M.H.ready()
    from lib import cli
    found = []
    # a VALID package to be used as a member of others (members are files, not packages: nothing may be reported for it)
    inner_cat = G.gen_catalog(rng, family='latin1', po_features=False, n=2)
    inner = M.build_deb(work, 'inner', {'usr/share/doc/inner/de.po': G.render_po(inner_cat, 'UTF-8', G.Style(rng, 0)),
                                        'usr/share/locale/de/LC_MESSAGES/inner.mo': G.render_mo(inner_cat, 'UTF-8', G.gen_layout(rng, simple=True))})
    inner_bytes = open(inner, 'rb').read()
    for idx in range(count):
        members, symlinks, dirs = gen_package(rng, idx)
        if idx % 2 == 0:
            members[rng.choice(['usr/share/gizmo/nested.deb', 'nested.deb', 'usr/share/doc/gizmo/a b.deb'])] = inner_bytes
        source = idx % 5 == 4
        if source:       # a source package: relative symlink targets only (dpkg-source refuses others), no nested binary package needed
            symlinks = [(a, b) for a, b in symlinks if not b.startswith('/')]
        found += check_package(work, f'pkg{idx}', members, symlinks, dirs, stats, sequence=idx % 3 == 0, inject=idx % 4 == 1, via_cli=idx % cli_every == 0, keep=keep,
                               source=source, lang=rng.choice(['pl', 'de', 'ja']) if idx % 4 == 2 else None)
        if found:
            return found
    # a file that is not a package, a truncated package: reported as a plain file, nothing left behind
    for bad_name, data in [('corrupt.deb', b'not a deb\n'), ('trunc.deb', None), ('x.dsc', b'Format: 3.0 (quilt)\nSource: x\n')]:
        if data is None:
            src = os.path.join(work.root, 'pkg0.deb')
            if not os.path.exists(src):
                continue
            data = open(src, 'rb').read()[:200]
        p = work.write('bad/' + bad_name, data)
        if keep is not None:
            keep.append(p)
        with M.TmpdirGuard(work) as guard:
            out, exc = M.inproc(cli.check_file, p, options=M.options(unpack_deb=True))
            left = guard.leftovers()
        stats['unreadable_packages'] += 1
        if left:
            found.append({'kind': 'temporary-files-left', 'file': bad_name, 'file_hex': data.hex(), 'leftovers': left, 'output': out, 'exception': exc})
    return found

def shutil_rm(p):
    import shutil
    shutil.rmtree(p, ignore_errors=True)

# ----------------------------------------------------------------------------- the command-line tool on pairs

def cli_subset(chk, work, count, stats):
    """a subset of every kind of pair through the real command-line tool (one invocation, many files); each file's block is also
    compared with what the in-process run printed for it (ties the capturing harness to the tool)"""
    rng = chk.rng
    M.H.ready()
    items = []      # (relative path, data)
    groups = []     # (kind, rel a, rel b, tag names to drop, exact (name, rendered extras) lines to drop on side a)
    for i in range(count):
        cat = G.gen_catalog(rng, po_features=rng.random() < 0.5, fully_translated=True, date_bias=True)
        css = G.charsets_for(cat)
        if len(css) < 2:
            continue
        cs0, cs1 = css[0], rng.choice(css[1:])
        d = f'cli/{i}'
        items.append((f'{d}/a/x.po', G.render_po(cat, cs0, G.Style(rng, 0))))
        items.append((f'{d}/b/x.po', G.render_po(cat, cs0, G.Style(rng, 2))))
        groups.append(('po-spelling', f'{d}/a/x.po', f'{d}/b/x.po', (), False))
        items.append((f'{d}/c/x.po', G.render_po(cat, cs1, G.Style(rng, 1))))
        groups.append(('transcoding', f'{d}/a/x.po', f'{d}/c/x.po', M.CHARSET_TAGS, False))
        plain = dict(cat, msgs=[dict(m, flags=[], comments=[], previous=None, obsolete=False) for m in cat['msgs'] if not m['obsolete']], initial='', hflags=[])
        scat = G.sort_catalog(plain, cs0)
        l1, l2 = G.gen_layout(rng), G.gen_layout(rng)
        l1['minor'] = l2['minor'] = 0
        items.append((f'{d}/d/x.po', G.render_po(scat, cs0, G.Style(rng, 1))))
        items.append((f'{d}/d/x.mo', G.render_mo(scat, cs0, l1)))
        items.append((f'{d}/e/x.mo', G.render_mo(scat, cs0, l2)))
        groups.append(('po-vs-mo', f'{d}/d/x.po', f'{d}/d/x.mo', (), True))
        groups.append(('mo-layout', f'{d}/d/x.mo', f'{d}/e/x.mo', (), False))
    for rel, data in items:
        work.write(rel, data)
    if not items:
        return []
    r = M.E.run_cli([rel for rel, _ in items], work.root, timeout=600)
    stats['cli_pair_files'] += len(items)
    found = []
    if r['rc'] != 0 or r['stderr']:
        return [{'kind': 'cli-run-failed', 'rc': r['rc'], 'stderr': r['stderr'][-800:], 'files': [rel for rel, _ in items][:10]}]
    blocks = {rel: [] for rel, _ in items}
    for line in r['stdout'].splitlines():
        hit = None
        for rel in blocks:
            if line[3:].startswith(rel + ': '):
                hit = rel
                break
        if hit is None:
            return [{'kind': 'cli-line-without-file', 'line': line}]
        blocks[hit].append(line[:3] + line[3 + len(hit) + 2:])       # 'P: ' + 'tag extras'
    # tie to the in-process harness
    from lib import tags as T
    datas = dict(items)
    for rel in list(blocks)[::3]:
        t = M.run_tags(os.path.join(work.root, rel))
        if t[0] == 'ok':
            chk2, calls = M.H.make_checker(os.path.join(work.root, rel))
            chk2.check()
            mine = []
            for name, extra in calls:
                s = T.get_tag(name).format('@', *extra)
                mine.append(s[:3] + s[3 + 3:])
            stats['cli_vs_inproc'] += 1
            if mine != blocks[rel]:
                found.append({'kind': 'cli-differs-from-in-process-run', 'file': rel, 'file_hex': datas[rel].hex(), 'cli': blocks[rel][:20], 'in_process': mine[:20]})
                return found
    def name_of(l):
        return l[3:].split(' ', 1)[0]
    for kind, a, b, dropn, exempt in groups:
        la = [l for l in blocks[a] if name_of(l) not in dropn]
        lb = [l for l in blocks[b] if name_of(l) not in dropn]
        if exempt:
            la = [l for l in la if l != 'W: no-date-header-field POT-Creation-Date']
        stats['cli_pairs'] += 1
        if la != lb:
            k = next(i for i in range(max(len(la), len(lb))) if la[i:i + 1] != lb[i:i + 1])
            found.append({'kind': 'cli-' + kind, 'files': [a, b], 'first': {'file_hex': datas[a].hex(), 'output': blocks[a][:40]},
                          'second': {'file_hex': datas[b].hex(), 'output': blocks[b][:40]}, 'first_difference': {'index': k, 'first': la[k:k + 1], 'second': lb[k:k + 1]},
                          'replay': 'write both files (hex) to the given relative paths; /venv/bin/python /repo/i18nspector <a> <b>'})
            if len(found) >= 3:
                break
    return found

# ----------------------------------------------------------------------------- charset declarations the two loaders may read differently

DECLARATIONS = [
    # (Content-Type value, does gettext (strstr "charset=" … up to blank/tab/newline) read UTF-8 from it?)
    ('text/plain; charset=UTF-8', True),
    ('text/plain;  charset=UTF-8', True),
    ('text/plain; charset=UTF-8\tx', True),
    ('text/plain;charset=UTF-8', True),          # no blank before `charset=`
    ('charset=UTF-8', True),                     # `charset=` directly after the colon and the blank
    ('text/plain;\tcharset=UTF-8', True),        # a tab before `charset=`
    ('text/x-po; charset=UTF-8', True),
]

def charset_declarations(chk, work, stats):
    """PO vs MO for header entries whose Content-Type names the charset in an unusual but gettext-readable place.
    → list of (key, discrepancy): one per declaration on which the two files of one catalog get different diagnostics"""
    M.H.ready()
    out = []
    for ct, _gettext_reads in DECLARATIONS:
        hdr = [(k, (ct if k == 'Content-Type' else v)) for k, v in G.HEADER_BASE if k != 'Plural-Forms']
        cat = dict(family='latin2', header=hdr, hflags=[], initial='', msgs=[
            dict(ctxt=None, msgid='turtle\n', plural=None, forms=['żółw'], flags=[], comments=[], obsolete=False, previous=None)])
        po = G.render_po(cat, 'UTF-8', G.Style(chk.rng, 0))
        mo = G.render_mo(cat, 'UTF-8', G.gen_layout(chk.rng, simple=True))
        tp = M.tags_of_bytes(work, 'decl/x.po', po)
        tm = M.tags_of_bytes(work, 'decl/x.mo', mo)
        stats['charset_declarations'] += 1
        if M.drop(tp, exact=[M.MO_EXEMPT]) != tm:
            # the recorded input class: gettext's rule finds the charset, polib's line regex does not, and the PO side alone is broken-encoding
            import re as _re
            raw_line = ('"Content-Type: ' + ct.replace('\t', '\\t') + '\\n"').encode()
            polib_misses = _re.search(rb'"?Content-Type:.+? charset=([\w_\-:\.]+)', raw_line) is None
            po_broken = tp[0] == 'ok' and any(n == 'broken-encoding' for n, _ in tp[1]) and not (tm[0] == 'ok' and any(n == 'broken-encoding' for n, _ in tm[1]))
            if _gettext_reads and polib_misses and po_broken:
                key = 'po-vs-mo:charset-declaration:polib-regex-misses'
            else:
                key = 'po-vs-mo:charset-declaration:' + ct.replace('\t', '\\t')
            out.append((key, _pair_replay('po-vs-mo-charset-declaration', cat, po, mo, tp, tm, {'content_type': ct,
                        'note': 'the PO loader (polib.detect_encoding: `"?Content-Type:.+? charset=([\\w_\\-:\\.]+)` on raw lines) and the MO loader '
                                '(`charset=([^ \\t\\n]+)` on the header entry, like gettext) disagree about the declared charset'}, 'decl/x.{po,mo}')))
    return out
