"""C18: the real date code canonically (`fix_date_format`, `parse_date`, `check_dates` with `misc.utc_now` patched),
an independent reference written from the statement of the property (own scanner, own Gregorian calendar, the zone abbreviations
of the hand-maintained reference lean/I18n/Spec/TimezonesRef.lean — NOT of the tree's data/timezones), the falsifier, and the correspondence streams (`date fix|instant|check`)."""
import collections, datetime, os, sys, types
sys.path.insert(0, os.path.join(os.path.dirname(os.path.abspath(__file__)), '..'))
import common
from gen import date as G

common.setup_repo_import()

def hexs(s):
    return '.'.join('%x' % ord(c) for c in s) if s else '-'

# ------------------------------------------------------------------ the real code

_M = None
def M():
    """(lib.gettext, lib.misc) of the tree under test, or stand-ins raising the import error on every call"""
    global _M
    if _M is None:
        try:
            from lib import gettext, misc
            _M = (gettext, misc)
        except BaseException as exc:
            err = exc
            def broken(*a, **k):
                raise RuntimeError(f'lib.gettext cannot be imported: {type(err).__name__}: {err}')
            class E(Exception):
                pass
            g = types.SimpleNamespace(fix_date_format=broken, parse_date=broken, DateSyntaxError=E, BoilerplateDate=E,
                                      epoch=None, boilerplate_date=None, _timezones={})
            _M = (g, types.SimpleNamespace(utc_now=broken))
    return _M

def real_fix(s, hint):
    """('ok', t) or ('err', class name, message)"""
    g = M()[0]
    try:
        t = g.fix_date_format(s, tz_hint=hint)
    except Exception as exc:
        return ('err', type(exc).__name__, str(exc)[:200])
    if not isinstance(t, str):
        return ('err', 'NotAString', repr(t)[:100])
    return ('ok', t)

def impl_fix(s, hint):
    r = real_fix(s, hint)
    return 'ok ' + hexs(r[1]) if r[0] == 'ok' else 'err ' + r[1]

def impl_instant(t):
    g = M()[0]
    try:
        d = g.parse_date(t)
        delta = d - G.UNIX
        q, rem = divmod(delta, datetime.timedelta(minutes=1))
        if rem:
            return 'err NotWholeMinute'
        return f'ok {q}'
    except Exception as exc:
        return 'err ' + type(exc).__name__

class Ctx:
    """one `check_dates` situation"""
    __slots__ = ('content_type', 'is_binary', 'is_template', 'pot', 'po', 'now_us')
    def __init__(self, content_type, is_binary, is_template, pot, po, now_us):
        self.content_type, self.is_binary, self.is_template = content_type, bool(is_binary), bool(is_template)
        self.pot, self.po, self.now_us = list(pot), list(po), int(now_us)
    def line(self):
        lst = lambda xs: ','.join(hexs(x) for x in xs) if xs else '_'
        ct = 'none' if self.content_type is None else hexs(self.content_type)
        return f'date check {ct} {int(self.is_binary)} {int(self.is_template)} {self.now_us} {lst(self.pot)} {lst(self.po)}'
    def as_dict(self):
        return {'content_type': self.content_type, 'is_binary': self.is_binary, 'is_template': self.is_template,
                'POT-Creation-Date': self.pot, 'PO-Revision-Date': self.po, 'now_us': self.now_us,
                'now': G.from_us(self.now_us).isoformat()}

def real_check(c):
    """('ok', [(tag, [(kind, text)…])…]) or ('err', class name, message)"""
    import checker_harness as H
    misc = M()[1]
    try:
        checker, calls = H.make_checker()
    except Exception as exc:
        return ('err', type(exc).__name__, 'make_checker: ' + str(exc)[:200])
    from lib import tags
    ctx = types.SimpleNamespace()
    ctx.metadata = collections.defaultdict(list)
    if c.content_type is not None:
        ctx.metadata['Content-Type'] = [c.content_type]
    if c.pot:
        ctx.metadata['POT-Creation-Date'] = list(c.pot)
    if c.po:
        ctx.metadata['PO-Revision-Date'] = list(c.po)
    ctx.is_binary, ctx.is_template = c.is_binary, c.is_template
    now = G.from_us(c.now_us)
    saved = getattr(misc, 'utc_now', None)
    misc.utc_now = lambda: now
    try:
        checker.check_dates(ctx)
    except Exception as exc:
        return ('err', type(exc).__name__, str(exc)[:200])
    finally:
        misc.utc_now = saved
    out = []
    for name, extra in calls:
        out.append((name, [('S' if isinstance(x, tags.safestr) else 's' if isinstance(x, str) else 'o', str(x)) for x in extra]))
    return ('ok', out)

def show_tags(ts):
    return ';'.join(name + '(' + ','.join(k + ':' + hexs(x) for k, x in args) + ')' for name, args in ts)

def impl_check(c):
    r = real_check(c)
    return 'ok ' + show_tags(r[1]) if r[0] == 'ok' else 'err ' + r[1]

# ------------------------------------------------------------------ the reference (from the statement, not from the code)

def live_timezones():
    """own reader of data/timezones of the tree under test: abbreviation -> list of offsets.  Used ONLY to enumerate inputs and for
    abbreviations the reference does not know; what a reference abbreviation means is never taken from here"""
    tz = {}
    path = os.path.join(common.REPO, 'data', 'timezones')
    try:
        with open(path, encoding='ascii') as f:
            insec = False
            for line in f:
                line = line.strip()
                if not line or line[0] in '#;':
                    continue
                if line.startswith('['):
                    insec = line == '[timezones]'
                    continue
                if insec and '=' in line:
                    k, v = line.split('=', 1)
                    tz[k.strip()] = v.split()
    except (OSError, UnicodeError):
        pass
    return tz

REF_PATH = os.path.join(common.VERIF, 'lean', 'I18n', 'Spec', 'TimezonesRef.lean')

def ref_timezones():
    """the HAND-MAINTAINED reference of the zone abbreviations (tzdata 2014e): the rows of lean/I18n/Spec/TimezonesRef.lean — one
    source of truth for the Lean pin `timezones_ref_pin` and for this falsifier.  abbreviation -> list of offsets"""
    import re
    table = {}
    try:
        text = open(REF_PATH, encoding='utf-8').read()
    except OSError as exc:
        raise common.Infra(f'reference table of zone abbreviations cannot be read: {exc}')
    for line in text.split('\n'):
        m = re.fullmatch(r'\s*\("([A-Za-z]+)", \[(.*)\]\)[,\]]\s*', line)
        if m:
            offs = re.findall(r'"([^"]*)"', m.group(2))
            if m.group(1) in table or not offs or not all(re.fullmatch(r'[+-][0-9]{4}', o) for o in offs):
                raise common.Infra(f'malformed row for {m.group(1)} in {REF_PATH}')
            table[m.group(1)] = offs
    if len(table) < 200:
        raise common.Infra('reference table of zone abbreviations could not be read from ' + REF_PATH)
    return table

def reference_view(ref, live):
    """the table the reference rules decide with.  An abbreviation the reference knows has stood for every offset the reference
    lists (whatever the data file says — also when the data file dropped an offset or the abbreviation) and for any the data file
    adds; an abbreviation only the data file knows is judged by the data file."""
    view = {k: list(v) for k, v in live.items()}
    for k, offs in ref.items():
        view[k] = list(offs) + [o for o in live.get(k, []) if o not in offs]
    return view

_TZ = None
def tables():
    """(reference, data file of the tree, reference view), read once"""
    global _TZ
    if _TZ is None:
        ref, live = ref_timezones(), live_timezones()
        _TZ = (ref, live, reference_view(ref, live))
    return _TZ

def TZ():
    return tables()[2]

ASCII_DIGITS = '0123456789'
def alldig(s):
    return all(ch in ASCII_DIGITS for ch in s)

def ref_boiler(t):
    """a placeholder of xgettext's `YEAR-MO-DA HO:MI+ZONE` in its place"""
    if t.startswith('YEAR-') or '-MO-' in t:
        return True
    for i in range(len(t)):
        if t.startswith('-DA', i) and t[i + 3:i + 4].isspace():
            return True
        if t[i].isspace() and t.startswith('HO:', i + 1):
            return True
        if t.startswith(':MI', i) and (t[i + 3:] in ('', '\n') or t[i + 3] == '+'):
            return True
        if t.startswith('+ZONE', i) and t[i + 5:] in ('', '\n'):
            return True
    return False

def ref_hint_ok(h):
    return len(h) == 5 and h[0] in '+-' and alldig(h[1:]) and int(h[3:5]) < 60 and int(h[1:3]) < 24

def leap(y):
    return y % 4 == 0 and (y % 100 != 0 or y % 400 == 0)

def month_len(y, m):
    return [31, 29 if leap(y) else 28, 31, 30, 31, 30, 31, 31, 30, 31, 30, 31][m - 1]

def days_from_civil(y, m, d):
    """Howard Hinnant's algorithm: days since 1970-01-01 of a proleptic Gregorian date"""
    y -= m <= 2
    era = (y if y >= 0 else y - 399) // 400
    yoe = y - era * 400
    doy = (153 * (m + (-3 if m > 2 else 9)) + 2) // 5 + d - 1
    doe = yoe * 365 + yoe // 4 - yoe // 100 + doy
    return era * 146097 + doe - 719468

def ref_components(t):
    """split a stripped string by the date grammar: (date, time, ('num', sign, hh, mm) | ('abbr', a) | ('none',)) or None"""
    if len(t) < 16:
        return None
    date = t[:10]
    if not (alldig(date[0:4]) and date[4] == '-' and alldig(date[5:7]) and date[7] == '-' and alldig(date[8:10])):
        return None
    i = 10
    if t[i] == 'T':
        i += 1
    elif t[i].isspace():
        while i < len(t) and t[i].isspace():
            i += 1
    else:
        return None
    time = t[i:i + 5]
    if not (len(time) == 5 and alldig(time[0:2]) and time[2] == ':' and alldig(time[3:5])):
        return None
    i += 5
    if t[i:i + 1] == ':':
        if not (len(t[i + 1:i + 3]) == 2 and alldig(t[i + 1:i + 3])):
            return None
        i += 3
    while i < len(t) and t[i].isspace():
        i += 1
    z = t[i:]
    if z == '':
        return (date, time, ('none',))
    for pre in ('GMT', 'UTC', ''):
        if z.startswith(pre):
            n = z[len(pre):]
            for shape in (5, 6):
                if len(n) == shape and n[0] in '+-' and alldig(n[1:3]) and alldig(n[-2:]) and (shape == 5 or n[3] == ':'):
                    return (date, time, ('num', n[0], n[1:3], n[-2:]))
    a = z[1:] if z.startswith('+') else z
    if a in TZ():
        return (date, time, ('abbr', a))
    return None

def ref_fix(s, hint):
    """('ok', t, instant minutes) | ('err', 'BoilerplateDate'|'DateSyntaxError'|'ValueError')"""
    t = s.strip()
    if ref_boiler(t):
        return ('err', 'BoilerplateDate')
    if hint is not None and not ref_hint_ok(hint):
        return ('err', 'ValueError')
    comp = ref_components(t)
    if comp is None:
        return ('err', 'DateSyntaxError')
    date, time, z = comp
    if z[0] == 'num':
        zone = z[1] + z[2] + z[3]
    elif z[0] == 'abbr':
        offs = TZ()[z[1]]
        if len(offs) != 1:
            return ('err', 'DateSyntaxError')
        zone = offs[0]
    elif hint is not None:
        zone = hint
    else:
        return ('err', 'DateSyntaxError')
    out = f'{date} {time}{zone}'
    inst = ref_instant(out)
    if inst is None:
        return ('err', 'DateSyntaxError')
    return ('ok', out, inst)

def ref_shape(t):
    return (len(t) == 21 and alldig(t[0:4] + t[5:7] + t[8:10] + t[11:13] + t[14:16] + t[17:21])
            and t[4] == '-' and t[7] == '-' and t[10] == ' ' and t[13] == ':' and t[16] in '+-')

def ref_instant(t):
    """minutes since 1970-01-01T00:00Z of a canonical text denoting an existing calendar instant, else None"""
    if not ref_shape(t):
        return None
    y, mo, d, h, mi, zh, zm = int(t[0:4]), int(t[5:7]), int(t[8:10]), int(t[11:13]), int(t[14:16]), int(t[17:19]), int(t[19:21])
    if not (1 <= y and 1 <= mo <= 12 and 1 <= d <= month_len(y, mo) and h <= 23 and mi <= 59 and zm <= 59 and zh <= 23):
        return None
    off = (zh * 60 + zm) * (-1 if t[16] == '-' else 1)
    return days_from_civil(y, mo, d) * 1440 + h * 60 + mi - off

POT, PO = 'POT-Creation-Date', 'PO-Revision-Date'

def ref_epoch_us():
    return G.to_us(datetime.datetime(1995, 7, 2, tzinfo=datetime.timezone.utc))

def ref_tags(c):
    """the verdict the statement prescribes, in the tool's emission order"""
    out = []
    publican = c.content_type is not None and c.content_type.startswith('application/x-publican;')
    for field, dates in ((POT, c.pot), (PO, c.po)):
        if len(dates) > 1:
            out.append(('duplicate-header-field-date', [('s', field)]))
            dates = sorted(set(dates))
        elif not dates:
            if not (field == POT and c.is_binary):
                out.append(('no-date-header-field', [('s', field)]))
            continue
        for date in dates:
            if c.is_template and field == PO and date == G.BOILERPLATE:
                continue
            hint = '-0000' if ('T' in date and publican) else None
            r = ref_fix(date, hint)
            label = ('S', field + ':')
            if r[0] == 'err':
                if r[1] == 'BoilerplateDate':
                    out.append(('boilerplate-in-date', [label, ('s', date)]))
                elif r[1] == 'DateSyntaxError':
                    out.append(('invalid-date', [label, ('s', date)]))
                else:
                    return ('err', r[1])
                continue
            if r[1] != date:
                out.append(('invalid-date', [label, ('s', date), ('s', '=>'), ('s', r[1])]))
            if r[2] * 60000000 > c.now_us:
                out.append(('date-from-future', [label, ('s', date)]))
            if r[2] * 60000000 < ref_epoch_us():
                out.append(('ancient-date', [label, ('s', date)]))
    return ('ok', out)

# ------------------------------------------------------------------ the property on the real code

def check_fix_property(s, hint):
    """None if `fix_date_format(s, tz_hint=hint)` behaves as the statement says, else a replay dict with 'kind' and 'key'"""
    r = real_fix(s, hint)
    ref = ref_fix(s, hint)
    base = {'input': s, 'input_codepoints': hexs(s), 'tz_hint': hint, 'real': list(r), 'reference': list(ref),
            'how': "lib.gettext.fix_date_format(input, tz_hint=tz_hint) in /repo"}
    if r[0] == 'err':
        if r[1] not in ('DateSyntaxError', 'BoilerplateDate') and not (r[1] == 'ValueError' and hint is not None and not ref_hint_ok(hint)):
            return dict(base, kind=f'fix_date_format raised {r[1]} (neither DateSyntaxError/BoilerplateDate nor the ValueError for a malformed hint)',
                        key=f'C18:fix-crash:{r[1]}')
        if ref[0] == 'ok':
            return dict(base, kind=f'a date of the grammar denoting an existing instant is rejected ({r[1]})', key='C18:fix-rejects-valid')
        if ref[1] != r[1]:
            return dict(base, kind=f'rejected as {r[1]}, the statement says {ref[1]}', key='C18:fix-wrong-rejection')
        return None
    t = r[1]
    if not ref_shape(t):
        return dict(base, kind='result is not of the form YYYY-MM-DD hh:mm+ZZzz (ASCII)', key='C18:fix-not-canonical')
    if ref_instant(t) is None:
        return dict(base, kind='result does not denote an existing calendar instant', key='C18:fix-not-calendar')
    r2 = real_fix(t, None)
    if r2 != ('ok', t):
        return dict(base, kind='result is not a fixed point of normalisation', key='C18:fix-not-idempotent', second=list(r2))
    r3 = real_fix(t, hint)
    if hint is not None and ref_hint_ok(hint) and r3 != ('ok', t):
        return dict(base, kind='result is not a fixed point of normalisation (with the hint)', key='C18:fix-not-idempotent', second=list(r3))
    comp = ref_components(s.strip())
    abbr = comp[2][1] if comp is not None and comp[2][0] == 'abbr' else None
    if abbr is not None:
        base = dict(base, abbreviation=abbr, reference_offsets=tables()[0].get(abbr), data_file_offsets=tables()[1].get(abbr),
                    reference_table='lean/I18n/Spec/TimezonesRef.lean (tzdata 2014e, hand-maintained)')
    if ref[0] != 'ok':
        if abbr is not None and len(TZ()[abbr]) != 1:
            refoffs = tables()[0].get(abbr) or []
            if len(refoffs) == 1 and t[16:] not in refoffs:
                return dict(base, kind=f'wrong offset: the zone abbreviation {abbr} means {refoffs[0]} (reference table), the date is normalised to {t[16:]}',
                            key=f'C18:abbr-wrong-offset:{abbr}')
            return dict(base, kind=f'accepted-although-ambiguous: the zone abbreviation {abbr} has stood for {" ".join(TZ()[abbr])}, '
                                   f'the date is normalised to {t[16:]} instead of being rejected', key=f'C18:abbr-ambiguous-accepted:{abbr}')
        return dict(base, kind=f'accepted, the statement says {ref[1]}', key='C18:fix-accepts-invalid')
    if ref[1] != t:
        return dict(base, kind='date, time or offset written in the input not kept', key='C18:fix-not-preserved')
    return None

def check_tags_property(c):
    r = real_check(c)
    ref = ref_tags(c)
    base = {'context': c.as_dict(), 'real': list(r), 'reference': list(ref),
            'how': 'Checker.check_dates(ctx) with ctx.metadata / is_binary / is_template from context and lib.misc.utc_now patched to return now'}
    if r[0] == 'err':
        return dict(base, kind=f'check_dates raised {r[1]}', key=f'C18:check-crash:{r[1]}')
    if ref[0] == 'err':
        return None
    if r[1] != ref[1]:
        return dict(base, kind='date tags differ from the reference verdict', key='C18:tags-differ',
                    real_tags=show_tags(r[1]), reference_tags=show_tags(ref[1]))
    return None

# ------------------------------------------------------------------ inputs

def abbreviations():
    """every abbreviation of BOTH tables (the reference's and the tree's data file)"""
    return sorted(TZ())

def unescape(s):
    import re
    def one(m):
        x = m.group(1)
        return {'n': '\n', 't': '\t', '\\': '\\'}.get(x) or chr(int(x[1:], 16))
    return re.sub(r'\\(n|t|\\|x[0-9a-fA-F]{2}|u[0-9a-fA-F]{4})', one, s)

def corpus():
    d = os.path.join(common.VERIF, 'corpus', 'C18')
    out = []
    if os.path.isdir(d):
        for f in sorted(os.listdir(d)):
            with open(os.path.join(d, f), encoding='utf-8', newline='') as fh:
                for line in fh.read().split('\n'):
                    if line and not line.startswith('#'):
                        s, _, h = line.partition('\t')
                        s = unescape(s)
                        out.append((s, None if h == 'None' else unescape(h)))
    return out

NOW_FIXED = G.to_us(datetime.datetime(2026, 9, 29, 19, 30, 12, 345678, tzinfo=datetime.timezone.utc))
CONTENT_TYPES = [None, 'text/plain; charset=UTF-8', 'application/x-publican; v=1', 'application/x-publican;', 'application/x-publican',
                 'Application/x-publican; v=1', ' application/x-publican; v=1', '']

def contexts(rng, n, dates_pool):
    """check_dates situations; `now` within ±1 µs / ±1 min of the instant of one of the dates, of the epoch, or fixed"""
    out = []
    ok_pool = [(s, ref_fix(s, None)) for s in dates_pool]
    ok_pool = [(s, r[2]) for s, r in ok_pool if r[0] == 'ok']
    deltas = [0, 1, -1, 59999999, 60000000, -60000000, 60000001, -59999999, 3600 * 10**6, -86400 * 10**6]
    for _ in range(n):
        def some_dates():
            k = rng.choice([0, 1, 1, 1, 1, 2, 2, 3])
            ds = []
            for _ in range(k):
                r = rng.random()
                if ds and r < 0.3:
                    ds.append(rng.choice(ds))
                elif r < 0.5 and ok_pool:
                    ds.append(rng.choice(ok_pool)[0])
                elif r < 0.6:
                    ds.append(G.BOILERPLATE)
                elif r < 0.7:
                    ds.append(rng.choice(['2013-05-28T12:00:00', '2013-05-28T12:00', '2013-05-28 12:00', '2013-05-28T12:00+0200', '2213-05-28T12:00:00',
                                          '1980-05-28T12:00:00', 'T', '1995-07-02T00:00', '1995-07-01T23:59:59']))
                else:
                    ds.append(rng.choice(dates_pool))
            return ds
        pot, po = some_dates(), some_dates()
        ct = rng.choice(CONTENT_TYPES) if rng.random() < 0.8 else 'application/x-publican; v=1'
        cand = [inst for d in pot + po for r in [ref_fix(d, '-0000' if 'T' in d else None)] if r[0] == 'ok' for inst in [r[2]]]
        r = rng.random()
        if cand and r < 0.6:
            now = rng.choice(cand) * 60000000 + rng.choice(deltas)
        elif r < 0.75:
            now = ref_epoch_us() + rng.choice(deltas)
        elif r < 0.9:
            now = NOW_FIXED
        else:
            now = rng.choice([G.NOW_MIN_US, G.NOW_MAX_US, 0, NOW_FIXED])
        now = max(G.NOW_MIN_US, min(G.NOW_MAX_US, now))
        out.append(Ctx(ct, rng.random() < 0.3, rng.random() < 0.3, pot, po, now))
    return out

def boundary_contexts():
    out = []
    ep = ref_epoch_us()
    for d in G.boundary_dates():
        r = ref_fix(d, None)
        if r[0] != 'ok':
            out.append(Ctx(None, False, False, [d], [d + ' '], NOW_FIXED))
            continue
        inst = r[2] * 60000000
        for now in (inst - 1, inst, inst + 1, NOW_FIXED):
            now = max(G.NOW_MIN_US, min(G.NOW_MAX_US, now))
            out.append(Ctx(None, False, False, [d], [], now))
    for ct in CONTENT_TYPES:
        for d in ('2013-05-28T12:00:00', '2013-05-28 12:00:00', '2013-05-28T12:00:00+0200', G.BOILERPLATE, ' ' + G.BOILERPLATE):
            for tmpl in (False, True):
                for binary in (False, True):
                    out.append(Ctx(ct, binary, tmpl, [d], [d], NOW_FIXED))
                    out.append(Ctx(ct, binary, tmpl, [], [d, d], NOW_FIXED))
                    out.append(Ctx(ct, binary, tmpl, [d, '2013-05-28 12:00+0000', d], [], NOW_FIXED))
    return out

# ------------------------------------------------------------------ whole files through Checker.check()

DATE_TAGS = {'boilerplate-in-date', 'invalid-date', 'date-from-future', 'ancient-date', 'no-date-header-field', 'duplicate-header-field-date'}
FILE_CONTENT_TYPES = [None, 'text/plain; charset=UTF-8', 'text/plain; charset=UTF-8', 'application/x-publican; charset=UTF-8',
                      'application/x-publican;', 'application/x-publican', 'application/x-publican ; v=1']

def file_safe(d):
    """a date value that survives PO escaping, the header split and `value.strip(' \\t')` unchanged"""
    return all(ord(ch) >= 0x20 and ch != '\x7f' and not (0xd800 <= ord(ch) <= 0xdfff) for ch in d) and d == d.strip(' \t') \
        and '\x85' not in d and ' ' not in d and ' ' not in d

def file_cases(rng, n, dates_pool):
    """(Ctx, kind) with kind in po/pot/mo; `now` around the instants as in `contexts`"""
    pool = [d for d in dates_pool if file_safe(d)]
    base = contexts(rng, n, pool)
    out = []
    for c in base:
        kind = rng.choice(['po', 'po', 'pot', 'mo'])
        c.content_type = rng.choice(FILE_CONTENT_TYPES)
        c.is_binary, c.is_template = kind == 'mo', kind == 'pot'
        utf8 = c.content_type is not None and 'charset=UTF-8' in c.content_type
        keep = lambda d: file_safe(d) and (utf8 or d.isascii())     # without a declared charset the file is not read as UTF-8
        c.pot = [d for d in c.pot if keep(d)]
        c.po = [d for d in c.po if keep(d)]
        out.append((c, kind))
    return out

def header_text(rng, c):
    fields = [('Project-Id-Version', 'verif 1'), ('Report-Msgid-Bugs-To', 'bugs@example.org')]
    dates = [('POT-Creation-Date', d) for d in c.pot] + [('PO-Revision-Date', d) for d in c.po]
    if rng.random() < 0.5:
        # interleave the two fields, keeping each field's own order
        pot = [x for x in dates if x[0] == POT]
        po = [x for x in dates if x[0] == PO]
        dates = []
        while pot or po:
            src = pot if (pot and (not po or rng.random() < 0.5)) else po
            dates.append(src.pop(0))
    fields += dates
    fields += [('Last-Translator', 'A B <ab@example.org>'), ('Language-Team', 'Polish <pl@example.org>'), ('Language', 'pl'), ('MIME-Version', '1.0')]
    if c.content_type is not None:
        fields.append(('Content-Type', c.content_type))
    fields.append(('Content-Transfer-Encoding', '8bit'))
    pad = lambda: rng.choice(['', '', ' ', '\t', '  '])
    return ''.join(f'{k}:{rng.choice([" ", " ", "", "  ", chr(9)])}{v}{pad()}\n' for k, v in fields)

def write_catalog(rng, c, kind, directory, idx):
    from gen import catalog as CAT, mo as MO
    hdr = header_text(rng, c)
    path = os.path.join(directory, f'c{idx}.{kind}')
    if kind == 'mo':
        cat = [(None, b'', None, [hdr.encode('utf-8')]), (None, b'hello', None, ['witaj'.encode('utf-8')])]
        data = MO.serialize(cat, MO.gen_layout(rng, simple=True))
        with open(path, 'wb') as f:
            f.write(data)
    else:
        text = 'msgid ""\nmsgstr ""\n' + ''.join('"%s"\n' % CAT.po_escape(line + '\n') for line in hdr.split('\n')[:-1])
        text += '\nmsgid "hello"\nmsgstr "%s"\n' % ('' if kind == 'pot' else 'witaj')
        with open(path, 'w', encoding='utf-8', newline='') as f:
            f.write(text)
    return path

def real_file_check(c, path):
    """the date tags `Checker(path).check()` emits (all checks run), with utc_now patched"""
    import checker_harness as H
    misc = M()[1]
    from lib import tags
    now = G.from_us(c.now_us)
    saved = getattr(misc, 'utc_now', None)
    misc.utc_now = lambda: now
    try:
        checker, calls = H.make_checker(path)
        checker.check()
    except Exception as exc:
        return ('err', type(exc).__name__, str(exc)[:200])
    finally:
        misc.utc_now = saved
    out = []
    others = set()
    for name, extra in calls:
        if name in DATE_TAGS:
            out.append((name, [('S' if isinstance(x, tags.safestr) else 's' if isinstance(x, str) else 'o', str(x)) for x in extra]))
        else:
            others.add(name)
    return ('ok', out, sorted(others))

def impl_file(c, path):
    r = real_file_check(c, path)
    return 'ok ' + show_tags(r[1]) if r[0] == 'ok' else 'err ' + r[1]

def check_file_property(c, kind, path):
    r = real_file_check(c, path)
    ref = ref_tags(c)
    base = {'context': c.as_dict(), 'file_kind': kind, 'file': open(path, 'rb').read().decode('utf-8', 'backslashreplace'),
            'real': list(r[:2]), 'reference': list(ref),
            'how': 'write `file` as x.<file_kind> (the .mo is the MO serialisation of that header), Checker(path).check() with lib.misc.utc_now patched to now; date tags only'}
    if r[0] == 'err':
        return dict(base, kind=f'Checker.check raised {r[1]} on a catalogue with these date fields', key=f'C18:file-crash:{r[1]}')
    if ref[0] == 'ok' and r[1] != ref[1]:
        return dict(base, kind='date tags of the file differ from the reference verdict', key='C18:file-tags-differ',
                    real_tags=show_tags(r[1]), reference_tags=show_tags(ref[1]))
    return None
