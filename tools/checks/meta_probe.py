"""scratch probe (not part of the check)"""
import collections, json, os, sys, time
sys.path.insert(0, os.path.join(os.path.dirname(os.path.abspath(__file__)), '..'))
import common
import meta_common as M
import meta_falsify as F

def main():
    chk = common.Check('C17', argv=['quick'])
    work = M.Work()
    try:
        for name, n in [('po_spellings', 150), ('transcodings', 150), ('mo_layouts', 150), ('po_vs_mo', 150), ('packages', 16)]:
            if len(sys.argv) > 1 and name not in sys.argv[1:]:
                continue
            stats = collections.Counter()
            t = time.time()
            found = getattr(F, name)(chk, work, n, stats)
            print(name, round(time.time() - t, 1), 's', dict(stats))
            for f in found[:2]:
                print('MISMATCH', json.dumps(f.get('mismatch'), ensure_ascii=False)[:1500])
                print(json.dumps({k: v for k, v in f.items() if k not in ('first', 'second', 'package_hex', 'members')}, indent=1, ensure_ascii=False)[:3000])
                if 'first' in f:
                    print('--- first\n' + f['first']['text'][:800])
                    print('--- second\n' + f['second']['text'][:800])
                    print('\n'.join(f['first']['diagnostics'][:12]))
                    print('---')
                    print('\n'.join(f['second']['diagnostics'][:12]))
    finally:
        work.close()

main()
