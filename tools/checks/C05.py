#!/venv/bin/python
"""C05 — range analysis of plural expressions is sound."""
import os, sys
sys.path.insert(0, os.path.join(os.path.dirname(os.path.abspath(__file__)), '..'))
import common
from gen import plural as G

def main():
    chk = common.Check('C05')
    import plural_common as P
    proved = chk.prove('I18n.Props.C05')
    driver_ok = os.path.exists(common.driver_path()) and not any('untranslatable' in s for s in chk.lean.translation.values()) \
        and 'Driver' not in ' '.join(chk.lean.problems)
    n_cases = 6000 if chk.thorough else 1200
    cases = P.build_cases(chk, n_cases, depth=6 if chk.thorough else 5)
    chk.note_cases({(G.to_prefix(e), bits) for e, ex, bits in cases if G.size(e) > 1})
    if driver_ok and (proved or 'I18n.Generated' not in ' '.join(chk.lean.problems)):
        P.stream_codomain(chk, cases)
        P.stream_eval(chk, cases, per_case=6 if chk.thorough else 3)
    else:
        chk.broken.append({'kind': 'correspondence', 'stream': 'plural-*', 'problem': 'driver could not be rebuilt from the regenerated model'})
    budget = (60000 if chk.thorough else 12000) * (3 if chk.broken else 1)
    cex, tried = P.falsify_codomain(chk, budget)
    chk.evaluations += tried
    chk.coverage['falsifier'] = {'expressions_all_n': tried, 'widths': '0..5', 'found': cex is not None}
    if cex is not None:
        chk.violation('range analysis unsound on the real code', cex, key=cex.get('kind') + ':' + cex.get('expr', ''))
    elif chk.broken:
        chk.violation('proof obligation or correspondence no longer checks', {'broken': chk.broken}, no_input=True)
    chk.finish(
        level='proof',
        rule='expressions from a grammar-directed generator (boundary constants per width) + registry-style expressions, '
             'parsed by the real parser; non-trivial = distinct (AST, width) with at least one operator',
        trusted=['Lean 4.33 kernel', 'axioms: propext, Classical.choice, Quot.sound only',
                 'py2lean translator (tools/translate/py2lean.py) for lib/intexpr.py',
                 'glue evalAt/codomain (1 << bits) tied by the plural-eval/plural-codomain streams'],
        explanation='codomain_sound / codomain_none_fails / codomain_nocrash / codomain_interval_wf are proved by structural '
                    'induction over the evaluators GENERATED from lib/intexpr.py on this run; the correspondence streams validate '
                    'the translator and the glue on the listed cases; the falsifier evaluates the real code at all n < 2^b, b <= 5.')

if __name__ == '__main__':
    common.main_wrapper(main)
