#!/venv/bin/python
"""C11 — the C format-string parser implements printf(3)."""
import os, sys
sys.path.insert(0, os.path.join(os.path.dirname(os.path.abspath(__file__)), '..'))
import common
from gen import cfmt as G

def main():
    chk = common.Check('C11')
    import cfmt_common as C
    proved = chk.prove('I18n.Props.C11', generated=('cfmt', 'cfmtconv'))
    tie_ok = C.prove_tie(chk)
    problems = ' '.join(chk.lean.problems)
    driver_ok = os.path.exists(common.driver_path()) and not any('untranslatable' in s for s in chk.lean.translation.values()) \
        and 'Driver' not in problems and 'I18n.Model' not in problems and 'I18n.Spec' not in problems

    n_single = G.n_single() if chk.thorough else (600000 if chk.broken else 200000)
    n_multi = 100000 if chk.thorough else (60000 if chk.broken else 25000)
    n_bad = 60000 if chk.thorough else (30000 if chk.broken else 12000)
    # the witness of the finding repaired by fix: 871d4d7 (int() digit limit), replayed on the real code (model: Props.C11.witness_outcome)
    witness = '%.' + '0' * 4301 + 'd'
    rep = C.check_property(witness)
    if rep is not None:
        key = rep.pop('key')
        chk.violation(rep['kind'], rep, key=key)

    fam = {'corpus': C.corpus()}
    fam.update(C.stream_inputs(chk, n_single, n_multi, n_bad))
    disagreeing = []
    if driver_ok:
        stream_fam = fam
        res = C.run_stream(chk, {k: v for k, v in stream_fam.items() if v})
        for name, ss in res.items():
            disagreeing += ss
    else:
        chk.broken.append({'kind': 'correspondence', 'stream': 'cfmt-*', 'problem': 'driver could not be rebuilt from the regenerated model'})

    # falsifier: the property itself on the real code (independent reference + glibc), disagreeing inputs first
    budget = (400000 if chk.thorough else 60000) * (4 if chk.broken else 1)
    order = list(disagreeing) + fam['boundary'] + fam['corpus'] + fam['context'] + fam['regex']
    rng = chk.rng
    pools = [fam['multi'], fam['malformed'], fam['single']]
    mixed = []
    take = [budget // 2, budget // 4, budget // 4]
    for pool, k in zip(pools, take):
        mixed += pool if len(pool) <= k else rng.sample(pool, k)
    order += mixed
    if chk.broken:
        # exhaustive single directives (every length x conversion x flag subset x width/precision/index kind)
        extra = budget - len(order)
        if extra > 0:
            order += G.singles(rng, extra)
    cex, tried = C.falsify(chk, order, budget + len(disagreeing) + len(fam['boundary']) + len(fam['corpus']) + len(fam['context']) + len(fam['regex']))
    chk.evaluations += tried
    chk.coverage['falsifier'] = {'strings_vs_printf_reference_and_glibc': tried, 'glibc_available': C.glibc_count('%d') is not None,
                                 'glibc_types_compared': C.STATS['glibc_types_compared'], 'glibc_types_platform_lp64': C.lp64(),
                                 'found': cex is not None}
    if cex is None and chk.broken:
        chk.violation('proof obligation or correspondence no longer checks', {'broken': chk.broken}, no_input=True)
    chk.finish(
        level='proof',
        rule='single directives: the full product length x conversion (+84 inttypes macros) x flag subsets x width kind x precision kind x '
             f'index kind ({G.n_single()} strings; all in thorough, a uniform sample in quick); multi-directive strings from a '
             'mostly-valid generator (unnumbered / numbered with shared indices / mixed; boundary indices 0,1,4096,4097,2^31-1,2^31; '
             'boundary widths); gap-free permutations; one/two-edit mutants and garbage; a fixed boundary list (4095..4097 arguments, '
             '4299..4301-digit numerals); non-trivial = distinct accepted string with at least one argument',
        trusted=['Lean 4.33 kernel', 'axioms: propext, Classical.choice, Quot.sound only',
                 'tools/translate/cfmt2lean.py (probes FormatString on single directives; factorisation of the probes is checked there; dumps the '
                 're._parser tree of _directive_re with categories expanded) and tools/translate/cfmtconv2lean.py (statement-by-statement translation of the '
                 'decision code of Conversion.__init__; construct table in its header) with the kit Model/CFmtKit.lean',
                 'Spec.BraceRe.bt (shared with C13) as a model of the sre engine: ordered alternation, greedy repeats, captures restored on backtracking',
                 'the first half of Conversion.__init__ (length x conversion -> type) is tied by exhaustive probing; the gap/type loops after the scan are hand-modelled (cfmt-* streams)',
                 'Spec.Printf is my reading of printf(3)/C99 7.19.6.1/POSIX; it is compared on every run with an independent Python '
                 'reference written from the man page and with glibc parse_printf_format (argument count and PA_* argument types, documented differences excluded) through the real code',
                 'the correspondence harness (canonicalisers in tools/checks/cfmt_common.py, Driver/CFmt.lean)'],
        explanation='Proved for all strings: parse_sound (accepted => rendering of Valid items, arguments = signature), items_unique '
                    '(unique readability: the scanner inverts render), parse_error_kinds (a failure is an own Error class or the int() ValueError), '
                    'warnings_inert, star_args, ctables_pin / model_checks_pin (probed tables = Spec.Printf tables, by decide), regex_pin (matching flags, group names). '
                    'TIE (Props/C11Tie.lean, regenerated from the current source each run): directive_regex (the scanner step = first match of the LIVE parse tree of '
                    '_directive_re under backtracking semantics, end and all group spans, for every string and position; through the verified canonicaliser ReKit.norm), '
                    'segmentation_is_finditer + match_decodes + error_prefix_printable (the finditer loop of FormatString.__init__ with its two Error tests, items decoded from '
                    'the named groups = CFmt.scan), generated_conversion_eq_model / generated_add_argument_eq_model (decision code of Conversion.__init__ and FormatString.add_argument translated from source = the model). '
                    'Proved for every string: parse_complete, parse_iff_valid (acceptance iff validity, with the signature), parse_error_own (own errors only), '
                    'via int_unlimited (sys.get_int_max_str_digits() as dumped from the running tool is 0: lib/__init__.py lifts the limit since fix: 871d4d7) '
                    'and the _partial theorems, which hold for any limit under "no digit run longer than the limit". On the pinned tree the unrestricted '
                    'clauses were false (witness "%." + "0"*4301 + "d": ValueError from int()); the witness is replayed on the real code each run '
                    '(fixed entry in known_findings.json). OUTSTANDING: nothing stated in the design is missing. Correspondence-level only: the type half of '
                    'Conversion.__init__ (exhaustively probed), the gap and one-type loops (cfmt-* streams).')

if __name__ == '__main__':
    common.main_wrapper(main)
