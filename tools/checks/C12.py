#!/venv/bin/python
"""C12 — the Python %-format parser is consistent with CPython's % operator."""
import os, sys
sys.path.insert(0, os.path.join(os.path.dirname(os.path.abspath(__file__)), '..'))
import common
from gen import pyfmt as G

def main():
    chk = common.Check('C12')
    import pyfmt_common as C
    proved = chk.prove('I18n.Props.C12', generated=('pyfmt', 'pyfmtconv'), extra_targets=())
    problems = ' '.join(p for p in chk.lean.problems if 'translator(pyfmtconv)' not in p)
    # the tie by translation (first part): Conversion.__init__ / FormatString.add_argument regenerated from the current lib/strformat/python.py and
    # proved equal to PyFmt.conversion / addArgument (Props/C12Tie.lean)
    tie_ok = common.prove_tie(chk, 'I18n.Props.C12Tie', ('pyfmtconv',),
                              'Conversion.__init__ / FormatString.add_argument regenerated from the current lib/strformat/python.py (Generated/PyFmtConv.lean) are no longer '
                              'proved equal to PyFmt.conversion / PyFmt.addArgument (generated_conversion_eq_model, generated_add_argument_eq_model, generated_parse_eq_model and the corollaries)')
    driver_ok = os.path.exists(common.driver_path()) and not any('untranslatable' in s for k, s in chk.lean.translation.items() if k != 'pyfmtconv') \
        and 'Driver' not in problems and 'I18n.Model' not in problems and 'I18n.Spec' not in problems

    boost = 3 if chk.broken else 1
    n_single = G.n_single() if chk.thorough else 16000 * boost
    n_multi = 300000 if chk.thorough else 36000 * boost
    n_bad = 200000 if chk.thorough else 20000 * boost
    short_len = 5

    fam = {'corpus': C.corpus()}
    fam.update(C.stream_inputs(chk, n_single, n_multi, n_bad, short_len))
    disagreeing = []
    oracle_dis = []
    if driver_ok:
        recorded = {}
        plain_stream = chk.stream
        def recording_stream(name, lines, outs, *a, **k):
            recorded[name] = (lines, outs)
            return plain_stream(name, lines, outs, *a, **k)
        chk.stream = recording_stream
        res = C.run_parse_stream(chk, {k: v for k, v in fam.items() if v})
        for name, ss in res.items():
            disagreeing += ss
        sample = fam['corpus'] + fam['boundary'] + fam['multi'][:3000] + fam['malformed'][:2000] + fam['single'][:1500]
        disagreeing += C.run_nowarn_stream(chk, sample)
        chk.stream = plain_stream
        if tie_ok:
            # the same inputs (and the same outputs of the real code) through the parser whose Conversion.__init__ is the definition regenerated from
            # the source (driver ops gparse / gparse-nowarn)
            for name, (lines, outs) in recorded.items():
                if lines and lines[0].startswith(('pyfmt parse ', 'pyfmt parse-nowarn ')):
                    chk.stream(name + '-generated', [l.replace('pyfmt parse', 'pyfmt gparse', 1) for l in lines], outs)
        disagreeing += C.run_plain_stream(chk, fam['corpus'] + fam['boundary'] + fam['context'] + fam['short'] + fam['multi'] + fam['malformed'])
        # the reference model of the interpreter against the interpreter
        ostr = fam['corpus'] + fam['boundary'] + fam['short'] + fam['context'][::3] + fam['single'] + fam['multi'] + fam['malformed']
        oracle_dis = C.run_oracle_stream(chk, ostr, per_string=2 if not chk.thorough else 3)
        if oracle_dis:
            chk.coverage['oracle_disagreements'] = [{'format': s, 'args': repr(a)[:200]} for s, a in oracle_dis[:10]]
    else:
        chk.broken.append({'kind': 'correspondence', 'stream': 'pyfmt-*', 'problem': 'driver could not be rebuilt from the regenerated model'})

    # falsifier: the property itself on the real code with the running interpreter as oracle; disagreeing inputs first
    budget = (1000000 if chk.thorough else 70000) * (3 if chk.broken else 1)
    order = list(disagreeing) + [s for s, _ in oracle_dis] + fam['corpus'] + fam['boundary'] + fam['context'] + fam['short']
    rng = chk.rng
    pools = [fam['multi'], fam['malformed'], fam['single']]
    take = [budget // 2, budget // 4, budget // 4]
    for pool, k in zip(pools, take):
        order += pool if len(pool) <= k else rng.sample(pool, k)
    stats = {}
    fixed = len(disagreeing) + len(oracle_dis) + len(fam['corpus']) + len(fam['boundary']) + len(fam['context']) + len(fam['short'])
    cex, tried = C.falsify(chk, order, budget + fixed, stats)
    chk.evaluations += tried
    chk.coverage['falsifier'] = {'strings_vs_running_interpreter': tried, 'outcomes': stats, 'found': cex is not None,
                                 'interpreter': sys.version.split()[0]}
    if cex is None and chk.broken:
        chk.violation('proof obligation or correspondence no longer checks', {'broken': chk.broken}, no_input=True)
    chk.finish(
        level='proof',
        rule='single directives: the full product conversion x flag subsets x width kind x precision kind x length x key '
             f'({G.n_single()} strings; all in thorough, a uniform sample in quick); every string of length <= {short_len} over the alphabet '
             f'{G.SMALL_ALPHABET!r} that contains a %; every code point 0..255 (+ non-ASCII digits, surrogate, astral) in every slot of a '
             'directive; boundary widths/precisions around 2^31-1, 2^63-1 and 4400-digit numerals; every truncation of two rich strings; '
             'multi-directive strings (unnamed / named / mixed, nested-parenthesis keys, repeated keys with equal and different types); '
             'one/two-edit mutants and garbage.  Oracle stream: (format, arguments) pairs with arguments fitted to the string and then '
             'perturbed (wrong class, wrong count, missing key, single value, boundary ints); widths/precisions capped at 10^4 where the '
             'interpreter would allocate.  non-trivial = distinct accepted string with at least one argument',
        trusted=['Lean 4.33 kernel', 'axioms: propext, Classical.choice, Quot.sound only',
                 'tools/translate/pyfmt2lean.py (dumps _info strings, SSIZE_MAX, probes the type of every conversion)',
                 'the model of the hand-written scanner and of Conversion.__init__/add_argument is hand-written: tied by the pyfmt-* streams',
                 'Spec.CPyPercent is my model of CPython\'s PyUnicode_Format (success/failure and exception kind only; argument values abstracted '
                 'to int/float/str/other); it is compared on every run with the running interpreter (pyfmt-oracle stream): fidelity is by '
                 f'correspondence with CPython {sys.version.split()[0]} (64-bit) only',
                 'the hypothesis PlainPercent is the model\'s plainPercent; it is compared with an independent regex reading of the domain (pyfmt-plain)',
                 'the correspondence harness (canonicalisers in tools/checks/pyfmt_common.py, Driver/PyFmt.lean)',
                 'tie by translation + proof (first part): tools/translate/pyfmtconv2lean.py (over tools/translate/pytr core + objfn) is trusted; the kit Model/PyFmtPy.lean is shared by both '
                 'sides; Conversion.__init__ and FormatString.add_argument regenerated from the current lib/strformat/python.py are PROVED equal to PyFmt.conversion / addArgument '
                 '(Props/C12Tie.lean), and the parser with the regenerated constructor runs against CPython in the pyfmt-*-generated streams'],
        explanation=EXPLANATION)

EXPLANATION = (
    'Proved in Lean for all strings s in the domain PlainPercent s (every conversion specification whose conversion character is % is '
    'exactly %%): accept_formats (accepted => CPython-model formats it with any arguments of the reported shape and types: tuple, mapping, or the bare value for a single unnamed argument), '
    'argsOf_matches / accept_formats_canonical (such arguments exist: a tuple, or a mapping thanks to one-type-per-key and the '
    'named/unnamed exclusion), malformed_rejected (rejected by CPython whatever the arguments => rejected by the parser), '
    'reject_reasons (rejected although CPython can format => ArgumentIndexingMixture / ArgumentTypeMismatch / WidthRangeError / '
    'PrecisionRangeError), error_means_malformed, tuple_exact (if CPython formats an accepted string with a tuple, the parser reports '
    'no named argument and exactly as many unnamed ones as the tuple has items), plainPercent_spec (the domain spelled out over '
    'the specifications the scanner reads). For all strings: mapping_keys_needed (a mapping CPython can format an accepted string '
    'with has every reported key), reason_true (the documented reason given is true of the '
    'specifications the scanner reads: a literal width > 2^31-1; a literal precision > 2^31-1, or > 2^31-4 on an integer conversion; '
    'a named and a positional specification; two specifications with one key and different types), warnings_inert (recording '
    'warnings changes neither acceptance, error class, argument lists nor items), error_own (only own Error classes; asserts and the termination '
    'device unreachable; int(ch) only sees one ASCII digit, so there is no digit-limit issue here). Pins: info_pin, types_pin, '
    'probes_pin (kernel evaluation of the model on ~1700 probed directives). Test-level only: the fidelity of Spec.CPyPercent to the '
    'interpreter (pyfmt-oracle stream against CPython 3.12.1, 64-bit; values abstracted to int/float/str/other; text and memory not '
    'modelled) and of the hand-written model to the code (pyfmt-* streams). Finding fixed in /repo: 84eb507 (integer conversions with '
    'literal precision 2^31-3..2^31-1 were accepted; CPython raises OverflowError for them whatever the argument). OUTSTANDING: '
    'nothing of the design list is missing.  Also proved: outside_domain_cpython_rejects / accept_formats_needs_domain (outside the '
    'domain the CPython 3.12 model formats nothing while the parser accepts e.g. %5% - the hypothesis is necessary). '
    'TIE BY TRANSLATION, first part (Props/C12Tie.lean): Generated/PyFmtConv.lean is rewritten from the current lib/strformat/python.py on every run (Conversion.__init__, '
    'FormatString.add_argument) and proved equal to PyFmt.conversion / addArgument for all parent states, all directives and both settings of the warn switch '
    '(generated_conversion_eq_model, generated_add_argument_eq_model, generated_add_argument_raw); the parser with the regenerated constructor in the modelled loop is PyFmt.parse '
    '(generated_parse_eq_model), and accept_formats, malformed_rejected, reject_reasons, error_own, accept_formats_canonical are restated about it (*_generated). The character scanner of '
    'FormatString.__init__ (the while-loop over enumerate(s)) and the final grouping remain hand-modelled, tied by the pyfmt-* streams.')

if __name__ == '__main__':
    common.main_wrapper(main)
